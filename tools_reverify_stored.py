#!/usr/bin/env python3
"""Maintenance helper: re-confirm every stored seeded change against the CURRENT /repo HEAD (after a fix: commit the
earlier confirmation no longer counts).  For each /verif/seeded/<name>: scratch worktree, demo on clean tree (must exit 0),
git apply, baseline tests (stable_pass subset must pass), demo on changed tree (must exit 1).
usage: tools_reverify_stored.py [name-prefix ...]   -> prints a line per seed, writes /tmp/reverify.json"""
import json, os, subprocess, sys, xml.etree.ElementTree as ET
from concurrent.futures import ThreadPoolExecutor
BASE = set(json.load(open('/root/.vp/BASELINE.json'))['stable_pass'])
def sh(cmd, cwd=None, timeout=1200, env=None):
    r = subprocess.run(cmd, shell=True, cwd=cwd, capture_output=True, text=True, timeout=timeout, env=env)
    return r.returncode, (r.stdout + r.stderr)
def one(name):
    wt = '/tmp/rv/' + name
    sh('git -C /repo worktree remove --force ' + wt)
    rc, o = sh('git -C /repo worktree add --detach %s HEAD' % wt)
    if rc: return name, {'error': o[-200:]}
    r = {}
    try:
        env = dict(os.environ, PYTHONPATH=wt, PYTHONWARNINGS='ignore')
        d = '/verif/seeded/' + name
        rc, o = sh('/venv/bin/python %s/demo.py' % d, cwd=wt, env=env, timeout=900); r['demo_clean'] = rc
        rc, o = sh('git apply %s/patch.diff' % d, cwd=wt); r['applies'] = rc == 0
        if rc:
            rc3, o3 = sh('git apply --3way %s/patch.diff' % d, cwd=wt); r['applies_3way'] = rc3 == 0
            if rc3: return name, r
            sh('git reset -q', cwd=wt)
            sh('git diff > /tmp/rv/%s.rebased.diff' % name, cwd=wt)
        j = '/tmp/rv/%s.xml' % name
        sh('/venv/bin/python -m pytest -q -p no:cacheprovider --timeout=900 --continue-on-collection-errors --junitxml=%s' % j, cwd=wt)
        ok = set()
        try:
            for tc in ET.parse(j).iter('testcase'):
                if not list(tc): ok.add(tc.get('classname') + '::' + tc.get('name'))
        except Exception as e:
            r['junit_err'] = str(e)
        r['baseline_missing'] = sorted(BASE - ok)
        rc, o = sh('/venv/bin/python %s/demo.py' % d, cwd=wt, env=env, timeout=900); r['demo_mut'] = rc; r['tail'] = o[-200:]
        if os.path.exists(j): os.remove(j)
    finally:
        sh('git -C /repo worktree remove --force ' + wt)
    return name, r
if __name__ == '__main__':
    os.makedirs('/tmp/rv', exist_ok=True)
    names = sorted(n for n in os.listdir('/verif/seeded') if not sys.argv[1:] or n.startswith(tuple(sys.argv[1:])))
    with ThreadPoolExecutor(12) as ex:
        res = dict(ex.map(one, names))
    json.dump(res, open('/tmp/reverify.json', 'w'), indent=1)
    for n in names:
        v = res[n]
        good = v.get('demo_clean') == 0 and v.get('demo_mut') == 1 and not v.get('baseline_missing', ['x']) and (v.get('applies') or v.get('applies_3way'))
        print(n, 'OK' if good else v, '(3way)' if good and not v.get('applies') else '')
    sh('git -C /repo worktree prune')
