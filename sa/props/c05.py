"""C05 - produced schemas are well-formed and closed.

D-a  label-producer agreement: every function with a shapes_namespace parameter receives the configured namespace at
     every call site, so shape definitions and shape references are built by the same function of the same namespace
     (known finding: get_class_profiler never forwards it; two golden files pin the dangling reference);
D-b  drop-shape / drop-references pairing: each removal iteration drops the empty shapes and then the statements that
     point to them, in both directions, in the profile and in the shapes;
D-c  references are only created for nodes of the instance dictionary (decision table);
D-d  guarded prefix insertion: a prefix is stored into a namespace->prefix map only after a test that it is not already
     among the values (known finding: prefixes harvested from a parsed graph are only tested by namespace);
D-e  emission: every shape and statement is emitted (total loops), every declared namespace gets its PREFIX line, the
     buffered writer never loses lines, one sh:path per property shape (known finding: inverse paths are written as
     sh:property [sh:inversePath p] without sh:path), shape subjects and sh:node objects share one label->IRI function;
D-f  label and token rendering tables.
Undecided: that the emitted text parses under the ShExC grammar for every IRI; label uniqueness for classes sharing a
local name."""
import ast
from ..core import walk_own, norm, is_self_attr, parent_map, AnalysisError
from ..report import Ob, Floor
from ..rules import plumb, twin, loops, gens, pure, prio
from ..abseval import Evaluator, Raised, Opaque
from .. import exceptions
from .c18 import writer_obligations
from .c11 import triples, pred_local, SHACL, SH

INIT = "shexer.shaper:Shaper.__init__"


def cascade_removal_table(ctx, clause):
    """ClassShexer._clean_empty_shapes, interpreted on a cascade: C -> A, A -> B (A's only constraint), B has no constraint,
    D -> B and D -> C.  B goes; A, emptied by that, goes in the next round; no surviving shape keeps a constraint that points
    to a removed one (neither C -> A nor D -> B); C and D stay.  Both strategies (the direct+inverse one also with an inverse
    constraint pointing to the removed shape)."""
    from ..abseval import AbsObj
    p = ctx.p
    obs = []
    f = p.func("shexer.core.shexing.class_shexer:ClassShexer._clean_empty_shapes")
    for sname in ("DirectShexingStrategy", "DirectAndInverseShexingStrategy"):
        ev = Evaluator(ctx, max_depth=16)
        ev.concrete_classes = {"ClassShexer", "DirectShexingStrategy", "DirectAndInverseShexingStrategy", "Shape", "Statement"}
        shape_cls, st_cls = p.find_class("Shape"), p.find_class("Statement")

        def st(t, inv=False):
            init = st_cls.find_method("__init__")
            kws = {"st_property": "http://e/p", "st_type": t, "cardinality": 1, "n_occurences": 1, "probability": 1.0, "is_inverse": inv}
            return ev.new(st_cls, **{k: v for k, v in kws.items() if k in init.params})

        def shape(name, sts):
            return ev.new(shape_cls, name=name, class_uri="http://e/" + name, statements=sts, n_instances=1)
        two = sname == "DirectAndInverseShexingStrategy"
        shapes = [shape("%<C>", [st("%<A>"), st("IRI")] + ([st("%<B>", True)] if two else [])), shape("%<A>", [st("%<B>")]),
                  shape("%<B>", []), shape("%<D>", [st("%<B>"), st("%<C>")])]
        cs = AbsObj(p.find_class("ClassShexer"))
        strat = AbsObj(p.find_class(sname))
        strat.fields = {"_class_shexer": cs}
        cs.fields = {"_shapes_list": shapes, "_remove_empty_shapes": True, "_strategy": strat, "_original_target_nodes": None}
        try:
            ev.invoke(cs, "_clean_empty_shapes", [], {}, 0)
            got = []
            for s_ in cs.fields["_shapes_list"]:
                got.append((ev.getattr_obj(s_, "name", 0), sorted(ev.getattr_obj(x, "st_type", 0) for x in ev.getattr_obj(s_, "statements", 0))))
            got = sorted(got)
        except Raised as r:
            got = "raises " + r.exc
        want = [("%<C>", ["IRI"]), ("%<D>", ["%<C>"])]
        ok = got == want
        left = [] if not isinstance(got, list) else [(n, t) for n, ts in got for t in ts if t.startswith("%<") and t not in [g[0] for g in got]]
        obs.append(Ob(clause, "R-TABLE", "R-TABLE|removal-cascade|%s" % sname, f.loc(), ok,
                      "cascade C->A->B(empty), D->B, D->C with %s: B and A are removed, no constraint points to a removed shape" % sname if ok else
                      "cascade C->A->B(empty), D->B, D->C with %s: expected %s, the cleaning leaves %s%s" % (
                          sname, want, got, " - dangling reference(s) %s" % left if left else "")))
    return obs


def profiler_removal_table(ctx, clause):
    """ClassProfiler._clean_class_profile interpreted on C -> A -> B (B has no feature), D -> B, D -> C and an original target T
    without features, with both profiling strategies: B is removed, T and the shapes that keep features stay, and no features
    dictionary still mentions a removed shape."""
    from ..abseval import AbsObj
    p = ctx.p
    f = p.func("shexer.core.profiling.class_profiler:ClassProfiler._clean_class_profile")
    obs = []
    for sname, two in (("DirectFeaturesStrategy", False), ("IncludeReverseFeaturesStrategy", True)):
        ev = Evaluator(ctx, max_depth=16)
        ev.concrete_classes = {"ClassProfiler", "DirectFeaturesStrategy", "IncludeReverseFeaturesStrategy"}
        wrap = (lambda d: (d, {})) if two else (lambda d: d)
        prof = {"C": wrap({"p": {"IRI": {1: 2}, "A": {1: 2}}}), "A": wrap({"q": {"B": {1: 1}}}), "B": wrap({}),
                "D": wrap({"r": {"B": {1: 1}, "C": {1: 1}}}), "T": wrap({})}
        cp, st = AbsObj(p.find_class("ClassProfiler")), AbsObj(p.find_class(sname))
        st.fields = {"_class_profiler": cp, "_c_shapes_dict": prof}
        cp.fields = {"_classes_shape_dict": prof, "_remove_empty_shapes": True, "_strategy": st, "_original_target_nodes": {"T"}}
        try:
            ev.invoke(cp, "_clean_class_profile", [], {}, 0)
            left = cp.fields["_classes_shape_dict"]
            feats = {k: (v[0] if two else v) for k, v in left.items()}
            dangling = sorted((k, pr, x) for k, d in feats.items() for pr, kinds in d.items() for x in kinds
                              if x in ("A", "B", "C", "D", "T") and x not in left)
            ok = "B" not in left and all(x in left for x in ("C", "D", "T")) and not dangling
            got = "shapes left %s, dangling %s" % (sorted(left), dangling)
        except Raised as r:
            ok, got = False, "raises " + r.exc
        obs.append(Ob(clause, "R-TABLE", "R-TABLE|profile-removal-cascade|%s" % sname, f.loc(), ok,
                      "profile cleaning with %s: the featureless class goes, the original target and the classes with features stay, "
                      "no features dictionary mentions a removed class" % sname if ok else
                      "profile cleaning with %s on C->A->B(empty), D->B, D->C, target T: %s" % (sname, got)))
    return obs


def pairing(ctx, clause):
    p = ctx.p
    obs = []
    # order of the two removal steps and iteration to the fixpoint: decided on a cascade (interpreted), whatever the helpers
    # are called and wherever their bodies sit
    obs += ctx.attempt(cascade_removal_table, ctx, clause, default=[])
    # every live shexing strategy removes references in every direction it produces
    for cname, wants in (("DirectShexingStrategy", ["direct_statements"]),
                         ("DirectAndInverseShexingStrategy", ["direct_statements", "inverse_statements"])):
        c = p.find_class(cname)
        m = c.find_method("remove_statements_to_gone_shapes")
        stores = sorted({t.attr for x in walk_own(m.node) if isinstance(x, ast.Assign) for t in x.targets if isinstance(t, ast.Attribute)})
        ok = all(w in stores for w in wants)
        obs.append(Ob(clause, "R-ORDER", "R-ORDER|refs-removed-in-every-direction|%s" % cname, m.loc(), ok,
                      "%s filters %s" % (cname, wants) if ok else
                      "%s (effective method %s) filters only %s: a reference to a removed shape survives in the %s statements" % (
                          cname, m.short, stores, [w for w in wants if w not in stores])))
        filt = [x for x in walk_own(m.node) if isinstance(x, ast.Call) and isinstance(x.func, ast.Attribute)
                and x.func.attr == "_statements_without_shapes_to_remove"]
        obs.append(Ob(clause, "R-ORDER", "R-ORDER|refs-filter-used|%s" % cname, m.loc(), len(filt) == len(wants),
                      "each direction goes through _statements_without_shapes_to_remove"))
    f = p.func("shexer.core.shexing.strategy.abstract_shexing_strategy:AbstractShexingStrategy._statements_without_shapes_to_remove")
    ev = Evaluator(ctx)
    stmts = ({"st_type": "%<S1>"}, {"st_type": "IRI"}, {"st_type": "%<S2>"})
    outs = ev.outcomes(f, {"original_statements": stmts, "shape_names_to_remove": ("%<S1>",)})
    ok = len(outs) == 1 and outs[0][0] == "return" and [s["st_type"] for s in outs[0][1]] == ["IRI", "%<S2>"]
    obs.append(Ob(clause, "R-TABLE", "R-TABLE|statements-without-removed-shapes", f.loc(), ok,
                  "exactly the statements whose target is a removed shape are dropped" if ok else "code gives %s" % (outs,)))
    # profiler: the same cascade, interpreted (whatever the loops, deletes / pops and helpers look like)
    obs += ctx.attempt(profiler_removal_table, ctx, clause, default=[])
    return obs


def reference_guard(ctx, clause):
    f = ctx.p.func("shexer.core.profiling.strategy.abstract_feature_direction_strategy:AbstractFeatureDirectionStrategy._decide_shapes_elem")
    ev = Evaluator(ctx)
    obs = []
    outs = ev.outcomes(f, {"str_elem": "http://e/unknown"}, {"self._i_dict": {"http://e/a": (("http://e/C",), {})},
                                                             "self._shape_names_dict": {"http://e/C": "%<L>"}})
    obs.append(Ob(clause, "R-TABLE", "R-TABLE|reference-only-for-instances|not an instance", f.loc(), outs == [("return", [])],
                  "a node outside the instance dictionary gets no shape reference" if outs == [("return", [])] else "code gives %s" % (outs,)))
    outs = ev.outcomes(f, {"str_elem": "http://e/a"}, {"self._i_dict": {"http://e/a": (("http://e/C",), {})},
                                                       "self._shape_names_dict": {"http://e/C": "%<L>"}})
    ok = outs == [("return", ["%<L>"])]
    obs.append(Ob(clause, "R-TABLE", "R-TABLE|reference-only-for-instances|instance", f.loc(), ok,
                  "an instance gets one reference per class it was selected for" if ok else "code gives %s" % (outs,)))
    return obs


def guarded_prefix_insertion(ctx, clause):
    """d[namespace] = prefix into a namespaces dictionary."""
    p, r = ctx.p, ctx.r
    obs, n = [], 0
    for f in p.funcs.values():
        pm = None
        for x in walk_own(f.node):
            if not (isinstance(x, ast.Assign) and len(x.targets) == 1 and isinstance(x.targets[0], ast.Subscript)):
                continue
            base = x.targets[0].value
            bname = base.attr if isinstance(base, ast.Attribute) else (base.id if isinstance(base, ast.Name) else "")
            if "namespaces_dict" not in bname and "namespaces_prefix_dict" not in bname:
                continue
            n += 1
            v = x.value
            ok, why = False, "the stored prefix `%s` is not tested against the prefixes already in use" % norm(v)[:40]
            if isinstance(v, ast.Call) and isinstance(v.func, ast.Name) and v.func.id == "find_adequate_prefix_for_shapes_namespaces":
                ok, why = _finder_is_guarded(ctx)
            elif isinstance(v, ast.Name) and v.id in f.params and f.cls is not None and f.cls.name == "ShaclSerializer" \
                    and f.cls.find_method("_add_shacl_namespace_if_needed") is not None:
                ok, why = _shacl_prefix_table(ctx)
            elif isinstance(v, ast.Name) and v.id in f.params:
                sites = [cs for cs in r.callers_of.get(f.qual, []) if ctx.reachable(cs.func)]
                ok = bool(sites) and all(_arg_guarded(cs, f, v.id) for cs in sites)
                why = "every caller passes a prefix it has just tested against the values in use" if ok else \
                    "a caller passes `%s` without testing it against the prefixes in use" % v.id
            else:
                pm = pm or parent_map(f.node)
                cur = x
                while cur in pm:
                    cur = pm[cur]
                    if isinstance(cur, ast.If) and ".values()" in norm(cur.test) and isinstance(cur.test, ast.Compare) \
                            and isinstance(cur.test.ops[0], ast.NotIn):
                        ok, why = True, "guarded by `%s`" % norm(cur.test)
            obs.append(Ob(clause, "R-GUARD", "R-GUARD|prefix-insertion|%s|%s" % (f.short, f.key(x.targets[0])[:50]), f.loc(x), ok,
                          why if ok else "%s: two namespaces can end up under one prefix (non-functional prefix map)" % why,
                          note=not ctx.reachable(f)))
    return obs, n


def _shacl_prefix_table(ctx):
    """The prefix the SHACL serialiser gives the SHACL namespace, interpreted for every subset of the default prefixes (and of
    the first numbered fallbacks) already in use: it is never one of the prefixes in use, and a dictionary that already has the
    SHACL namespace is left alone."""
    import itertools
    p = ctx.p
    f = p.method("ShaclSerializer", "_add_shacl_namespace_if_needed")
    mod = "shexer.io.shacl.formater.shacl_serializer"
    sh = p.const(mod, "_SHACL_NAMESPACE")
    pri = list(p.const(mod, "_SHACL_PRIORITY_PREFIXES"))
    rows = 0
    for r_ in range(len(pri) + 1):
        for taken in itertools.combinations(pri, r_):
            for extra in ((), (pri[0] + "1",), (pri[0] + "1", pri[0] + "2")):
                d = {"http://ns%d/" % i: t for i, t in enumerate(taken + extra)}
                ev = Evaluator(ctx)
                outs = ev.outcomes(f, {}, {"self._namespaces_dict": dict(d), "self._g_shapes": Opaque("g")})
                rows += 1
                fin = ev.finals[0][1]["self._namespaces_dict"] if len(outs) == 1 and outs[0][0] == "return" else None
                got = fin.get(sh) if isinstance(fin, dict) else None
                if not isinstance(got, str) or got in d.values() or {k: v for k, v in fin.items() if k != sh} != d:
                    return False, "with the prefixes %s in use the SHACL namespace gets %r (outcomes %s)" % (sorted(d.values()), got, outs)
    d = {sh: "mine", "http://x/": "sh"}
    ev = Evaluator(ctx)
    outs = ev.outcomes(f, {}, {"self._namespaces_dict": dict(d), "self._g_shapes": Opaque("g")})
    if not (len(outs) == 1 and outs[0][0] == "return" and ev.finals[0][1]["self._namespaces_dict"] == d):
        return False, "a dictionary that already declares the SHACL namespace is changed: %s" % (outs,)
    return True, "decision table of _add_shacl_namespace_if_needed (%d rows): the chosen prefix is never one in use" % (rows + 1)


def _finder_is_guarded(ctx):
    f = ctx.p.func("shexer.utils.namespaces:find_adequate_prefix_for_shapes_namespaces")
    pm = parent_map(f.node)
    for x in walk_own(f.node):
        if isinstance(x, ast.Return):
            cur, ok = x, False
            while cur in pm:
                cur = pm[cur]
                if isinstance(cur, ast.If) and isinstance(cur.test, ast.Compare) and isinstance(cur.test.ops[0], ast.NotIn):
                    ok = True
            if not ok:
                # the fall-through return must follow `while candidate in curr_prefixes`
                idx = f.node.body.index(x) if x in f.node.body else -1
                prev = f.node.body[idx - 1] if idx > 0 else None
                ok = isinstance(prev, ast.While) and isinstance(prev.test, ast.Compare) and isinstance(prev.test.ops[0], ast.In)
            if not ok:
                return False, "find_adequate_prefix_for_shapes_namespaces can return a prefix that is already in use"
    return True, "find_adequate_prefix_for_shapes_namespaces only returns prefixes it tested against the values in use"


def _arg_guarded(cs, f, prm):
    from ..resolve import bind_args
    arg = bind_args(cs.node, f)["bound"].get(prm)
    if not isinstance(arg, ast.Name):
        return False
    pm = parent_map(cs.func.node)
    cur = cs.node
    while cur in pm:
        par = pm[cur]
        if isinstance(par, ast.If) and isinstance(par.test, ast.Compare) and isinstance(par.test.ops[0], ast.NotIn) \
                and norm(par.test.left) == arg.id:
            return True
        if isinstance(par, (ast.FunctionDef,)):
            body = par.body
            # after `while <arg> in <values>:` loop
            for i, st in enumerate(body):
                if any(n is cs.node for n in ast.walk(st)):
                    for prev in body[:i]:
                        if isinstance(prev, ast.While) and isinstance(prev.test, ast.Compare) and isinstance(prev.test.ops[0], ast.In) \
                                and norm(prev.test.left) == arg.id:
                            return True
        cur = par
    return False


def shacl_paths(ctx, clause):
    p = ctx.p
    ev = Evaluator(ctx, watch={"add"})
    obs = []
    selfenv = {"self._instantiation_property_str": "http://www.w3.org/1999/02/22-rdf-syntax-ns#type"}
    f = p.func(SHACL + "_add_regular_constraint")
    for inv in (False, True):
        st = {"st_type": "IRI", "st_property": "http://e/p", "cardinality": 1, "is_inverse": inv}
        outs = ev.outcomes(f, {"statement": st, "r_shape_uri": Opaque("shape")}, selfenv)
        preds = [pred_local(t[1]) for o in outs if o[0] == "return" for t in triples(o[2])]
        ok = len(outs) == 1 and preds.count("path") == 1
        obs.append(Ob(clause, "R-EMIT", "R-EMIT|one-sh-path|ShaclSerializer._add_regular_constraint|inverse=%s" % inv, f.loc(), ok,
                      "a %s property shape has exactly one sh:path" % ("inverse" if inv else "direct") if ok else
                      "a%s property shape is emitted with %d sh:path triples (predicates: %s)" % (" inverse" if inv else " direct", preds.count("path"), preds)))
    return obs


def label_tables(ctx, clause):
    p = ctx.p
    ev = Evaluator(ctx)
    obs = []
    f = p.func("shexer.utils.shapes:build_shapes_name_for_class_uri")
    for uri, ns in (("http://e/C", "http://custom.org/sh/"), ("http://e/v#C", "http://weso.es/shapes/"), ("<Person>", "http://weso.es/shapes/"),
                    ("http://e/a/C", "http://weso.es/shapes/")):
        outs = ev.outcomes(f, {"class_uri": uri, "shapes_namespace": ns})
        ok = len(outs) == 1 and outs[0][0] == "return" and isinstance(outs[0][1], str) and outs[0][1].startswith("%<") \
            and outs[0][1].endswith(">") and (uri.startswith("<") or ns in outs[0][1])
        obs.append(Ob(clause, "R-TABLE", "R-TABLE|shape-label|%s|%s" % (uri, ns), f.loc(), ok,
                      "label of %s in %s is %s" % (uri, ns, outs[0][1] if ok else outs)))
    t = p.func("shexer.io.shex.formater.statement_serializers.base_statement_serializer:BaseStatementSerializer.tune_token")
    NS = {"http://weso.es/shapes/": "", "http://www.w3.org/2001/XMLSchema#": "xsd", "http://e/": "ex"}
    for tok, want in (("%<http://weso.es/shapes/S>", "@:S"), ("%<http://other.org/S>", "@<http://other.org/S>"), ("IRI", "IRI"),
                      ("http://www.w3.org/2001/XMLSchema#string", "xsd:string"), ("http://e/C", "ex:C"), ("http://nowhere.org/x", "<http://nowhere.org/x>"),
                      ("http://e/a/b", "<http://e/a/b>")):
        outs = ev.outcomes(t, {"a_token": tok, "namespaces_dict": NS})
        ok = outs == [("return", want)]
        obs.append(Ob(clause, "R-TABLE", "R-TABLE|token-rendering|%s" % tok, t.loc(), ok,
                      "token %s is rendered as %s" % (tok, want) if ok else "expected %s, code gives %s" % (want, outs)))
    return obs


def shape_label_injective(ctx, clause):
    """One label per class: two different classes must not be given the same shape label (each label is defined once in the
    document).  Decision table of build_shapes_name_for_class_uri over pairs of class IRIs that differ only in their namespace."""
    from ..abseval import Evaluator
    f = ctx.p.func("shexer.utils.shapes:build_shapes_name_for_class_uri")
    ns = "http://weso.es/shapes/"
    pairs = [("http://hr.org/Person", "http://crm.org/ns#Person"), ("http://a.org/x/Item", "http://a.org/y/Item")]
    obs = []
    for a, b in pairs:
        outs = []
        for iri in (a, b):
            ev = Evaluator(ctx)
            outs.append(ev.outcomes(f, {"class_uri": iri, "shapes_namespace": ns}))
        same = outs[0] == outs[1]
        obs.append(Ob(clause, "R-TABLE", "R-TABLE|shape-label-injective|%s|%s" % (a, b), f.loc(), not same,
                      "classes %s and %s get different labels" % (a, b) if not same else
                      "classes %s and %s both get the label %s: the document defines that label twice (and references to it are ambiguous)" % (
                          a, b, outs[0])))
    return obs


def statement_line_table(ctx, clause):
    """One constraint line of a shape, as the two ShExC statement serializers write it: [^] property value(s joined by OR)
    [cardinality] and a ';' exactly when another constraint follows; the statement's comments come after it, in order.
    Both serializers are interpreted (object mode) over direction x position x cardinality; tokens are compared, not spacing."""
    p = ctx.p
    NS = {"http://e/": "e"}
    A, B = "%<http://weso.es/shapes/A>", "%<http://weso.es/shapes/B>"
    obs, rows = [], 0
    for cname, stc in (("BaseStatementSerializer", "Statement"), ("FixedPropChoiceStatementSerializer", "FixedPropChoiceStatement")):
        f = p.method(cname, "serialize_statement_with_indent_level")
        bad = []
        for inv in (False, True):
            for last in (False, True):
                for card, card_txt in ((2, "{2}"), ("+", "+")):
                    ev = Evaluator(ctx, max_depth=12)
                    ev.concrete_classes = {cname, "BaseStatementSerializer", stc, "Statement"}
                    ser = ev.new(p.find_class(cname), instantiation_property_str="http://www.w3.org/1999/02/22-rdf-syntax-ns#type",
                                 frequency_serializer=None, disable_comments=True, is_inverse=inv)
                    kw = dict(st_property="http://e/p", cardinality=card, n_occurences=3, probability=0.5, comments=["# c1", "# c2"],
                              serializer_object=ser, is_inverse=inv)
                    if stc == "Statement":
                        kw["st_type"] = A
                        targets = ["@<http://weso.es/shapes/A>"]
                    else:
                        kw["st_types"] = [A, B]
                        targets = ["@<http://weso.es/shapes/A>", "OR", "@<http://weso.es/shapes/B>"]
                    st = ev.new(p.find_class(stc), **kw)
                    rows += 1
                    desc = "%s %s constraint, %s" % ("inverse" if inv else "direct", card_txt, "last of its shape" if last else "followed by another")
                    try:
                        out = ev.invoke(ser, "serialize_statement_with_indent_level", [],
                                        {"a_statement": st, "is_last_statement_of_shape": last, "namespaces_dict": NS}, 0)
                    except Raised as r_:
                        bad.append("%s: raises %s" % (desc, r_.exc))
                        continue
                    if not (isinstance(out, list) and out and all(isinstance(t, tuple) and len(t) == 2 and isinstance(t[0], str) for t in out)):
                        bad.append("%s: result is not a list of (line, indent) pairs: %r" % (desc, out))
                        continue
                    line = out[0][0].rstrip()
                    semi = line.endswith(";")
                    toks = (line[:-1] if semi else line).split()
                    want = (["^"] if inv else []) + ["e:p"] + targets + [card_txt]
                    if toks != want:
                        bad.append("%s: line `%s` has tokens %s, expected %s" % (desc, line, toks, want))
                    elif semi == last:
                        bad.append("%s: line `%s` %s - the document does not parse" % (
                            desc, line, "ends with ';' although nothing follows" if semi else "lacks the ';' that separates it from the next constraint"))
                    elif [t[0] for t in out[1:]] != ["# c1", "# c2"]:
                        bad.append("%s: comments after the line are %s" % (desc, [t[0] for t in out[1:]]))
        obs.append(Ob(clause, "R-TABLE", "R-TABLE|statement-line|%s" % cname, f.loc(), not bad,
                      "%s writes [^] property value(s) cardinality, ';' iff another constraint follows, then the comments" % cname
                      if not bad else "; ".join(bad[:3])))
    return obs, rows


def check(ctx, tier):
    g = ctx.flow
    obs = []
    init = ctx.p.func(INIT)
    src = [g.var(init, "shapes_namespace")] + g.field_nodes(ctx.p.find_class("Shaper"), "_shapes_namespace")
    o_pl, n_pl = ctx.attempt(plumb.forwarding, ctx, "D-a", "shapes_namespace", lambda prm: prm == "shapes_namespace", src, default=([], 0))
    obs += o_pl
    obs += ctx.attempt(pairing, ctx, "D-b", default=[])
    obs += twin.check_pairs(ctx, "D-b", "C05")
    obs += ctx.attempt(reference_guard, ctx, "D-c", default=[])
    o_g, n_g = ctx.attempt(guarded_prefix_insertion, ctx, "D-d", default=([], 0))
    obs += o_g
    o_l, n_l = ctx.attempt(loops.emission_loops_total, ctx, "D-e", default=([], 0))
    obs += o_l
    ns_loop = ctx.p.method("ShexSerializer", "_serialize_namespaces")
    fl = [x for x in walk_own(ns_loop.node) if isinstance(x, ast.For)]
    ok = len(fl) == 1 and norm(fl[0].iter) == "self._namespaces_dict" and not [y for y in ast.walk(fl[0]) if isinstance(y, (ast.If, ast.Continue, ast.Break))]
    obs.append(Ob("D-e", "R-LOOP", "R-LOOP|prefix-declarations|ShexSerializer._serialize_namespaces", ns_loop.loc(), ok,
                  "every namespace of the dictionary gets its PREFIX line" if ok else "the PREFIX loop skips or filters namespaces"))
    obs += ctx.attempt(writer_obligations, ctx, "D-e", default=[])
    obs += ctx.attempt(shacl_paths, ctx, "D-e", default=[])
    obs += ctx.attempt(label_tables, ctx, "D-f", default=[])
    obs += ctx.attempt(lambda c, cl: gens.check(c, cl)[0], ctx, "D-f", default=[])
    obs += ctx.attempt(lambda c, cl: pure.fresh_receivers(c, cl)[0], ctx, "D-g", default=[])
    from .c18 import memo_obligations          # a stage that runs twice on one object defines every label twice
    obs += [o for o in ctx.attempt(lambda c, cl: memo_obligations(c, cl)[0], ctx, "D-h", default=[]) if "|first-run-guard|" in o.key]
    from .c19 import prefix_choice_table
    obs += ctx.attempt(prefix_choice_table, ctx, "D-i", default=[])
    obs += ctx.attempt(lambda c, cl: prio.check(c, cl)[0], ctx, "D-j", default=[])
    obs += ctx.attempt(shape_label_injective, ctx, "D-k", default=[])
    o_line, n_line = ctx.attempt(statement_line_table, ctx, "D-f", default=([], 0))
    obs += o_line
    from ..rules import profile as _profile
    obs += ctx.attempt(lambda c, cl: _profile.tables(c, cl, ('closed',))[0], ctx, "D-l", default=[])
    from ..rules import scanner as _scanner        # a datatype that keeps a corner or a quote is printed as it is: `p <<http://...>`
    obs += ctx.attempt(_scanner.literal_type_table, ctx, "D-f", default=[])
    exceptions.apply(obs)
    return {"obs": obs, "floors": [Floor("shapes_namespace call sites", n_pl, 6), Floor("prefix insertion sites", n_g, 3), Floor("emission loops", n_l, 4),
                                   Floor("statement-line rows", n_line, 16)],
            "explanation": "Closedness and well-formedness clauses visible in the code: every label producer receives the configured "
                           "namespace (forwarding at every call site), dropping a shape is paired with dropping the statements that point "
                           "to it in every direction and iterated to a fixpoint, references exist only for instances, prefixes are "
                           "inserted only after a not-in-values test, every shape / statement / namespace is emitted by total loops, the "
                           "buffered writer loses nothing, one sh:path per property shape, label and token rendering tables. Whether the "
                           "text parses under the ShExC grammar for every IRI, and label uniqueness, are not decided.",
            "trusted": ["rdflib serialises the SHACL graph as valid Turtle"]}
