"""C19 - extraction is deterministic across processes.

Decided for all inputs and hash seeds: no value whose order or content depends on string hashing,
randomness, the clock, object identity or directory order can reach the result of the API on any
API-reachable path (R-DET over the whole package, reachability-aware); randomness is reached only
after the four documented default shape prefixes were all found taken.
Trusted base: rdflib / SPARQLWrapper internals (rdflib-parsed inputs iterate in rdflib's order;
blank-node identifiers of the SHACL graph are random by design, which the property permits)."""
from ..report import Floor
from ..rules import det, globalstate, plumb
from .. import exceptions
from .c18 import global_obligations


def prefix_choice_table(ctx, clause):
    """The shapes prefix: the first of the documented defaults that the user's dictionary does not use; the random generator
    is consulted only when all of them are taken (decision table over every subset of taken defaults)."""
    import itertools
    from ..abseval import Evaluator
    from ..report import Ob
    p = ctx.p
    f = p.func("shexer.utils.namespaces:find_adequate_prefix_for_shapes_namespaces")
    defaults = list(p.const("shexer.utils.namespaces", "_PRIORITY_PREFIXES_FOR_SHAPES"))
    obs = []
    for r in range(len(defaults) + 1):
        for taken in itertools.combinations(defaults, r):
            ev = Evaluator(ctx)
            ev.stubs = {"get_random_string": "zzz"}
            d = {"http://ns%d/" % i: t for i, t in enumerate(taken)}
            d["http://other/"] = "ex"
            extra = {prm: None for prm in f.bound_params[1:] if prm not in f.defaults}
            outs = ev.outcomes(f, dict({f.bound_params[0]: d}, **extra))
            free = [x for x in defaults if x not in taken]
            want = free[0] if free else "zzz"
            ok = outs == [("return", want)]
            obs.append(Ob(clause, "R-TABLE", "R-TABLE|shapes-prefix|taken=%s" % ",".join(repr(t) for t in taken), f.loc(), ok,
                          "defaults taken %s -> %s" % (list(taken), repr(want) if free else "a random prefix (all four taken)") if ok else
                          "defaults taken %s: expected %s, code gives %s" % (list(taken), repr(want) if free else "the random fallback", outs)))
    return obs


def who_may_reach_random(ctx, clause):
    """Randomness is the documented last resort of the shapes-prefix choice only: the functions of the package that use the
    `random` module are entered from outside their module through find_adequate_prefix_for_shapes_namespaces and nothing else."""
    import ast
    from ..core import walk_own
    from ..report import Ob
    p, r = ctx.p, ctx.r
    users = []
    for f in p.funcs.values():
        for n in walk_own(f.node):
            if isinstance(n, ast.Call) and isinstance(n.func, ast.Attribute) and isinstance(n.func.value, ast.Name) and n.func.value.id in ("random", "secrets", "uuid") \
                    and p.resolve_name(f.module, n.func.value.id) not in (None,) and p.resolve_name(f.module, n.func.value.id)[0] in ("ext", "module"):
                users.append(f)
                break
    obs = []
    allowed_entry = "find_adequate_prefix_for_shapes_namespaces"
    seen, todo, entries = set(), list(users), []
    while todo:
        f = todo.pop()
        if f.qual in seen:
            continue
        seen.add(f.qual)
        for cs in r.callers_of.get(f.qual, []):
            if not ctx.reachable(cs.func):
                continue
            if cs.func.module is f.module:
                if cs.func.name != allowed_entry:
                    todo.append(cs.func)          # still inside the module and not yet at the documented entry: keep climbing
            else:
                entries.append((cs.func, f))      # entered from another module: f must be the documented entry
    bad = [(c, f) for c, f in entries if f.name != allowed_entry]
    obs.append(Ob(clause, "R-DET", "R-DET|random-entry-points", users[0].loc() if users else "shexer:0", not bad,
                  "the %d function(s) that use `random` are entered from other modules only through %s (%d call sites)" % (
                      len(users), allowed_entry, len(entries)) if not bad else
                  "%s reaches the random generator through %s, not through %s: a random value can appear in the result although the user "
                  "left the default shape prefixes free" % (bad[0][0].short, bad[0][1].short, allowed_entry)))
    return obs


def check(ctx, tier):
    obs = []
    o_sets, n_sets = det.check_sets(ctx, "D")
    obs += o_sets
    o_src, n_src = det.check_other_sources(ctx, "D")
    obs += o_src
    o_glob, _ = global_obligations(ctx, "D")
    obs += o_glob
    obs += ctx.attempt(lambda c, cl: plumb.exclusive_source(c, cl, "rdflib_graph")[0], ctx, "D-d", default=[])
    obs += ctx.attempt(prefix_choice_table, ctx, "D-e", default=[])
    obs += ctx.attempt(who_may_reach_random, ctx, "D-e", default=[])
    o_rdf, n_rdf = ctx.attempt(det.rdflib_iteration, ctx, "D-f", default=([], 0))
    obs += o_rdf
    exceptions.apply(obs)
    return {"obs": obs, "floors": [Floor("set constructions examined", n_sets, 10), Floor("other nondeterminism sources", n_src, 2)],
            "explanation": "Every construction of a set (literal, comprehension, set(), set algebra) in the package is followed along copy "
                           "edges of the value-flow graph to its uses; an iteration / list() / join() / pop() whose loop body is not "
                           "commutative is an order escape. random, clock, hash(), id(), directory listings are followed to the API "
                           "results and to file writes. Module globals rebound at run time and class-level mutable state are audited. "
                           "Complete for sheXer's own code; nondeterminism inside rdflib / SPARQLWrapper is outside the analysed program.",
            "trusted": ["dict iteration order is insertion order (Python >= 3.7)", "rdflib, SPARQLWrapper, wlighter are not analysed"]}
