"""C19 - extraction is deterministic across processes.

Decided for all inputs and hash seeds: no value whose order or content depends on string hashing,
randomness, the clock, object identity or directory order can reach the result of the API on any
API-reachable path (R-DET over the whole package, reachability-aware); randomness is reached only
after the four documented default shape prefixes were all found taken.
Trusted base: rdflib / SPARQLWrapper internals (rdflib-parsed inputs iterate in rdflib's order;
blank-node identifiers of the SHACL graph are random by design, which the property permits)."""
from ..report import Floor
from ..rules import det, globalstate, plumb
from .. import exceptions
from .c18 import global_obligations


def prefix_choice_table(ctx, clause):
    """The shapes prefix: the first of the documented defaults that the user's dictionary does not use; the random generator
    is consulted only when all of them are taken (decision table over every subset of taken defaults)."""
    import itertools
    from ..abseval import Evaluator
    from ..report import Ob
    p = ctx.p
    f = p.func("shexer.utils.namespaces:find_adequate_prefix_for_shapes_namespaces")
    defaults = list(p.const("shexer.utils.namespaces", "_PRIORITY_PREFIXES_FOR_SHAPES"))
    obs = []
    for r in range(len(defaults) + 1):
        for taken in itertools.combinations(defaults, r):
            ev = Evaluator(ctx)
            ev.stubs = {"get_random_string": "zzz"}
            d = {"http://ns%d/" % i: t for i, t in enumerate(taken)}
            d["http://other/"] = "ex"
            extra = {prm: None for prm in f.bound_params[1:] if prm not in f.defaults}
            outs = ev.outcomes(f, dict({f.bound_params[0]: d}, **extra))
            free = [x for x in defaults if x not in taken]
            want = free[0] if free else "zzz"
            ok = outs == [("return", want)]
            obs.append(Ob(clause, "R-TABLE", "R-TABLE|shapes-prefix|taken=%s" % ",".join(repr(t) for t in taken), f.loc(), ok,
                          "defaults taken %s -> %s" % (list(taken), repr(want) if free else "a random prefix (all four taken)") if ok else
                          "defaults taken %s: expected %s, code gives %s" % (list(taken), repr(want) if free else "the random fallback", outs)))
    return obs


def check(ctx, tier):
    obs = []
    o_sets, n_sets = det.check_sets(ctx, "D")
    obs += o_sets
    o_src, n_src = det.check_other_sources(ctx, "D")
    obs += o_src
    o_glob, _ = global_obligations(ctx, "D")
    obs += o_glob
    obs += ctx.attempt(lambda c, cl: plumb.exclusive_source(c, cl, "rdflib_graph")[0], ctx, "D-d", default=[])
    obs += ctx.attempt(prefix_choice_table, ctx, "D-e", default=[])
    o_rdf, n_rdf = ctx.attempt(det.rdflib_iteration, ctx, "D-f", default=([], 0))
    obs += o_rdf
    exceptions.apply(obs)
    return {"obs": obs, "floors": [Floor("set constructions examined", n_sets, 10), Floor("other nondeterminism sources", n_src, 2)],
            "explanation": "Every construction of a set (literal, comprehension, set(), set algebra) in the package is followed along copy "
                           "edges of the value-flow graph to its uses; an iteration / list() / join() / pop() whose loop body is not "
                           "commutative is an order escape. random, clock, hash(), id(), directory listings are followed to the API "
                           "results and to file writes. Module globals rebound at run time and class-level mutable state are audited. "
                           "Complete for sheXer's own code; nondeterminism inside rdflib / SPARQLWrapper is outside the analysed program.",
            "trusted": ["dict iteration order is insertion order (Python >= 3.7)", "rdflib, SPARQLWrapper, wlighter are not analysed"]}
