"""C19 - extraction is deterministic across processes.

Decided for all inputs and hash seeds: no value whose order or content depends on string hashing,
randomness, the clock, object identity or directory order can reach the result of the API on any
API-reachable path (R-DET over the whole package, reachability-aware); randomness is reached only
after the four documented default shape prefixes were all found taken.
Trusted base: rdflib / SPARQLWrapper internals (rdflib-parsed inputs iterate in rdflib's order;
blank-node identifiers of the SHACL graph are random by design, which the property permits)."""
from ..report import Floor
from ..rules import det, globalstate, plumb
from .. import exceptions
from .c18 import global_obligations


def check(ctx, tier):
    obs = []
    o_sets, n_sets = det.check_sets(ctx, "D")
    obs += o_sets
    o_src, n_src = det.check_other_sources(ctx, "D")
    obs += o_src
    o_glob, _ = global_obligations(ctx, "D")
    obs += o_glob
    obs += ctx.attempt(lambda c, cl: plumb.exclusive_source(c, cl, "rdflib_graph")[0], ctx, "D-d", default=[])
    exceptions.apply(obs)
    return {"obs": obs, "floors": [Floor("set constructions examined", n_sets, 10), Floor("other nondeterminism sources", n_src, 2)],
            "explanation": "Every construction of a set (literal, comprehension, set(), set algebra) in the package is followed along copy "
                           "edges of the value-flow graph to its uses; an iteration / list() / join() / pop() whose loop body is not "
                           "commutative is an order escape. random, clock, hash(), id(), directory listings are followed to the API "
                           "results and to file writes. Module globals rebound at run time and class-level mutable state are audited. "
                           "Complete for sheXer's own code; nondeterminism inside rdflib / SPARQLWrapper is outside the analysed program.",
            "trusted": ["dict iteration order is insertion order (Python >= 3.7)", "rdflib, SPARQLWrapper, wlighter are not analysed"]}
