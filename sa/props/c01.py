"""C01 - every reported instance count and frequency is exact.

D-a  counting discipline: the evidence tables are written only by the instances/profiling packages, only by
     absence-initialisation, `+= 1`, append of a class, tuple re-wrapping and empty-shape removal; every loop
     that reaches such a write visits all its elements; direct and inverse counting code are twins;
D-b  figures data-flow: at every candidate construction the reported count is the profile entry read under
     the statement's own (class, property, kind, cardinality) key, the frequency is that count divided by the
     instance count of the same class; shapes report int(count of their own class);
D-c  snapshot before mutate and who-may-write: n_occurences has no writer besides constructors; the comment of
     a relaxed statement carries the original figures (decision table shared with C03);
D-d  no arithmetic on figures: probability / n_occurences of a constructed statement are copies (known finding:
     the IRI+BNode NONLITERAL merge sums them);
D-e  the merged statement's cardinality is the most general of the two (decision table).
Undecided: that the tables equal the cardinalities of the input graph for every graph (value level)."""
import ast
from ..core import walk_own, norm
from ..report import Ob, Floor
from ..rules import count, twin, memo, direction, globalstate, plumb, scanner, gens, merge, mergetable
from ..abseval import Evaluator, Sym
from .. import exceptions
from .c03 import mk_statement, K, P_LOW

ASS = "shexer.core.shexing.strategy.abstract_shexing_strategy:"


def most_general_table(ctx, clause):
    f = ctx.p.func(ASS + "MergeableConstraints._most_general_cardinality")
    ev = Evaluator(ctx)
    K2 = Sym("k2", int, {1: ">", 0: ">"})
    obs = []
    for a, b, want in ((1, 1, 1), (1, "+", "+"), ("+", "+", "+"), (1, K, "+"), (K, K, K), ("+", K, "+")):
        outs = ev.outcomes(f, {"a_card1": a, "a_card2": b})
        ok = outs == [("return", want)]
        obs.append(Ob(clause, "R-TABLE", "R-TABLE|most-general-cardinality|%r,%r" % (a, b), f.loc(), ok,
                      "most general of %r and %r is %r" % (a, b, want) if ok else "expected %r, code gives %s" % (want, outs)))
    # two different exact cardinalities: symbolic k vs a different symbolic k2 must give '+'
    outs = ev.outcomes(f, {"a_card1": K, "a_card2": K2})
    ok = all(o == ("return", "+") for o in outs) or set(outs) <= {("return", "+"), ("return", K)} and ("return", "+") in outs
    obs.append(Ob(clause, "R-TABLE", "R-TABLE|most-general-cardinality|k,k2", f.loc(), ("return", "+") in outs and len(outs) <= 2 and ok,
                  "two exact cardinalities that may differ -> '+' when they differ: %s" % (outs,)))
    return obs


def who_may_write(ctx, clause):
    obs = []
    st = ctx.p.find_class("Statement")
    has_setter = "n_occurences" in st.setters
    writers = []
    for f in ctx.p.funcs.values():
        for n in walk_own(f.node):
            if isinstance(n, (ast.Assign, ast.AugAssign)):
                for t in (n.targets if isinstance(n, ast.Assign) else [n.target]):
                    if isinstance(t, ast.Attribute) and t.attr in ("_n_occurences", "n_occurences") and not (f.cls is not None and st in f.cls.mro() and f.name == "__init__"):
                        writers.append((f, n))
    ok = not has_setter and not writers
    obs.append(Ob(clause, "R-FLOW", "R-FLOW|who-may-write|Statement.n_occurences", st.module.relpath + ":%d" % st.node.lineno, ok,
                  "n_occurences is written by constructors only" if ok else
                  "n_occurences can be rewritten after construction (%s)" % ("setter" if has_setter else writers[0][0].loc(writers[0][1]))))
    return obs


def check(ctx, tier):
    obs = []
    o_disc, counts, writes = count.discipline(ctx, "D-a")
    obs += o_disc
    o_loops, n_loops = count.accumulation_loops_total(ctx, "D-a", writes)
    obs += o_loops
    obs += twin.check_pairs(ctx, "D-a", "C01")
    o_memo, n_memo = memo.check(ctx, "D-a")
    obs += o_memo
    o_cand, n_cand = count.candidate_dataflow(ctx, "D-b")
    obs += o_cand
    o_shape, n_shape = count.shape_sites(ctx, "D-b")
    obs += o_shape
    obs += who_may_write(ctx, "D-c")
    obs += count.no_arithmetic_on_figures(ctx, "D-d")
    obs += most_general_table(ctx, "D-e")
    obs += ctx.attempt(lambda c, cl: direction.explicit_direction(c, cl)[0], ctx, "D-f", default=[])
    obs += ctx.attempt(lambda c, cl: globalstate.module_level_mutables(c, cl)[0], ctx, "D-g", default=[])
    o_num, n_num = ctx.attempt(plumb.forwarding, ctx, "D-h", "infer_numeric_types_for_untyped_literals",
                               lambda prm: prm == "allow_untyped_numbers",
                               [ctx.flow.param("shexer.shaper:Shaper.__init__", "infer_numeric_types_for_untyped_literals")], default=([], 0))
    obs += o_num
    obs += ctx.attempt(lambda c, cl: scanner.quoted_token_contract(c, cl)[0], ctx, "D-i", default=[])
    obs += ctx.attempt(lambda c, cl: gens.check(c, cl)[0], ctx, "D-j", default=[])
    obs += ctx.attempt(scanner.literal_type_table, ctx, "D-k", default=[])
    obs += ctx.attempt(lambda c, cl: merge.check(c, cl)[0], ctx, "D-l", default=[])
    obs += ctx.attempt(lambda c, cl: count.class_iteration_agreement(c, cl)[0], ctx, "D-m", default=[])
    obs += ctx.attempt(scanner.numeric_token_table, ctx, "D-n", default=[])
    obs += ctx.attempt(lambda c, cl: mergetable.invariants(c, cl, which=('figures', 'direction', 'coverage', 'cardinality'))[0], ctx, "D-o", default=[])
    obs += ctx.attempt(lambda c, cl: scanner.rdflib_literal_datatype_source(c, cl)[0], ctx, "D-p", default=[])
    from ..rules import profile as _profile
    obs += ctx.attempt(lambda c, cl: _profile.tables(c, cl, ('reference',))[0], ctx, "D-q", default=[])
    exceptions.apply(obs)
    floors = [Floor("accumulator increments (+= 1)", counts.get("inc", 0), 9), Floor("absence initialisations", counts.get("init", 0), 20),
              Floor("class appends", counts.get("append", 0), 4), Floor("accumulation loops", n_loops, 8),
              Floor("candidate construction sites", n_cand, 3), Floor("Shape construction sites", n_shape, 2)]
    return {"obs": obs, "floors": floors,
            "explanation": "Counting discipline of the evidence tables (who may write, the admissible write forms, increments by exactly "
                           "one, total accumulation loops, direct/inverse twins, complete memo keys) and data-flow of every reported figure "
                           "(count read under the statement's own 4-level key, divided by the instance count of the same class; shape "
                           "headers; no arithmetic on figures; most-general cardinality table). Necessary conditions for exact figures on "
                           "every graph; that the tables equal the cardinalities of the input graph is a value-level fact and not decided.",
            "trusted": ["twin role maps", "evidence tables are the fields named in sa/rules/effect.py PROFILE_FIELDS"]}
