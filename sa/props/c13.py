"""C13 - each option changes only what it documents.

D-a  influence policy: for every presentation / inference switch, the effects that are control-dependent
     on it (difference between the two arms of each test it reaches, through callees, bound method slots and
     selected classes) are a subset of Allowed(option); its value never flows into a field of a Statement/Shape;
D-b  ordering of the tuning pipeline: relaxation, then generalisation, then comment removal (so comment
     removal is the last word on comments and generalisation sees relaxed cardinalities);
D-c  rounding: every ratio formatter converts probability*100 with a rounding conversion (known finding:
     decimals=0 truncates; a golden file pins it);
D-d  the OR construction copies property, cardinality, figures and direction from the dominant constraint;
D-f  output file vs string: the buffered writer hands both sinks the same lines (shared with C18);
D-e  no class-level mutable state is written by the formatters (a memo shared by all Shapers would make
     output depend on earlier Shapers' options).
Undecided: that two complete outputs differ only in the documented way (a relation between two runs)."""
import ast
from ..core import walk_own, norm, is_self_attr, AnalysisError
from ..report import Ob, Floor
from ..rules.effect import EffectIndex, OptionInfluence
from ..rules import twin, globalstate, direction, memo, plumb, mergetable
from .. import exceptions
from .c18 import writer_obligations

INIT = "shexer.shaper:Shaper.__init__"
SHEX = "shexer.shaper:Shaper.shex_graph"
ANY = "*"
ALLOWED = {
    (INIT, "disable_comments"): {("COMMENT-", ANY), ("MODEL-FIELD", "Statement._comments")},
    (INIT, "decimals"): {("IO", ANY)},
    (INIT, "instances_report_mode"): {("IO", ANY)},
    (INIT, "all_instances_are_compliant_mode"): {("CARD", "*"), ("CARD", "?"), ("PROB", ANY), ("COMMENT+", ANY)},
    (INIT, "allow_opt_cardinality"): {("CARD", "*"), ("CARD", "?")},       # chooses between the two relaxed cardinalities
    (INIT, "disable_exact_cardinality"): {("CARD", "+")},
    (INIT, "disable_or_statements"): {("STMT-NEW", "FixedPropChoiceStatement")},
    (INIT, "allow_redundant_or"): set(),
    (INIT, "examples_mode"): {("EXAMPLES", ANY), ("COMMENT+", ANY), ("IO", ANY)},
    (INIT, "detect_minimal_iri"): {("EXAMPLES", ANY), ("IO", ANY)},
    (INIT, "keep_less_specific"): set(),
    (INIT, "discard_useless_constraints_with_positive_closure"): set(),
    (INIT, "wikidata_annotation"): {("IO", ANY)},
    (SHEX, "string_output"): {("IO", ANY), ("COMMENT+", ANY)},
    (SHEX, "output_file"): {("IO", ANY), ("COMMENT+", ANY)},
    (SHEX, "verbose"): set(),
}


def allowed(policy, kind, detail):
    return (kind, ANY) in policy or (kind, detail) in policy


def check(ctx, tier):
    p, g = ctx.p, ctx.flow
    obs = []
    idx = EffectIndex(ctx)
    nsites = 0
    for (fq, opt), policy in ALLOWED.items():
        f = p.func(fq)
        if opt not in f.params:
            raise AnalysisError("option %s vanished from %s" % (opt, fq))
        oi = OptionInfluence(ctx, idx, opt, [g.var(f, opt)])
        nsites += len(oi.sites)
        for ff, owner, test, eff in oi.sites:
            bad = sorted({(k, d, fn) for k, d, fn in eff if not allowed(policy, k, d)})
            key = "R-EFFECT|%s|%s|%s" % (opt, ff.short, ff.key(test)[:50])
            if bad:
                obs.append(Ob("D-a", "R-EFFECT", key, ff.loc(test), False,
                              "option %s controls `%s` in %s, whose arms differ in effects outside its documented scope: %s" % (
                                  opt, norm(test)[:50], ff.short, ", ".join("%s%s in %s" % (k, (" " + d) if d else "", fn) for k, d, fn in bad[:4]))))
            else:
                obs.append(Ob("D-a", "R-EFFECT", key, ff.loc(test), True,
                              "control use of %s: arms differ only in %s" % (opt, sorted({(k, d) for k, d, _ in eff}) or "text")))
        for k, d, fn in sorted(oi.data_sinks):
            obs.append(Ob("D-a", "R-EFFECT", "R-EFFECT|%s|data|%s|%s" % (opt, fn, k), p.func(fq).loc(), False,
                          "the value of option %s flows into %s (in %s)" % (opt, k[6:], fn)))
    # ------------------------------------------------------------------ D-b
    t = p.func("shexer.core.shexing.strategy.abstract_shexing_strategy:AbstractShexingStrategy._tune_list_of_valid_statements")
    order = []
    for n in walk_own(t.node):
        if isinstance(n, ast.If) and is_self_attr(n.test):
            order.append((n.lineno, n.test.attr))
    order = [a for _, a in sorted(order)]
    want = ["_all_compliant_mode", "_disable_exact_cardinality", "_disable_comments"]
    obs.append(Ob("D-b", "R-ORDER", "R-ORDER|tuning-pipeline-order", t.loc(), order == want,
                  "tuning pipeline runs relaxation, generalisation, comment removal in this order" if order == want else
                  "tuning pipeline order is %s, expected %s" % (order, want)))
    # ------------------------------------------------------------------ D-c
    rf = p.find_class("RatioFreqSerializer")
    slots = ctx.r.slot_targets(rf, "serialize_frequency")
    if len(slots) < 3:
        raise AnalysisError("RatioFreqSerializer.serialize_frequency slot: expected 3 bound formatters, found %d" % len(slots))
    for m in slots:
        conv = None
        for n in walk_own(m.node):
            if isinstance(n, ast.Call) and any(isinstance(x, ast.Attribute) and x.attr == "probability" for x in ast.walk(n)):
                name = n.func.id if isinstance(n.func, ast.Name) else (n.func.attr if isinstance(n.func, ast.Attribute) else "?")
                if conv is None or name in ("int", "round", "format", "floor", "trunc"):
                    if not (name == "str" and conv is not None):
                        conv = name if conv is None or name != "str" else conv
        inner = [n for n in walk_own(m.node) if isinstance(n, ast.Call) and isinstance(n.func, ast.Name) and n.func.id in ("int", "floor", "trunc")
                 and any(isinstance(x, ast.Attribute) and x.attr == "probability" for x in ast.walk(n))]
        ok = not inner
        obs.append(Ob("D-c", "R-TABLE", "R-TABLE|ratio-rounding|%s" % m.short, m.loc(), ok,
                      "%s formats probability*100 with a rounding conversion" % m.short if ok else
                      "%s truncates: `%s` (2/3 prints 66 %% with decimals=0 but 66.7 %% with decimals=1)" % (m.short, norm(inner[0])[:50])))
    # ------------------------------------------------------------------ D-d
    mc = p.func("shexer.core.shexing.strategy.abstract_shexing_strategy:MergeableConstraints._tune_dominant_constraint_wrt_or_config")
    choice = p.find_class("FixedPropChoiceStatement")
    sites = [cs for cs in ctx.r.callsites if cs.kind == "ctor" and cs.recv_types is choice]
    for cs in sites:
        kw = {k.arg: k.value for k in cs.node.keywords}
        for field in ("st_property", "cardinality", "probability", "n_occurences", "is_inverse"):
            from ..rules.count import _expand
            v = _expand(cs.func, kw.get(field)) if kw.get(field) is not None else None      # `d = self._dominant_constraint; d.x` reads the same
            ok = isinstance(v, ast.Attribute) and v.attr == field and is_self_attr(v.value, "_dominant_constraint")
            obs.append(Ob("D-d", "R-FLOW", "R-FLOW|or-copies-dominant|%s|%s" % (cs.func.short, field), cs.func.loc(cs.node), ok,
                          "the OR statement copies %s from the dominant constraint" % field if ok else
                          "the OR statement's %s is `%s`, not the dominant constraint's %s" % (field, norm(v) if v is not None else "<missing>", field)))
    # ------------------------------------------------------------------ D-e
    o_glob, n_glob = globalstate.class_level_mutables(ctx, "D-e")
    obs += o_glob
    obs += twin.check_pairs(ctx, "D-a", "C13")
    # D-f: the file sink receives exactly the lines the string sink receives (output file vs string)
    obs += ctx.attempt(writer_obligations, ctx, "D-f", default=[])
    obs += ctx.attempt(lambda c, cl: direction.explicit_direction(c, cl)[0], ctx, "D-g", default=[])
    obs += ctx.attempt(lambda c, cl: memo.check(c, cl)[0], ctx, "D-g", default=[])
    o_opt, n_opt = ctx.attempt(plumb.all_options, ctx, "D-h", default=([], 0))
    obs += o_opt
    obs += ctx.attempt(lambda c, cl: plumb.no_cross_option_flow(c, cl)[0], ctx, "D-h", default=[])
    obs += ctx.attempt(lambda c, cl: mergetable.invariants(c, cl, which=('or-scope', 'direction'))[0], ctx, "D-i", default=[])
    from .c03 import tuning_table       # option scopes of all_compliant / allow_opt / disable_exact, decided at the entry point
    obs += ctx.attempt(lambda c, cl: tuning_table(c, cl)[0], ctx, "D-j", default=[])
    exceptions.apply(obs)
    floors = [Floor("option control sites examined", nsites, 30), Floor("OR construction sites", len(sites), 1),
              Floor("classes examined for class-level state", n_glob, 60)]
    return {"obs": obs, "floors": floors,
            "explanation": "Non-interference policy over %d options: for each test an option's value reaches, the effects of the two "
                           "arms (through callees, bound method slots, selected classes) are compared and their difference must lie "
                           "inside the option's documented scope (cardinality / probability / comment / new-statement / profile / "
                           "example / IO effect classes); option values never flow into Statement or Shape fields; tuning order; "
                           "rounding conversions; OR statements copy the dominant constraint; no class-level mutable state. The "
                           "policy decides which code an option can influence, not the magnitude of the difference between two "
                           "runs." % len(ALLOWED),
            "trusted": ["effect classes and the Allowed table in sa/props/c13.py transcribe the README / property statement",
                        "value-flow graph is a may-analysis; name-based call resolution may attribute an effect to a region that cannot execute it"]}
