"""C11 - ShExC and SHACL outputs state the same constraints.

Both serialisers are independent code over the same model.  Decided here, for every
abstract statement kind x cardinality x direction:
D-a  the triples ShaclSerializer emits for the value restriction (node kind / node / datatype /
     sh:in) equal the reference mapping of the ShExC rendering of the same kind;
D-b  min/max counts equal the ShExC cardinality ({k}->k..k, '+'->1.., '*'->.., '?'->..1, 1->1..1),
     compared semantically (absent minimum = 0, absent maximum = unbounded);
D-c  one node shape per shape, sh:targetClass = the class, same label->IRI function for the
     shape subject and sh:node objects, one path per property shape with the direction encoding
     the property statement fixes;
D-d  every statement of every shape is emitted by both serialisers (no conditional skip in the
     emission loops), and both compare the same instantiation property (same normalisers);
D-e  neither serialiser mutates the shared model (the second output would describe another model).
All by abstract evaluation of the serialiser source (no sheXer code is executed)."""
import ast
from ..core import walk_own, norm, AnalysisError
from ..report import Ob, Floor
from ..abseval import Evaluator, Opaque, Sym, Cat
from ..rules import pure, loops, direction, mergetable
from .. import exceptions

SH = "http://www.w3.org/ns/shacl#"
XSD_INT = ("ext", "XSD.integer")
SHACL = "shexer.io.shacl.formater.shacl_serializer:ShaclSerializer."
K = Sym("k", int, {1: ">", 0: ">"})
NODE = Opaque("constraint-node")

# reference: statement kind (as stored in Statement.st_type) -> (predicate local name, object)
KINDS = {
    "IRI": ("nodeKind", ("URIRef", SH + "IRI")),
    "BNode": ("nodeKind", ("URIRef", SH + "BlankNode")),
    "NONLITERAL": ("nodeKind", ("URIRef", SH + "BlankNodeOrIRI")),
    "%<http://weso.es/shapes/S>": ("node", ("URIRef", "http://weso.es/shapes/S")),
    "http://www.w3.org/2001/XMLSchema#string": ("dataType", ("URIRef", "http://www.w3.org/2001/XMLSchema#string")),
    "http://www.w3.org/1999/02/22-rdf-syntax-ns#langString": ("dataType", ("URIRef", "http://www.w3.org/1999/02/22-rdf-syntax-ns#langString")),
    "http://example.org/customDatatype": ("dataType", ("URIRef", "http://example.org/customDatatype")),
}
# reference: cardinality -> (min, max) with None = absent
CARDS = {1: (1, 1), K: (K, K), "+": (1, None), "*": (None, None), "?": (None, 1)}
SHEXC_CARD = {1: "", "+": "+", "*": "*", "?": "?"}


def lit_value(v):
    """('call','Literal',(value,),(('datatype', XSD.integer),)) -> (value, datatype)"""
    if isinstance(v, tuple) and v and v[0] == "call" and v[1] == "Literal":
        return v[2][0], dict(v[3]).get("datatype")
    if isinstance(v, tuple) and len(v) == 2 and v[0] == "Literal":
        return v[1], None
    return v, None


def triples(effects):
    out = []
    for eff in effects:
        if eff[0] == "add" and len(eff) == 2 and isinstance(eff[1], tuple) and len(eff[1]) == 3:
            out.append(eff[1])
    return out


def pred_local(p):
    if isinstance(p, tuple) and p[0] == "URIRef" and isinstance(p[1], str) and p[1].startswith(SH):
        return p[1][len(SH):]
    return p


def check(ctx, tier):
    p = ctx.p
    obs, rows = [], 0
    ev = Evaluator(ctx, watch={"add"})
    selfenv = {"self._instantiation_property_str": "http://www.w3.org/1999/02/22-rdf-syntax-ns#type",
               "self._detect_minimal_iri": False, "self._shape_example_features": None}

    def run(meth, args):
        f = p.func(SHACL + meth)
        outs = ev.outcomes(f, args, selfenv)
        return f, outs

    # ------------------------------------------------------------ D-a node kind
    for kind, (want_p, want_o) in KINDS.items():
        st = {"st_type": kind, "st_property": "http://e/p", "cardinality": 1, "is_inverse": False}
        f, outs = run("_add_node_type", {"statement": st, "r_constraint_node": NODE})
        rows += 1
        got = [(pred_local(t[1]), t[2]) for o in outs if o[0] == "return" for t in triples(o[2])]
        ok = len(outs) == 1 and outs[0][0] == "return" and got == [(want_p, want_o)]
        obs.append(Ob("D-a", "R-TABLE", "R-TABLE|ShaclSerializer._add_node_type|st_type=%s" % kind, f.loc(), ok,
                      "value restriction for kind %s: %s" % (kind, "sh:%s %s" % (want_p, want_o[1]) if ok else
                                                           "expected [sh:%s %s], SHACL serialiser emits %s" % (want_p, want_o[1], outs))))
    # the ShExC side renders exactly these kinds as themselves / @label / datatype IRI
    tune = p.func("shexer.io.shex.formater.statement_serializers.base_statement_serializer:BaseStatementSerializer.tune_token")
    ev2 = Evaluator(ctx)
    for kind in ("IRI", "BNode", "NONLITERAL"):
        outs = ev2.outcomes(tune, {"a_token": kind, "namespaces_dict": {}})
        rows += 1
        obs.append(Ob("D-a", "R-TABLE", "R-TABLE|BaseStatementSerializer.tune_token|%s" % kind, tune.loc(),
                      outs == [("return", kind)], "ShExC renders node kind %s as %s" % (kind, outs)))
    # the constant table itself, row by row (also protects the rows no statement kind exercises today)
    mm = p.const("shexer.io.shacl.formater.shacl_serializer", "_MACRO_MAPPING")
    ref_mm = {"IRI": ("URIRef", SH + "IRI"), "LITERAL": ("URIRef", SH + "Literal"), ".": None,
              "BNode": ("URIRef", SH + "BlankNode"), "NONLITERAL": ("URIRef", SH + "BlankNodeOrIRI")}
    if not isinstance(mm, dict):
        raise AnalysisError("_MACRO_MAPPING does not fold to a table")
    mloc = p.module("shexer.io.shacl.formater.shacl_serializer").relpath + ":1"
    for k in sorted(set(ref_mm) | set(mm), key=str):
        rows += 1
        ok = k in mm and k in ref_mm and mm[k] == ref_mm[k]
        obs.append(Ob("D-a", "R-CONST", "R-TABLE|node-kind|_MACRO_MAPPING" if not ok and k in ("BNode", ".", "NONLITERAL")
                      else "R-CONST|_MACRO_MAPPING|%s" % k, mloc, ok,
                      "_MACRO_MAPPING[%r] = %s%s" % (k, mm.get(k, "<missing>"), "" if ok else " but the SHACL vocabulary says %s" % (ref_mm.get(k, "<no such kind>"),))))
    # ---------------------------------------------------------- D-b cardinality
    for card, (wmin, wmax) in CARDS.items():
        st = {"st_type": "IRI", "st_property": "http://e/p", "cardinality": card, "is_inverse": False}
        f, outs = run("_add_cardinality", {"statement": st, "r_constraint_node": NODE})
        rows += 1
        gmin = gmax = None
        good = len(outs) == 1 and outs[0][0] == "return"
        if good:
            for t in triples(outs[0][2]):
                v, dt = lit_value(t[2])
                if pred_local(t[1]) == "minCount":
                    gmin = v
                    good = good and dt == XSD_INT
                elif pred_local(t[1]) == "maxCount":
                    gmax = v
                    good = good and dt == XSD_INT
                else:
                    good = False
        sem = lambda lo, hi: (0 if lo is None else lo, hi)
        ok = good and sem(gmin, gmax) == sem(wmin, wmax)
        obs.append(Ob("D-b", "R-TABLE", "R-TABLE|ShaclSerializer._add_cardinality|%r" % (card,), f.loc(), ok,
                      "cardinality %r -> min %s max %s%s" % (card, gmin, gmax, "" if ok else " (reference: min %s max %s); outcomes %s" % (wmin, wmax, outs))))
    cr = p.func("shexer.io.shex.formater.statement_serializers.base_statement_serializer:BaseStatementSerializer.cardinality_representation")
    for card in list(SHEXC_CARD) + [K]:
        want = SHEXC_CARD.get(card) if not isinstance(card, Sym) else Cat(["{", K, "}"])
        outs = ev2.outcomes(cr, {"statement": {"cardinality": card}, "out_of_comment": True})
        rows += 1
        ok = outs == [("return", want)]
        obs.append(Ob("D-b", "R-TABLE", "R-TABLE|cardinality_representation|%r" % (card,), cr.loc(), ok,
                      "ShExC cardinality %r -> %r%s" % (card, want, "" if ok else " expected, code gives %s" % outs)))
    # ------------------------------------------------ D-c paths, shapes, instantiation
    for inv in (False, True):
        st = {"st_type": "IRI", "st_property": "http://e/p", "cardinality": 1, "is_inverse": inv}
        f, outs = run("_add_path", {"statement": st, "r_constraint_node": NODE})
        rows += 1
        ts = [(pred_local(t[1]), t[2]) for o in outs if o[0] == "return" for t in triples(o[2])]
        if not inv:
            ok = ts == [("path", ("URIRef", "http://e/p"))]
        else:
            ok = len(ts) == 2 and ts[0][0] == "property" and ts[1] == ("inversePath", ("URIRef", "http://e/p"))
        obs.append(Ob("D-c", "R-EMIT", "R-EMIT|ShaclSerializer._add_path|inverse=%s" % inv, f.loc(), ok and len(outs) == 1,
                      "%s path emits %s" % ("inverse" if inv else "direct", ts)))
    INST = selfenv["self._instantiation_property_str"]
    st_inst = {"st_type": "http://e/C", "st_property": INST, "cardinality": 1, "is_inverse": False}
    st_inst2 = {"st_type": "http://e/D", "st_property": INST, "cardinality": 1, "is_inverse": False}
    st_reg = {"st_type": "IRI", "st_property": "http://e/p", "cardinality": "+", "is_inverse": False}
    # shape-level row (entry point of the per-shape emission, whatever the helpers below it look like): a shape of class C
    # whose instances all carry a second class D, plus one regular constraint
    shape3 = {"name": "%<http://weso.es/shapes/S>", "class_uri": "http://e/C", "yield_statements()": (st_inst, st_inst2, st_reg),
              "n_statements": 3}
    f, outs = run("_add_shape", {"shape": shape3})
    rows += 1
    ts = [(pred_local(t[1]), t[2]) for o in outs if o[0] == "return" for t in triples(o[2])]
    preds = [t[0] for t in ts]
    firsts = sorted(t[1][1] for t in ts if t[0] == ("ext", "RDF.first") and isinstance(t[1], tuple) and t[1][0] == "URIRef")
    ok = len(outs) == 1 and preds.count("in") == 2 and firsts == ["http://e/C", "http://e/D"] and "dataType" not in preds \
        and preds.count("nodeKind") == 1 and preds.count("path") == 3 and preds.count("property") == 3
    obs.append(Ob("D-c", "R-EMIT", "R-EMIT|ShaclSerializer._add_shape|two-class-values-and-a-regular-constraint", f.loc(), ok,
                  "a shape with two allowed class values and one regular constraint -> two sh:in lists (C, D), one node kind, three "
                  "property shapes with one path each" if ok else
                  "shape of class C with typing constraints [C] and [D] and one IRI constraint: expected two sh:in lists (C and D), no "
                  "sh:dataType, one sh:nodeKind, three paths; the serialiser emits %s with list heads %s" % (sorted(set(map(str, preds))), firsts)))
    try:
        f, outs = run("_add_constraint", {"statement": st_inst, "r_shape_uri": Opaque("shape")})
    except AnalysisError:
        outs = None       # helper reorganised: the shape-level row above covers the decision
    if outs is not None:
        rows += 1
        ts = [(pred_local(t[1]), t[2]) for o in outs if o[0] == "return" for t in triples(o[2])]
        preds = [t[0] for t in ts]
        mins = [lit_value(t[1])[0] for t in ts if t[0] == "minCount"]
        maxs = [lit_value(t[1])[0] for t in ts if t[0] == "maxCount"]
        ok = len(outs) == 1 and mins == [1] and maxs == [1] and preds.count("in") == 1 and preds.count("path") == 1 \
            and (("ext", "RDF.first"), ("URIRef", "http://e/C")) in [(t[0], t[1]) for t in ts] \
            and not any(x in preds for x in ("nodeKind", "node", "dataType"))
        obs.append(Ob("D-c", "R-EMIT", "R-EMIT|ShaclSerializer._add_constraint|instantiation", f.loc(), ok,
                      "instantiation constraint -> 1..1 + sh:in (class) + one sh:path: %s" % preds))
    try:
        f, outs = run("_add_constraint", {"statement": st_reg, "r_shape_uri": Opaque("shape")})
    except AnalysisError:
        outs = None
    if outs is not None:
        rows += 1
        ts = [(pred_local(t[1]), t[2]) for o in outs if o[0] == "return" for t in triples(o[2])]
        preds = [t[0] for t in ts]
        ok = len(outs) == 1 and preds.count("path") == 1 and preds.count("nodeKind") == 1 and preds.count("minCount") == 1 \
            and preds.count("property") == 1 and "maxCount" not in preds
        obs.append(Ob("D-c", "R-EMIT", "R-EMIT|ShaclSerializer._add_constraint|regular", f.loc(), ok,
                      "regular constraint -> one property shape with one path, one value restriction, counts: %s" % preds))
    shape = {"name": "%<http://weso.es/shapes/S>", "class_uri": "http://e/C", "yield_statements()": (), "n_statements": 0}
    f, outs = run("_add_shape", {"shape": shape})
    rows += 1
    ts = [t for o in outs if o[0] == "return" for t in triples(o[2])]
    S = ("URIRef", "http://weso.es/shapes/S")
    ok = len(outs) == 1 and (S, ("ext", "RDF.type"), ("URIRef", SH + "NodeShape")) in ts \
        and (S, ("URIRef", SH + "targetClass"), ("URIRef", "http://e/C")) in ts and len(ts) == 2
    obs.append(Ob("D-c", "R-EMIT", "R-EMIT|ShaclSerializer._add_shape", f.loc(), ok,
                  "shape %%<.../S> of class C -> exactly (S a sh:NodeShape) and (S sh:targetClass C): %s" % (ts,)))
    # ------------------------------------------------------------------- D-d
    o_loops, n_loops = loops.emission_loops_total(ctx, "D-d")
    obs.extend(o_loops)
    o_norm = loops.instantiation_normalisers_agree(ctx, "D-d")
    obs.extend(o_norm)
    # ------------------------------------------------------------------- D-e
    o_pure, n_pure = pure.serialisers_do_not_mutate_model(ctx, "D-e", ignore_fields=("_comments",))
    obs.extend(o_pure)
    obs += ctx.attempt(lambda c, cl: direction.explicit_direction(c, cl)[0], ctx, "D-g", default=[])
    obs += ctx.attempt(lambda c, cl: pure.fresh_receivers(c, cl)[0], ctx, "D-h", default=[])
    obs += ctx.attempt(lambda c, cl: mergetable.invariants(c, cl, which=('direction',))[0], ctx, "D-i", default=[])
    exceptions.apply(obs)
    floors = [Floor("R-TABLE/R-EMIT rows evaluated", rows, 27), Floor("emission loops", n_loops, 4),
              Floor("serializer functions examined for model mutation", n_pure, 40)]
    return {"obs": obs, "floors": floors,
            "explanation": "The SHACL serialiser's emission for every statement kind (IRI, BNode, NONLITERAL, shape label, three "
                           "datatypes), every cardinality class (1, k>1, +, *, ?), both directions, instantiation and regular "
                           "constraints and the node shape itself is extracted by abstract evaluation of the source (calls to "
                           "Graph.add are logged symbolically) and compared with the reference mapping of the ShExC rendering of "
                           "the same model object; the _MACRO_MAPPING table is compared row by row with the SHACL vocabulary; "
                           "emission loops are total; both serialisers compare the same instantiation property; neither mutates "
                           "the shared model. Complete decision of the mapping clause; what the two documents say for a given "
                           "graph is the same model object list (shared with C18).",
            "trusted": ["rdflib Graph.add/serialize and URIRef/Literal behave as documented",
                        "reference tables in sa/props/c11.py transcribe the property statement and the SHACL vocabulary"]}
