"""C15 - extraction from a SPARQL endpoint equals extraction from the same graph locally (NARROW claim).

The endpoint code is never executed offline; statically decided are only:
D-a  cache-flag polarity: every EndpointSGraph is constructed with store_locally = not disable_endpoint_cache;
D-b  non-interference of the cache flag: its control uses have no model effect; each cached variant first stores the
     whole remote answer, then marks the node, then replays it from the local graph (no yield while storing); remote,
     local and dispatcher triples of functions are twins; both passes get the same pre-built remote graph;
D-c  query result decoding: IRI bindings get corners by binding type (decision table), p_o / s_p readers are twins;
D-d  two-pass agreement: every option both pass builders accept is handed to both with the same value
     (namespaces_to_ignore is the documented exception: feature pass only).
Undecided (most of the property): equality of the shapes with local extraction, that the replay returns what the
endpoint returned, query counts."""
import ast
from ..core import walk_own, norm, is_self_attr, AnalysisError
from ..resolve import bind_args
from ..report import Ob, Floor
from ..rules import twin, plumb
from ..rules.effect import EffectIndex, OptionInfluence
from ..abseval import Evaluator
from .. import exceptions

INIT = "shexer.shaper:Shaper.__init__"


def polarity(ctx, clause):
    g, p, r = ctx.flow, ctx.p, ctx.r
    esg = p.find_class("EndpointSGraph")
    init = p.func(INIT)
    src = g.var(init, "disable_endpoint_cache")
    sites = [cs for cs in r.callsites if cs.kind == "ctor" and cs.recv_types is esg]
    obs = []
    for cs in sites:
        b = bind_args(cs.node, esg.methods["__init__"])
        arg = b["bound"].get("store_locally")
        key = "R-PLUMB|cache-polarity|%s" % cs.func.short
        if arg is None:
            obs.append(Ob(clause, "R-PLUMB", key, cs.func.loc(cs.node), False,
                          "%s builds an EndpointSGraph without store_locally: the cache is always on, whatever disable_endpoint_cache says" % cs.func.short))
            continue
        path = g.path([src], g.enode(arg))
        if path is None:
            obs.append(Ob(clause, "R-PLUMB", key, cs.func.loc(cs.node), False,
                          "store_locally=`%s` does not come from disable_endpoint_cache" % norm(arg)))
            continue
        nots = 0
        for nd in path:
            if nd[0] == "e":
                e, f = g.expr_index[nd[1]]
                if isinstance(e, ast.UnaryOp) and isinstance(e.op, ast.Not):
                    nots += 1
        ok = nots % 2 == 1
        obs.append(Ob(clause, "R-PLUMB", key, cs.func.loc(cs.node), ok,
                      "store_locally is the negation of disable_endpoint_cache" if ok else
                      "store_locally=`%s` has the polarity of disable_endpoint_cache itself (%d negations on the way)" % (norm(arg), nots)))
    return obs, len(sites)


def replay_order(ctx, clause):
    p = ctx.p
    obs = []
    for name in ("_yield_local_p_o_triples_of_an_s", "_yield_local_s_p_triples_of_an_o", "_yield_local_class_triples_of_an_s"):
        f = p.method("EndpointSGraph", name)
        body = [s for s in f.node.body if not (isinstance(s, ast.Expr) and isinstance(s.value, ast.Constant))]
        problems = []
        # creating a generator runs nothing: `remote = self._yield_remote_x(...)` ahead of the fill is the fill's own iterable
        lazy = {}
        while body and isinstance(body[0], ast.Assign) and len(body[0].targets) == 1 and isinstance(body[0].targets[0], ast.Name) \
                and isinstance(body[0].value, ast.Call):
            cands = [t for t in ctx.r.resolve(body[0].value, f)[0] if hasattr(t, "node")]
            if not cands or not all(any(isinstance(x, (ast.Yield, ast.YieldFrom)) for x in walk_own(m.node)) for m in cands):
                break
            lazy[body[0].targets[0].id] = norm(body[0].value)
            body = body[1:]

        def _is_replay(st):
            if isinstance(st, ast.For):
                return "self._local_sgraph." in norm(st.iter) and any(isinstance(x, ast.Yield) for x in ast.walk(st))
            return isinstance(st, ast.Expr) and isinstance(st.value, ast.YieldFrom) and "self._local_sgraph." in norm(st.value.value)
        if len(body) != 2 or not isinstance(body[0], ast.If) or body[0].orelse or not isinstance(body[1], (ast.For, ast.Expr)):
            problems.append("not `if node not tracked: <fill>` followed by `for ... in local graph: yield`")
        else:
            fill = body[0]
            if not (isinstance(fill.test, ast.Compare) and isinstance(fill.test.ops[0], ast.NotIn) and "_tracked" in norm(fill.test.comparators[0])):
                problems.append("fill is not guarded by `target_node not in <tracked set>`")
            if any(isinstance(x, (ast.Yield, ast.YieldFrom)) for s in fill.body for x in ast.walk(s)):
                problems.append("triples are yielded while the remote answer is still being stored: a consumer that stops early "
                                "leaves the node marked as cached with a partial neighbourhood")
            kinds = []
            for s in fill.body:
                if isinstance(s, ast.For):
                    it = lazy.get(s.iter.id, "") if isinstance(s.iter, ast.Name) else norm(s.iter)
                    kinds.append("store" if "_store_triple_locally" in norm(s) and "_yield_remote_" in it else "loop")
                elif isinstance(s, ast.Expr) and ".add(" in norm(s):
                    kinds.append("mark")
                else:
                    kinds.append("other")
            if kinds != ["store", "mark"]:
                problems.append("fill sequence is %s, expected [store every remote triple, then mark the node]" % kinds)
            if not _is_replay(body[1]):
                problems.append("the answer is not replayed from the local graph")
        obs.append(Ob(clause, "R-ORDER", "R-ORDER|cache-fill-then-replay|%s" % f.short, f.loc(), not problems,
                      "%s stores the whole remote answer, marks the node, then replays from the local graph" % f.short if not problems
                      else "; ".join(problems)))
    return obs


TRACKED = {"yield_p_o_triples_of_an_s": "_subjects_tracked", "yield_class_triples_of_an_s": "_subjects_tracked",
           "yield_s_p_triples_of_an_o": "_objects_tracked"}


def tracked_set_pairing(ctx, clause):
    """The endpoint cache remembers two different things: the nodes whose outgoing triples were fetched and the nodes whose
    incoming triples were fetched.  Each public traversal consults and extends its own set, however the code between the
    public method and the set is organised (own helper per direction, one helper that is handed the set, ...): the sets
    mentioned by the method and by the methods of the object it calls are exactly the one of its direction."""
    p = ctx.p
    cls = p.find_class("EndpointSGraph")
    fields = set(TRACKED.values())
    init = cls.find_method("__init__")
    have = {t.attr for x in walk_own(init.node) if isinstance(x, ast.Assign) for t in x.targets if is_self_attr(t)}
    if not fields <= have:
        raise AnalysisError("EndpointSGraph.__init__ no longer creates %s" % sorted(fields - have))

    def mentioned(m, depth, seen):
        out = {x.attr for x in walk_own(m.node) if is_self_attr(x) and x.attr in fields}
        if depth < 5:
            for c in walk_own(m.node):
                if isinstance(c, ast.Call) and isinstance(c.func, ast.Attribute) and isinstance(c.func.value, ast.Name) and c.func.value.id == "self":
                    t = cls.find_method(c.func.attr)
                    if t is not None and t.qual not in seen:
                        out |= mentioned(t, depth + 1, seen | {t.qual})
        return out
    obs = []
    for name, want in TRACKED.items():
        m = p.method("EndpointSGraph", name)
        got = mentioned(m, 0, {m.qual})
        ok = got == {want}
        obs.append(Ob(clause, "R-FLOW", "R-FLOW|tracked-set|%s" % name, m.loc(), ok,
                      "%s keeps its cache bookkeeping in %s only" % (name, want) if ok else
                      "%s consults / extends %s, expected exactly %s: with the cache on, a node already fetched in the other direction "
                      "is never asked for this one (or is asked every time)" % (name, sorted(got) or "no tracked set", want)))
    return obs


def endpoint_answer_table(ctx, clause):
    """The two halves of the endpoint traversal read the same kind of answer: for one JSON result (IRI, tagged literal, typed
    literal and blank-node bindings) query_endpoint_po_of_an_s gives (predicate, other end) and query_endpoint_sp_of_an_o gives
    (other end, predicate) of the very same tokens, IRIs between corners.  The network call is the only thing replaced."""
    p = ctx.p
    ans = {"head": {"vars": ["a", "b"]}, "results": {"bindings": [
        {"a": {"type": "uri", "value": "http://e/x"}, "b": {"type": "uri", "value": "http://e/y"}},
        {"a": {"type": "uri", "value": "http://e/p"}, "b": {"type": "literal", "value": "hola", "xml:lang": "es"}},
        {"a": {"type": "uri", "value": "http://e/q"}, "b": {"type": "typed-literal", "value": "5", "datatype": "http://www.w3.org/2001/XMLSchema#int"}},
        {"a": {"type": "uri", "value": "http://e/r"}, "b": {"type": "bnode", "value": "b0"}}]}}
    got = {}
    for fn, ids in (("query_endpoint_po_of_an_s", {"p_id": "a", "o_id": "b"}), ("query_endpoint_sp_of_an_o", {"s_id": "b", "p_id": "a"})):
        f = p.func("shexer.io.sparql.query:" + fn)
        ev = Evaluator(ctx, max_depth=8)
        ev.stubs = {"_query_endpoint_json_result": ans}
        kws = dict(endpoint_url="http://x/sparql", str_query="q", **ids)
        if any(k not in f.params for k in kws):
            raise AnalysisError("%s no longer takes %s" % (fn, sorted(k for k in kws if k not in f.params)))
        outs = ev.outcomes(f, kws)
        got[fn] = outs[0][1] if len(outs) == 1 and outs[0][0] == "return" and isinstance(outs[0][1], list) else outs
    po, sp = got["query_endpoint_po_of_an_s"], got["query_endpoint_sp_of_an_o"]
    f = p.func("shexer.io.sparql.query:query_endpoint_sp_of_an_o")
    problems = []
    if not (isinstance(po, list) and all(isinstance(t, tuple) and len(t) == 2 for t in po) and len(po) == 4):
        problems.append("query_endpoint_po_of_an_s gives %s" % (po,))
    elif not (isinstance(sp, list) and all(isinstance(t, tuple) and len(t) == 2 for t in sp) and len(sp) == 4):
        problems.append("query_endpoint_sp_of_an_o gives %s" % (sp,))
    else:
        if [t[0] for t in po] != ["<http://e/x>", "<http://e/p>", "<http://e/q>", "<http://e/r>"] or po[0][1] != "<http://e/y>":
            problems.append("IRIs of the answer do not come out between corners, in answer order: %s" % (po,))
        if sp != [(b_, a_) for a_, b_ in po]:
            problems.append("the incoming half reads the same answer as %s, the outgoing half as %s: not the same tokens mirrored" % (sp, po))
    return [Ob(clause, "R-TABLE", "R-TABLE|endpoint-answer-po-vs-sp", f.loc(), not problems,
               "both halves read an endpoint answer into the same tokens, mirrored" if not problems else "; ".join(problems))]


def corners_table(ctx, clause):
    f = ctx.p.func("shexer.io.sparql.query:_add_corners_if_needed")
    ev = Evaluator(ctx)
    obs = []
    for elem, typ, want in (("urn:isbn:1", "uri", "<urn:isbn:1>"), ("http://x/y", "uri", "<http://x/y>"), ("mailto:a@b", "uri", "<mailto:a@b>"),
                            ("<http://x/y>", "uri", "<http://x/y>"), ("http://x/y", "literal", "http://x/y"), ("abc", "literal", "abc"),
                            ("b0", "bnode", "b0")):
        outs = ev.outcomes(f, {"target_elem": elem, "elem_type": typ})
        ok = outs == [("return", want)]
        obs.append(Ob(clause, "R-TABLE", "R-TABLE|sparql-binding-corners|%s,%s" % (elem, typ), f.loc(), ok,
                      "binding %r of type %s -> %r" % (elem, typ, want) if ok else "expected %r, code gives %s" % (want, outs)))
    # second look at the same tokens (selector-driven yielder, local cache): IRIs already carry corners from their binding type,
    # so a token without corners is a literal or a blank node and must be left alone whatever it looks like - except the
    # historical http(s) heuristic
    g = ctx.p.func("shexer.utils.uri:add_corners_if_it_is_an_uri")
    for tok, want in (("<urn:isbn:1>", "<urn:isbn:1>"), ("<http://x/y>", "<http://x/y>"), ("http://x/y", "<http://x/y>"), ("https://x/y", "<https://x/y>"),
                      ("doi:10.1000/182", "doi:10.1000/182"), ("urn:isbn:0451450523", "urn:isbn:0451450523"), ("tel:555-0101", "tel:555-0101"),
                      ("mailto:a@b.org", "mailto:a@b.org"), ("key:value", "key:value"), ("plain text", "plain text"), ("_:b0", "_:b0")):
        outs = ev.outcomes(g, {g.bound_params[0]: tok})
        ok = outs == [("return", want)]
        obs.append(Ob(clause, "R-TABLE", "R-TABLE|token-corners|%s" % tok, g.loc(), ok,
                      "token %r -> %r" % (tok, want) if ok else
                      "token %r: expected %r, code gives %s - a plain literal from the endpoint is turned into an IRI (local extraction keeps "
                      "it a string)" % (tok, want, outs)))
    return obs


def two_pass_agreement(ctx, clause):
    p = ctx.p
    fa, fb = p.func("shexer.shaper:Shaper._build_instance_tracker"), p.func("shexer.shaper:Shaper._build_class_profiler")
    ca = [n for n in walk_own(fa.node) if isinstance(n, ast.Call) and isinstance(n.func, ast.Name) and n.func.id == "get_instance_tracker"]
    cb = [n for n in walk_own(fb.node) if isinstance(n, ast.Call) and isinstance(n.func, ast.Name) and n.func.id == "get_class_profiler"]
    if len(ca) != 1 or len(cb) != 1:
        raise AnalysisError("pass builders of Shaper not recognised")
    ta = p.func("shexer.utils.factories.instance_tracker_factory:get_instance_tracker")
    tb = p.func("shexer.utils.factories.class_profiler_factory:get_class_profiler")
    alias = {"source_file": "graph_file_input", "list_of_source_files": "graph_list_of_files_input",
             "instantiation_property_str": "instantiation_property"}
    ka = {alias.get(k.arg, k.arg): norm(k.value) for k in ca[0].keywords}
    kb = {alias.get(k.arg, k.arg): norm(k.value) for k in cb[0].keywords}
    pa = {alias.get(x, x) for x in ta.params}
    pb = {alias.get(x, x) for x in tb.params}
    obs = []
    for name in sorted(pa & pb):
        if name == "namespaces_to_ignore":
            ok = name not in ka and name in kb
            obs.append(Ob(clause, "R-PLUMB", "R-PLUMB|two-pass|%s" % name, fa.loc(), ok,
                          "namespaces_to_ignore goes to the feature pass only (documented)" if ok else
                          "namespaces_to_ignore is %s" % ("also given to the instance pass" if name in ka else "not given to the feature pass")))
            continue
        va, vb = ka.get(name), kb.get(name)
        ok = va is not None and va == vb
        obs.append(Ob(clause, "R-PLUMB", "R-PLUMB|two-pass|%s" % name, fb.loc() if va is not None else fa.loc(), ok,
                      "both passes receive %s = %s" % (name, va) if ok else
                      "the instance pass gets %s=%s but the feature pass gets %s: the two passes read the source under different settings" % (
                          name, va or "<default>", vb or "<default>")))
    return obs, len(pa & pb)


def one_answer_per_solution(ctx, clause):
    """A node selector's answers: the endpoint side and the local side both return one element per solution of the query,
    in solution order (a node bound in two solutions is answered twice by both, so selected-node counts agree)."""
    from ..abseval import Distinct
    p = ctx.p
    A, B = Distinct("node-A"), Distinct("node-B")
    obs = []
    f = p.func("shexer.io.sparql.query:query_endpoint_single_variable")
    ev = Evaluator(ctx)
    vk, rk, bk = (p.const("shexer.io.sparql.query", n) for n in ("_VALUE_KEY", "_RESULTS_KEY", "_BINDINGS_KEY"))
    V = "v"
    ev.stubs = {"_query_endpoint_json_result": {rk: {bk: [{V: {vk: A, "type": "uri"}}, {V: {vk: B, "type": "uri"}}, {V: {vk: A, "type": "uri"}}]}}}
    outs = ev.outcomes(f, {"endpoint_url": Distinct("url"), "str_query": Distinct("query"), "variable_id": V})
    ok = outs == [("return", [A, B, A])]
    obs.append(Ob(clause, "R-TABLE", "R-TABLE|one-answer-per-solution|endpoint", f.loc(), ok,
                  "solutions (A, B, A) -> answers [A, B, A] from the endpoint" if ok else
                  "three solutions binding A, B, A: the endpoint side answers %s, the local side one element per solution" % (outs,)))
    g = p.method("RdflibSgraph", "query_single_variable")
    ev2 = Evaluator(ctx)
    outs = ev2.outcomes(g, {"str_query": Distinct("query"), "variable_id": V},
                        {"self._rdflib_graph": {"query()": [(A,), (B,), (A,)]}})
    got = outs[0][1] if len(outs) == 1 and outs[0][0] == "return" and isinstance(outs[0][1], list) else None
    flat = [x.parts[0] if hasattr(x, "parts") and len(x.parts) == 1 else x for x in (got or [])]
    ok = flat == [A, B, A]
    obs.append(Ob(clause, "R-TABLE", "R-TABLE|one-answer-per-solution|local", g.loc(), ok,
                  "solutions (A, B, A) -> answers [A, B, A] from the local graph" if ok else
                  "three solutions binding A, B, A: the local side answers %s, the endpoint side one element per solution" % (outs,)))
    return obs


def check(ctx, tier):
    obs = []
    o_pol, n_sites = ctx.attempt(polarity, ctx, "D-a", default=([], 0))
    obs += o_pol
    idx = EffectIndex(ctx)
    g = ctx.flow
    init = ctx.p.func(INIT)
    oi = OptionInfluence(ctx, idx, "disable_endpoint_cache", [g.var(init, "disable_endpoint_cache")])
    for ff, owner, test, eff in oi.sites:
        bad = sorted({(k, d, fn) for k, d, fn in eff})
        obs.append(Ob("D-b", "R-EFFECT", "R-EFFECT|disable_endpoint_cache|%s|%s" % (ff.short, ff.key(test)[:50]), ff.loc(test), not bad,
                      "the cache flag chooses between remote and cached access only" if not bad else
                      "the cache flag controls `%s` in %s whose arms differ in %s" % (norm(test)[:40], ff.short, bad[:3])))
    obs += ctx.attempt(replay_order, ctx, "D-b", default=[])
    obs += twin.check_pairs(ctx, "D-b", "C15")
    obs += ctx.attempt(corners_table, ctx, "D-c", default=[])
    o_tp, n_tp = ctx.attempt(two_pass_agreement, ctx, "D-d", default=([], 0))
    obs += o_tp
    obs += ctx.attempt(one_answer_per_solution, ctx, "D-e", default=[])
    for _opt in ("limit_remote_instances", "instances_cap", "disable_endpoint_cache", "depth_for_building_subgraph"):
        obs += ctx.attempt(lambda c, cl, o=_opt: plumb.forwarding(c, cl, o, lambda prm: prm == o,
                                                                   [c.flow.param("shexer.shaper:Shaper.__init__", o)],
                                                                   skip_funcs={"shexer.shaper:Shaper.__init__"})[0], ctx, "D-f", default=[])
    obs += ctx.attempt(tracked_set_pairing, ctx, "D-c", default=[])
    obs += ctx.attempt(endpoint_answer_table, ctx, "D-b", default=[])
    from ..rules import plumb as _plumb
    obs += ctx.attempt(_plumb.namespace_orientation, ctx, "D-h", default=[])
    from ..rules import scanner as _scanner        # endpoint answers arrive as bare tokens: their typing is the local reader's
    obs += ctx.attempt(_scanner.numeric_token_table, ctx, "D-i", default=[])
    exceptions.apply(obs)
    return {"obs": obs, "floors": [Floor("EndpointSGraph construction sites", n_sites, 3), Floor("cache-flag control sites", len(oi.sites), 4),
                                   Floor("options common to both passes", n_tp, 20)],
            "explanation": "Narrow structural claim about code that cannot run offline: polarity of the cache flag at every construction "
                           "site (parity of negations along the value-flow path), the flag's control uses have no model effect, the cached "
                           "variants fill-then-mark-then-replay without yielding while storing, remote/local/dispatcher and p_o/s_p "
                           "functions are twins, IRI bindings are cornered by binding type, and both passes receive the same options. "
                           "Equality of the shapes with local extraction, replay fidelity and query counts are NOT decided: treat C15 as "
                           "mostly undecided.",
            "trusted": ["SPARQLWrapper / the endpoint return SPARQL-JSON as specified", "twin role maps"]}
