"""C04 - extraction never crashes on a valid graph and a valid configuration.

Decided: no API-reachable path contains a statically visible crash cause of the kinds
R-NULL, R-SIG, R-ENUM, R-RAISE/R-RET, R-LAYOUT, R-TS, R-DOMAIN (initialised key domain covers the keys read), direction
agreement of statement and serializer, non-re-entrant stages launched once.  Not decided: value-dependent crashes
(IndexError/KeyError on data, anything inside rdflib)."""
import ast
from ..report import Ob, Floor
from ..rules import sig, null, raises, enums, layout, choice, domain, direction, kinds, plumb, mergetable
from .. import exceptions

S = "shexer.shaper:Shaper."
ENUMS = [("input_format", "_check_input_format", "input_format", "__init__"),
         ("compression_mode", "_check_compression_mode", "compression_mode", "__init__"),
         ("examples_mode", "_check_examples_mode", "examples_mode", "__init__"),
         ("output_format", "_check_output_format", "output_format", "shex_graph")]


def enum_obligations(ctx, clause):
    obs, n = [], 0
    for name, chk, par, src in ENUMS:
        acc, _ = enums.accepted_set(ctx, S + chk, par)
        ed = enums.EnumDomain(ctx, name, S + src, par, acc, skip_funcs={S + chk})
        obs.extend(ed.obligations(clause))
        n += ed.dispatch_sites
    return obs, n


def check(ctx, tier):
    obs = []
    o_calls = sig.check_calls(ctx)
    o_self = sig.check_self_attrs(ctx)
    o_exc = sig.check_exception_attrs(ctx)
    o_attr = sig.check_typed_attr_reads(ctx)
    o_abs = sig.check_abstract_coverage(ctx)
    o_null, n_null_classes = null.check(ctx)
    o_enum, n_dispatch = enum_obligations(ctx, "D-c")
    o_ret, n_ret = raises.check_implicit_none(ctx)
    o_raise, n_post = raises.check_raises(ctx)
    o_lay, n_lay = layout.check(ctx, "D-e")
    o_choice, n_choice = choice.check(ctx, "D-c")
    o_dom = ctx.attempt(domain.check, ctx, "D-f", default=[])
    o_dir, _ = ctx.attempt(direction.statement_direction_agreement, ctx, "D-f", default=([], 0))
    from .c18 import memo_obligations
    o_memo, _ = ctx.attempt(memo_obligations, ctx, "D-g", default=([], 0))
    o_memo = [o for o in o_memo if "first-run-guard" in o.key]
    dunder_liveness(ctx, o_calls + o_self)
    obs = o_calls + o_self + o_exc + o_attr + o_abs + o_null + o_enum + o_ret + o_raise + o_lay + o_choice + o_dom + o_dir + o_memo
    o_kind, n_kind = ctx.attempt(kinds.object_iri_reads, ctx, "D-g", default=([], 0))
    obs += o_kind
    # an option that stops reaching a stage makes the stage run paths the configuration excludes (e.g. the shexer-side removal of
    # empty shapes, whose .st_type read is a known finding, becomes reachable with remove_empty_shapes left at its default)
    obs += ctx.attempt(lambda c, cl: plumb.forwarding(c, cl, "remove_empty_shapes", lambda prm: prm == "remove_empty_shapes",
                                                      [c.flow.param("shexer.shaper:Shaper.__init__", "remove_empty_shapes")],
                                                      skip_funcs={"shexer.shaper:Shaper.__init__"})[0], ctx, "D-h", default=[])
    obs += ctx.attempt(lambda c, cl: mergetable.invariants(c, cl, which=('no-crash',))[0], ctx, "D-i", default=[])
    from .c17 import class_without_instances_row
    obs += ctx.attempt(class_without_instances_row, ctx, "D-j", default=[])
    from ..rules import scanner
    obs += ctx.attempt(scanner.documents_never_raise, ctx, "D-j", default=[])   # valid Turtle / N-Triples documents are read to the end
    obs += ctx.attempt(scanner.line_reader_split, ctx, "D-j", default=[])      # raw documents are cut at '\\n' only (a literal may hold U+2028 ...)
    o_given, n_truth = ctx.attempt(null.given_is_not_none, ctx, "D-k", default=([], 0))    # an empty-but-given source is not "no source"
    obs += o_given
    from ..rules import profile as _profile
    obs += ctx.attempt(lambda c, cl: _profile.tables(c, cl, ('no-crash',))[0], ctx, "D-l", default=[])
    from ..rules import profile as _profile2
    obs += ctx.attempt(lambda c, cl: _profile2.shapes_tables(c, cl, ('no-crash',))[0], ctx, "D-m", default=[])
    exceptions.apply(obs)
    floors = [Floor("R-GIVEN truth-tested operands examined", n_truth, 300),
              Floor("R-SIG call sites bound against a signature", len(o_calls), 850),
              Floor("R-SIG methods with self-attribute reads", len(o_self), 500),
              Floor("R-NULL classes with optional slots", n_null_classes, 8),
              Floor("R-NULL dereferences of optional slots", len(o_null), 30),
              Floor("R-ENUM dispatch tests on validated enums", n_dispatch, 30),
              Floor("R-ENUM enum-guarded raise sites", len(o_enum), 4),
              Floor("R-RET functions that can fall off their end", n_ret, 6),
              Floor("R-RAISE functions in the post-parsing stages", n_post, 80),
              Floor("R-LAYOUT accesses to the class profile", n_lay, 10),
              Floor("R-TS reads of st_type in post-merge stages", n_choice, 4)]
    return {"obs": obs, "floors": floors,
            "explanation": "Static crash-freedom clauses for every API-reachable function of shexer: optional-slot "
                           "nullness (must-facts over a syntax-directed walk with entry facts by intersection over call "
                           "sites), call/attribute conformance against resolved callees, finite-domain propagation of the "
                           "validated configuration enums into every dispatcher (no accepted value reaches a raise), "
                           "raise-site audit of the post-parsing stages, implicit-None returns reaching a dereference, and "
                           "layout discipline of the direction-dependent class profile. Decides these clauses for all "
                           "inputs; does not decide value-dependent crashes.",
            "trusted": ["third-party code (rdflib, SPARQLWrapper, wlighter, xz) summarised, not analysed",
                        "name-based resolution over-approximates receivers of untyped values",
                        "frozen exceptions in sa/exceptions.py, one construct + reason each"]}


def dunder_liveness(ctx, obs):
    """A failing obligation inside a protocol method (__ne__, __eq__, ...) is API-relevant only if
    an instance of the class can reach the corresponding operator: decided on the value-flow graph."""
    g = None
    ops = {"__ne__": ast.NotEq, "__eq__": ast.Eq}
    for o in obs:
        if o.ok or o.note:
            continue
        parts = o.key.split("|")
        fn = parts[2] if len(parts) > 2 else ""
        if "." not in fn:
            continue
        cname, m = fn.split(".", 1)
        if m not in ops:
            continue
        if g is None:
            g = ctx.flow
        cls = ctx.p.find_class(cname)
        srcs = [("e", id(e)) for e, f in g.calls
                if (cs := ctx.r.site_of.get(id(e))) is not None and cs.kind in ("ctor", "ctor_noinit")
                and (cs.recv_types is cls or (isinstance(cs.recv_types, list) and cls in cs.recv_types))]
        builtin_calls = {("e", id(e)) for e, f in g.calls
                         if (c2 := ctx.r.site_of.get(id(e))) is None or not c2.targets}
        tset = g.flows(srcs, stop=lambda nd: nd in builtin_calls) - builtin_calls
        used = False
        for e, f in g.compares:
            if any(isinstance(op, ops[m]) for op in e.ops):
                operands = [e.left] + list(e.comparators)
                if any(("e", id(x)) in tset for x in operands) and ctx.reachable(f):
                    used = True
                    break
        if not used:
            o.note = True
            o.msg += " [no instance of %s flows to a `%s` comparison: not API-reachable]" % (
                cname, "!=" if m == "__ne__" else "==")
    return []
