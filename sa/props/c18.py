"""C18 - results depend only on the arguments, not on output channel or call history.

D-a  R-PURE: no API-reachable code mutates an object that aliases an argument of the public API;
     the serialisers (ShExC, SHACL, profile) do not mutate objects they did not create;
D-b  R-MEMO: every memoised stage of shex_graph/profile_graph either does not depend on a call
     argument or compares a stored copy of it in its guard; a stage whose run method accumulates
     into its own object may only be launched under a first-run guard;
D-c  R-PROTO: buffered writer - serialize_shapes is interpreted abstractly on four symbolic namespaces with the
     buffer threshold scaled to 2 and as written, for the string and the file channel: chunked == single write-out,
     file == string, every line once, first open truncates; R-SINK: only the protocol's own methods touch the
     channel state;
D-d  R-GLOBAL: no class-level or module-level mutable state reaches the output.
Undecided: byte equality of concrete outputs."""
import ast
from ..core import walk_own, norm, is_self_attr, AnalysisError
from ..resolve import bind_args
from ..report import Ob, Floor
from ..rules import pure, globalstate
from .. import exceptions

SHAPER = "shexer.shaper:Shaper."
SX = "shexer.io.shex.formater.shex_serializer:ShexSerializer."


def api_arguments_not_mutated(ctx, clause):
    """A mutation site whose receiver aliases (copy edges) a parameter of the public API."""
    g, p = ctx.flow, ctx.p
    api = [p.func(SHAPER + "__init__"), p.func(SHAPER + "shex_graph"), p.func(SHAPER + "profile_graph")]
    params = {g.var(f, prm): (f, prm) for f in api for prm in f.params[1:]}
    obs, n = [], 0
    for f in p.funcs.values():
        if not ctx.reachable(f):
            continue
        for stmt, obj, how in pure.mutation_sites(f):
            if isinstance(obj, ast.Name) and obj.id == "self":
                continue
            node = g.enode(obj)
            if node[1] not in g.expr_index:
                continue
            n += 1
            B = g.back([node], labels=("copy",))
            hit = [params[x] for x in B if x in params]
            key = "R-PURE|api-argument|%s|%s" % (f.short, f.key(stmt)[:60])
            if hit and _receivers_own_field(ctx, f, obj, params):
                obs.append(Ob(clause, "R-PURE", key, f.loc(stmt), True,
                              "field-based aliasing merges objects, but every receiver of %s is constructed with a value that "
                              "does not alias an API argument (one level of object sensitivity)" % f.short))
            elif hit:
                ff, prm = hit[0]
                obs.append(Ob(clause, "R-PURE", key, f.loc(stmt), False,
                              "%s mutates (%s) an object that aliases the caller's argument %s(%s): `%s`" % (
                                  f.short, how, ff.short, prm, norm(stmt)[:60])))
            else:
                obs.append(Ob(clause, "R-PURE", key, f.loc(stmt), True, "mutated object does not alias an API argument"))
    return obs, n


def _receivers_own_field(ctx, f, obj, params):
    """obj is `self.F` inside method f of class K.  Look at every call site of f: its receiver expression is
    traced back (copy edges) to the constructor calls of K that can produce it; the constructor argument that
    initialises F must not alias an API parameter at any of them."""
    g, r, p = ctx.flow, ctx.r, ctx.p
    if not (is_self_attr(obj) and f.cls is not None):
        return False
    field = obj.attr
    init = f.cls.find_method("__init__")
    if init is None:
        return False
    init_params = set()
    for n in walk_own(init.node):
        if isinstance(n, ast.Assign) and any(is_self_attr(t, field) for t in n.targets):
            init_params |= {x.id for x in ast.walk(n.value) if isinstance(x, ast.Name) and x.id in init.params}
    if not init_params:
        return False
    sites = r.callers_of.get(f.qual, [])
    if not sites:
        return False
    for cs in sites:
        if not isinstance(cs.node.func, ast.Attribute):
            return False
        recv = g.enode(cs.node.func.value)
        B = g.back([recv], labels=("copy",))
        ctors = [g.expr_index[b[1]] for b in B if b[0] == "e" and b[1] in g.expr_index and isinstance(g.expr_index[b[1]][0], ast.Call)
                 and (c2 := r.site_of.get(b[1])) is not None and c2.kind == "ctor" and f.cls in c2.recv_types.mro()]
        if not ctors:
            return False
        for call, cf in ctors:
            b = bind_args(call, init)
            for prm in init_params:
                arg = b["bound"].get(prm)
                if arg is None:
                    continue
                if any(x in params for x in g.back([g.enode(arg)], labels=("copy",))):
                    return False
    return True


def memo_obligations(ctx, clause):
    """Stage launches in the public methods."""
    p, r = ctx.p, ctx.r
    obs, n = [], 0
    for meth in ("shex_graph", "profile_graph"):
        f = p.func(SHAPER + meth)
        for st in f.node.body:
            if not isinstance(st, ast.If):
                continue
            launches = [x for x in ast.walk(st) if isinstance(x, ast.Call) and isinstance(x.func, ast.Attribute)
                        and x.func.attr.startswith("_launch_") and is_self_attr(x.func)]
            if not launches:
                continue
            n += 1
            guard = st.test
            simple = isinstance(guard, ast.Compare) and len(guard.ops) == 1 and isinstance(guard.ops[0], ast.Is) \
                and isinstance(guard.comparators[0], ast.Constant) and guard.comparators[0].value is None and is_self_attr(guard.left)
            # first-run polarity: the stage is launched when its memo is empty (`<field> is None`, possibly or-ed with a
            # comparison of a stored argument), never when it is already filled
            def _first_run(t):
                if isinstance(t, ast.BoolOp) and isinstance(t.op, ast.Or):
                    return any(_first_run(v) for v in t.values)
                return isinstance(t, ast.Compare) and len(t.ops) == 1 and isinstance(t.ops[0], (ast.Is, ast.Eq)) \
                    and isinstance(t.comparators[0], ast.Constant) and t.comparators[0].value is None and is_self_attr(t.left)
            okp = _first_run(guard)
            obs.append(Ob(clause, "R-MEMO", "R-MEMO|first-run-polarity|Shaper.%s|%s" % (meth, "+".join(sorted(c.func.attr for c in launches))), f.loc(st), okp,
                          "stage(s) launched when the memo is empty (`%s`)" % norm(guard) if okp else
                          "the guard `%s` launches %s when its memo is already filled and skips it on the first call: the first call works "
                          "on nothing, a later call recomputes" % (norm(guard), ", ".join(sorted(c.func.attr for c in launches)))))
            for call in launches:
                launch = p.func(SHAPER + call.func.attr)
                # (a) memo key: call arguments of the public method that the launch receives
                passed = [k.arg or "?" for k in call.keywords if isinstance(k.value, ast.Name) and k.value.id in f.params
                          and k.value.id not in ("verbose",)]
                passed += [a.id for a in call.args if isinstance(a, ast.Name) and a.id in f.params and a.id != "verbose"]
                guard_names = {x.id for x in ast.walk(guard) if isinstance(x, ast.Name)}
                for prm in passed:
                    ok = prm in guard_names
                    obs.append(Ob(clause, "R-MEMO", "R-MEMO|memo-key|Shaper.%s|%s|%s" % (meth, call.func.attr, prm), f.loc(st), ok,
                                  "the guard of %s compares the argument %s" % (call.func.attr, prm) if ok else
                                  "%s is memoised on `%s` but its result depends on the call argument `%s`: a later call with "
                                  "another %s silently gets the first call's result" % (call.func.attr, norm(guard), prm, prm)))
                # (b) a launch whose stage object accumulates may only run under a first-run guard
                acc = accumulating_stage(ctx, launch)
                if acc:
                    obs.append(Ob(clause, "R-MEMO", "R-MEMO|first-run-guard|Shaper.%s|%s" % (meth, call.func.attr), f.loc(st), simple,
                                  "%s runs %s, which accumulates into %s, only under the first-run guard `%s`" % (
                                      call.func.attr, acc[0], acc[1], norm(guard)) if simple else
                                  "%s can run again (guard `%s`) although %s accumulates into %s without resetting it: a second "
                                  "run processes the first run's results again" % (call.func.attr, norm(guard), acc[0], acc[1])))
                # the guarded field is assigned by the launch (otherwise the stage reruns on every call)
                if simple:
                    field = guard.left.attr
                    assigned = any(is_self_attr(t, field) or (isinstance(t, ast.Tuple) and any(is_self_attr(e, field) for e in t.elts))
                                   for x in walk_own(launch.node) if isinstance(x, ast.Assign) for t in x.targets)
                    obs.append(Ob(clause, "R-MEMO", "R-MEMO|guard-field-assigned|Shaper.%s|%s" % (meth, field), f.loc(st), assigned,
                                  "%s assigns the guarded field %s" % (call.func.attr, field) if assigned else
                                  "%s never assigns %s: the stage is launched again on every call" % (call.func.attr, field)))
    # (b') launches that are NOT under a guard of the public method: the launch function itself must start with an early
    #      return when the stage has already run (`if self._x is not None: return`), if its stage accumulates
    guarded_calls = set()
    for meth in ("shex_graph", "profile_graph"):
        f = p.func(SHAPER + meth)
        for st in f.node.body:
            if isinstance(st, ast.If):
                for x in ast.walk(st):
                    if isinstance(x, ast.Call) and isinstance(x.func, ast.Attribute) and x.func.attr.startswith("_launch_") and is_self_attr(x.func):
                        guarded_calls.add(id(x))
        for x in walk_own(f.node):
            if not (isinstance(x, ast.Call) and isinstance(x.func, ast.Attribute) and x.func.attr.startswith("_launch_") and is_self_attr(x.func)):
                continue
            if id(x) in guarded_calls:
                continue
            launch = p.funcs.get(SHAPER + x.func.attr)
            if launch is None:
                continue
            n += 1
            body = [s_ for s_ in launch.node.body if not (isinstance(s_, ast.Expr) and isinstance(s_.value, ast.Constant))]
            inner = None
            if body and isinstance(body[0], ast.If) and not body[0].orelse and isinstance(body[0].body[-1], ast.Return):
                t = body[0].test
                if isinstance(t, ast.Compare) and len(t.ops) == 1 and isinstance(t.ops[0], (ast.IsNot, ast.NotEq)) \
                        and isinstance(t.comparators[0], ast.Constant) and t.comparators[0].value is None and is_self_attr(t.left):
                    inner = t
            acc = accumulating_stage(ctx, launch)
            ok = inner is not None or not acc
            obs.append(Ob(clause, "R-MEMO", "R-MEMO|first-run-guard|Shaper.%s|%s" % (meth, x.func.attr), f.loc(x), ok,
                          "%s is called unconditionally and %s" % (x.func.attr, "returns early once its stage has run (`%s`)" % norm(inner) if inner is not None
                                                                   else "its stage does not accumulate") if ok else
                          "%s is called on every %s() and has no first-run guard of its own, although %s accumulates into %s without "
                          "resetting it: from the second call on the stage processes its earlier results again" % (
                              x.func.attr, meth, acc[0], acc[1])))
    # (c) one memo, one computation: every call site of a launch passes the same (non-verbose) arguments; a launch that is
    #     parameterised differently from two public methods fills the shared memo with two different results
    by_launch = {}
    for cs in r.callsites:
        fn = cs.node.func
        if isinstance(fn, ast.Attribute) and fn.attr.startswith("_launch_") and is_self_attr(fn) and ctx.reachable(cs.func):
            launch = p.funcs.get(SHAPER + fn.attr)
            if launch is None:
                continue
            b = bind_args(cs.node, launch)["bound"]
            for prm in launch.bound_params:
                if prm == "verbose":
                    continue
                a = b.get(prm)
                val = norm(a) if a is not None else ("default " + norm(launch.defaults[prm]) if prm in launch.defaults else "<missing>")
                if a is not None and isinstance(a, ast.Name) and a.id in cs.func.params:
                    val = "<argument of the public method>"      # covered by (a)
                by_launch.setdefault((launch.short, prm), {}).setdefault(val, []).append(cs)
    for (lname, prm), vals in sorted(by_launch.items()):
        ok = len(vals) <= 1
        cs0 = next(iter(vals.values()))[0]
        obs.append(Ob(clause, "R-MEMO", "R-MEMO|one-memo-one-computation|%s|%s" % (lname, prm), cs0.func.loc(cs0.node), ok,
                      "every call site launches %s with the same `%s`" % (lname, prm) if ok else
                      "%s is launched with different `%s` (%s) by %s, but its result is memoised in one place: whichever public "
                      "method runs first decides what the other one gets" % (
                          lname, prm, " / ".join(sorted(vals)), ", ".join(sorted({c.func.short for v in vals.values() for c in v})))))
    return obs, n


def accumulating_stage(ctx, launch):
    """(run method, field) when the stage object's run method appends to a field of its own object that the
    run method (and what it calls on self) never re-initialises."""
    p, r = ctx.p, ctx.r
    for x in walk_own(launch.node):
        if isinstance(x, ast.Call) and isinstance(x.func, ast.Attribute) and is_self_attr(x.func.value):
            cs = r.site_of.get(id(x))
            for t in (cs.targets if cs else []):
                if t.cls is None:
                    continue
                reach = [p.funcs[q] for q in r.reach_from([t.qual]) if p.funcs[q].cls is not None and t.cls in p.funcs[q].cls.mro()
                         or q == t.qual]
                appended, reset = set(), set()
                for m in reach:
                    for y in walk_own(m.node):
                        if isinstance(y, ast.Call) and isinstance(y.func, ast.Attribute) and y.func.attr in ("append", "extend", "add") \
                                and is_self_attr(y.func.value):
                            appended.add(y.func.value.attr)
                        if isinstance(y, ast.Assign):
                            for tt in y.targets:
                                if is_self_attr(tt) and isinstance(y.value, (ast.List, ast.Dict, ast.Set)):
                                    reset.add(tt.attr)
                acc = sorted(a for a in appended - reset if a in r.field_assigns.get(t.cls.qual, {}))
                if acc:
                    return t.short, "self." + acc[0]
                # read-modify-write of state the stage does not own: X.set_k(.., f(X.k(..))) rewrites its own input in place
                for q in r.reach_from([t.qual]):
                    m = p.funcs[q]
                    for y in walk_own(m.node):
                        if isinstance(y, ast.Call) and isinstance(y.func, ast.Attribute) and y.func.attr.startswith("set_"):
                            recv, getter = norm(y.func.value), y.func.attr[4:]
                            for z in ast.walk(y):
                                if z is not y and isinstance(z, ast.Call) and isinstance(z.func, ast.Attribute) and z.func.attr == getter \
                                        and norm(z.func.value) == recv:
                                    return t.short, "%s (rewritten in place by %s: %s(f(%s(..))))" % (recv, m.short, y.func.attr, getter)
    return None


def writer_obligations(ctx, clause):
    """The channel protocol of the ShExC writer (sa.rules.writer): decided by interpreting the serializer, whatever its helpers are called."""
    from ..rules import writer
    obs, info = writer.protocol(ctx, clause)
    return obs



def global_obligations(ctx, clause):
    obs = []
    g = ctx.flow
    o, n = globalstate.class_level_mutables(ctx, clause)
    obs += o
    o2, n2 = globalstate.module_level_mutables(ctx, clause)
    obs += o2
    n += n2
    for m, name, users in globalstate.module_globals(ctx, clause):
        node = ("g", m.name, name)
        T = g.flows([node])
        rets = sorted(x[1].split(":")[1] for x in T if x[0] == "r")
        reach_out = any(x[0] == "r" and x[1].startswith("shexer.shaper:Shaper.shex_graph") for x in T)
        obs.append(Ob(clause, "R-GLOBAL", "R-GLOBAL|module-global|%s.%s" % (m.name.split(".")[-1], name), m.relpath + ":1",
                      not (users and reach_out),
                      "module global %s is %s" % (name, "not rebound at run time" if not users else "rebound at run time but never reaches the output")
                      if not (users and reach_out) else
                      "module global %s.%s is rebound at run time by %s and flows to the result of shex_graph" % (
                          m.name, name, ", ".join(u.short for u in users))))
    return obs, n


def check(ctx, tier):
    obs = []
    o_api, n_api = api_arguments_not_mutated(ctx, "D-a")
    obs += o_api
    pure.SERIALIZERS_ALL = pure.SERIALIZERS + ["shexer.io.profile.formater.abstract_profile_serializer:AbstractProfileSerializer"]
    o_ser, n_ser = serialisers(ctx, "D-a")
    obs += o_ser
    o_memo, n_memo = memo_obligations(ctx, "D-b")
    obs += o_memo
    obs += writer_obligations(ctx, "D-c")
    o_glob, n_glob = global_obligations(ctx, "D-d")
    obs += o_glob
    obs += ctx.attempt(lambda c, cl: pure.fresh_receivers(c, cl)[0], ctx, "D-e", default=[])
    exceptions.apply(obs)
    floors = [Floor("mutation sites checked against API arguments", n_api, 60), Floor("serializer functions", n_ser, 50),
              Floor("memoised stage launches", n_memo, 4)]
    return {"obs": obs, "floors": floors,
            "explanation": "Effect and aliasing analysis over the value-flow graph: every mutation site reachable from the API is traced "
                           "back along copy edges to the creation sites / API parameters of the mutated object (caller's arguments must "
                           "not be mutated; serialisers must own what they mutate); memoised stages compare every call argument they "
                           "depend on and accumulating stage objects run only under a first-run guard; the buffered ShExC writer is "
                           "interpreted abstractly (symbolic lines, buffer threshold scaled down): size-triggered write-outs, the "
                           "file channel and the string channel all yield the same text, each line once; no "
                           "class-level or run-time-rebound module state reaches the result. Byte equality of concrete outputs is not decided.",
            "trusted": ["copy edges of the value-flow graph model aliasing field-based and context-insensitively",
                        "builtin copying calls (dict(), list(), .copy()) produce fresh objects"]}


def serialisers(ctx, clause):
    obs, n = [], 0
    for cq in pure.SERIALIZERS_ALL:
        c = ctx.p.cls(cq)
        roots = [c.qual + "." + m for m in c.methods if not m.startswith("_") or m == "__init__"]
        o, k = pure.check_roots(ctx, clause, roots, c.name, [c.qual])
        obs.extend(o)
        n += k
    return obs, n
