"""C03 - in all-compliant mode every instance conforms to its extracted shape.

Decided (necessary conditions, for all graphs in the strict domain):
D-a  relaxation table: a statement below 100 % gets '?' iff allow_opt_cardinality and its cardinality
     is exactly 1, otherwise '*'; its probability becomes 1; statements at 100 % are untouched;
D-b  '+' is always offered next to each observed cardinality (and exactly {1} for the instantiation
     property), for direct and inverse features alike (twin);
D-c  selection among cardinalities: keep_less_specific picks the '+' member when present; the relax loop
     is total;
D-d  with the mode off no cardinality is rewritten by the relaxation (tuning pipeline table);
D-e  no memo on the path from triples to statements has an incomplete key (values of different kinds are never
     conflated because they share a lexical form).
Undecided: conformance of every instance under ShEx semantics (needs a validator over all graphs)."""
import ast
from ..core import walk_own, norm
from ..report import Ob, Floor
from ..abseval import Evaluator, Sym, Opaque
from ..rules import twin, memo, plumb, scanner, gens, mergetable, count
from .. import exceptions

ASS = "shexer.core.shexing.strategy.abstract_shexing_strategy:AbstractShexingStrategy."
K = Sym("k", int, {1: ">", 0: ">"})
P_LOW = Sym("p<1", float, {1: "<", 0: ">"})


def snapshot(d):
    return ("comment-of", d.get("cardinality"), d.get("probability"))


def mk_statement(card, prob, tag="subject"):
    return {"tag": tag, "cardinality": card, "probability": prob, "st_type": "IRI", "st_property": "http://e/p",
            "add_comment()": None, "comment_representation()": snapshot, "remove_comments()": None}


def tuning_table(ctx, clause="D-d"):
    """Entry-level decision table of the cardinality tuning pipeline (_tune_list_of_valid_statements): all_compliant x
    disable_exact x allow_opt x cardinality {1, k>1, '+'} x probability {100 %, <100 %} -> final cardinality."""
    p = ctx.p
    obs, rows = [], 0
    ev = Evaluator(ctx, watch={"add_comment", "remove_comments"})
    # ------------------------------------------------------------------ D-d
    t = p.func(ASS + "_tune_list_of_valid_statements")
    for ac in (True, False):
        for de in (True, False):
            for allow in (True, False):
                for card in (1, K, "+"):
                    for prob in (1, P_LOW):
                        st = mk_statement(card, prob)
                        other = mk_statement(1, 1, tag="other")       # a second statement: every statement of the list is tuned
                        lst = _SortableList([st, other])
                        outs = ev.outcomes(t, {"valid_statements": lst},
                                           {"self._all_compliant_mode": ac, "self._disable_exact_cardinality": de,
                                            "self._disable_comments": False, "self._allow_opt_cardinality": allow,
                                            "self._namespaces_dict": {}})
                        rows += 1
                        relaxed = ac and isinstance(prob, Sym)
                        if relaxed:
                            want = "?" if (allow and card == 1 and not isinstance(card, Sym)) else "*"
                        elif de and isinstance(card, Sym):
                            want = "+"
                        else:
                            want = card
                        fin = ev.finals[0][0]["valid_statements"]
                        got = [x for x in fin if x.get("tag") == "subject"]
                        got = got[0] if got else fin[0]
                        com = [e for o in outs for e in o[2] if e[0] == "add_comment"]
                        ok = len(outs) == 1 and outs[0][0] == "return" and got["cardinality"] == want and \
                            (not relaxed or (got["probability"] == 1 and len(com) == 1))
                        obs.append(Ob(clause, "R-TABLE", "R-TABLE|tuning|all_compliant=%s,disable_exact=%s,allow_opt=%s,cardinality=%r,p=%r" % (
                            ac, de, allow, card, prob), t.loc(), ok,
                            "tuning pipeline: cardinality %r at %r -> %r" % (card, prob, want) if ok else
                            "cardinality %r at probability %r (all_compliant=%s, disable_exact=%s, allow_opt=%s): expected %r%s, code gives "
                            "%r, probability %r, %d comment(s) (%s)" % (card, prob, ac, de, allow, want,
                                                                         " with probability 1 and the original figures in one comment" if relaxed else "",
                                                                         got["cardinality"], got["probability"], len(com), [o[0] for o in outs])))
    return obs, rows


def check(ctx, tier):
    p = ctx.p
    obs, rows = [], 0
    ev = Evaluator(ctx, watch={"add_comment", "remove_comments"})
    # ------------------------------------------------------------------ D-a
    # (helper-level tables are evaluated when the helpers exist; the entry-level table D-d below is mandatory and covers
    #  the same decisions through _tune_list_of_valid_statements however the helpers are organised)
    f = p.funcs.get(ASS + "_change_statement_cardinality_to_all_compliant")
    for allow in (True, False) if f is not None else ():
        for card in (1, K, "+"):
            st = mk_statement(card, P_LOW)
            outs = ev.outcomes(f, {"statement": st}, {"self._allow_opt_cardinality": allow, "self._namespaces_dict": {}})
            rows += 1
            want = "?" if (allow and card == 1 and not isinstance(card, Sym)) else "*"
            st = ev.finals[0][0]["statement"]
            ok = len(outs) == 1 and outs[0][0] == "return" and st["cardinality"] == want and st["probability"] == 1
            # the comment recorded for the relaxed statement carries the ORIGINAL figures (snapshot before the writes)
            com = [e for o in outs for e in o[2] if e[0] == "add_comment"]
            snap_ok = len(com) == 1 and any(("comment-of", card, P_LOW) == x or (isinstance(x, tuple) and len(x) == 2 and x[1] == ("comment-of", card, P_LOW))
                                            for x in com[0][1:])
            obs.append(Ob("D-a", "R-TABLE", "R-TABLE|relaxation|allow_opt=%s,cardinality=%r" % (allow, card), f.loc(), ok and snap_ok,
                          "allow_opt=%s, cardinality %r below 100 %% -> %s, probability 1, original figures kept in a comment" % (allow, card, want)
                          if ok and snap_ok else "expected cardinality %s / probability 1 / comment of the original statement; code gives "
                                                 "cardinality=%r probability=%r comments=%s outcomes=%s" % (want, st["cardinality"], st["probability"], com, outs)))
    g = p.funcs.get(ASS + "_modify_cardinalities_of_statements_non_compliant_with_all_instances")
    for prob, changed in ((1, False), (1.0, False), (P_LOW, True)) if g is not None else ():
        st = mk_statement(1, prob)
        outs = ev.outcomes(g, {"statements": (st,)}, {"self._allow_opt_cardinality": True, "self._namespaces_dict": {}})
        rows += 1
        st = ev.finals[0][0]["statements"][0]
        ok = len(outs) == 1 and ((st["cardinality"] != 1) == changed)
        obs.append(Ob("D-a", "R-TABLE", "R-TABLE|relaxation-applies|probability=%r" % (prob,), g.loc(), ok,
                      "statement with probability %r is %s" % (prob, "relaxed" if changed else "left untouched") if ok else
                      "probability %r: expected %s, cardinality is now %r" % (prob, "relaxation" if changed else "no change", st["cardinality"])))
    if g is not None:
        bad = [x for x in walk_own(g.node) if isinstance(x, (ast.Break, ast.Continue, ast.Return))]
        obs.append(Ob("D-c", "R-LOOP", "R-LOOP|relax-loop-total", g.loc(), not bad,
                      "the relaxation loop visits every statement" if not bad else "%s in the relaxation loop" % type(bad[0]).__name__))
    # ------------------------------------------------------------------ D-b
    h = p.func("shexer.core.profiling.strategy.abstract_feature_direction_strategy:AbstractFeatureDirectionStrategy._infer_valid_cardinalities")
    ev2 = Evaluator(ctx)
    INST = "http://www.w3.org/1999/02/22-rdf-syntax-ns#type"
    for prop, card, want in ((INST, 3, (1,)), ("http://e/p", 1, (1, "+")), ("http://e/p", K, (K, "+"))):
        outs = ev2.outcomes(h, {"a_property": prop, "a_cardinality": card},
                            {"self._class_profiler": {"_instantiation_property_str": INST}})
        rows += 1
        ok = outs == [("return", want)]
        obs.append(Ob("D-b", "R-TABLE", "R-TABLE|offered-cardinalities|%s,%r" % ("instantiation" if prop == INST else "other", card),
                      h.loc(), ok, "offered cardinalities %r" % (want,) if ok else "expected %r, code gives %s" % (want, outs)))
    obs += twin.check_pairs(ctx, "D-b", "C03")
    # every consumer of _infer_valid_cardinalities iterates all of it
    users = [cs for cs in ctx.r.callers_of.get(h.qual, [])]
    for cs in users:
        pm = {c: par for par in ast.walk(cs.func.node) for c in ast.iter_child_nodes(par)}
        par = pm.get(cs.node)
        ok = isinstance(par, (ast.For, ast.comprehension)) and par.iter is cs.node
        obs.append(Ob("D-b", "R-LOOP", "R-LOOP|offered-cardinalities-consumed|%s" % cs.func.short, cs.func.loc(cs.node), ok,
                      "%s iterates over every offered cardinality" % cs.func.short if ok else
                      "%s does not iterate the offered cardinalities directly" % cs.func.short))
    # ------------------------------------------------------------------ D-c
    d = p.func(ASS + "_decide_best_statement_with_cardinalities_in_comments")

    def group(stmts):
        class G(dict):
            pass
        grp = G({"sort()": None, "constraints()": tuple(stmts)})
        grp.items_ = list(stmts)
        grp.__class__.__len__ = lambda self: len(self.items_)
        return grp
    cases = [("keep_less_specific, '+' present", True, [("+", 1.0), (1, 0.6), (K, 0.4)], "+"),
             ("keep_less_specific, no '+'", True, [(1, 0.6), (K, 0.4)], 1),
             ("not keep_less_specific, '+' first", False, [("+", 1.0), (1, 0.6)], 1),
             ("not keep_less_specific, only '+'", False, [("+", 1.0)], "+")]
    for label, kls, members, want in cases:
        stmts = [mk_statement(c, pr) for c, pr in members]
        outs = ev.outcomes(d, {"mergeable_constraints": group(stmts)},
                           {"self._discard_useless_positive_closures": False, "self._keep_less_specific": kls,
                            "self._namespaces_dict": {}})
        rows += 1
        got = outs[0][1]["cardinality"] if len(outs) == 1 and outs[0][0] == "return" and isinstance(outs[0][1], dict) else None
        ncom = len([e for o in outs for e in o[2] if e[0] == "add_comment"])
        ok = got == want and ncom == len([c for c, _ in members if c != want])
        obs.append(Ob("D-c", "R-TABLE", "R-TABLE|best-cardinality|%s" % label, d.loc(), ok,
                      "%s -> %r, the other %d alternatives kept as comments" % (label, want, ncom) if ok else
                      "%s: expected %r with one comment per other cardinality, code gives %r with %d comments" % (label, want, got, ncom)))
    o_tune, n_tune = tuning_table(ctx, "D-d")
    obs += o_tune
    rows += n_tune
    # ------------------------------------------------------------------ D-e
    o_memo, n_memo = memo.check(ctx, "D-e")     # a memo with an incomplete key conflates values (e.g. equal text, other datatype)
    obs += o_memo
    o_num, n_num = ctx.attempt(plumb.forwarding, ctx, "D-f", "infer_numeric_types_for_untyped_literals",
                               lambda prm: prm == "allow_untyped_numbers",
                               [ctx.flow.param("shexer.shaper:Shaper.__init__", "infer_numeric_types_for_untyped_literals")], default=([], 0))
    obs += o_num
    obs += ctx.attempt(lambda c, cl: scanner.quoted_token_contract(c, cl)[0], ctx, "D-g", default=[])
    obs += ctx.attempt(lambda c, cl: gens.check(c, cl)[0], ctx, "D-h", default=[])
    obs += ctx.attempt(scanner.literal_type_table, ctx, "D-i", default=[])
    obs += ctx.attempt(scanner.numeric_token_table, ctx, "D-j", default=[])
    obs += ctx.attempt(lambda c, cl: mergetable.invariants(c, cl, which=("coverage", "no-crash", "cardinality"))[0], ctx, "D-k", default=[])
    obs += ctx.attempt(lambda c, cl: scanner.rdflib_literal_datatype_source(c, cl)[0], ctx, "D-l", default=[])
    obs += ctx.attempt(lambda c, cl: count.class_iteration_agreement(c, cl)[0], ctx, "D-m", default=[])
    # "exactly one" is offered for the instantiation property only: a hard-coded rdf:type in its place gives plain rdf:type
    # triples the cardinality 1 that instances with two types do not respect (and the configured property loses it)
    from .c10 import hardcoded_rdf_type
    obs += [o for o in ctx.attempt(lambda c, cl: hardcoded_rdf_type(c, cl)[0], ctx, "D-n", default=[]) if "core.profiling" in o.loc.replace("/", ".")
            or "core.shexing" in o.loc.replace("/", ".")]
    from ..rules import profile as _profile
    obs += ctx.attempt(lambda c, cl: _profile.tables(c, cl, ('reference',))[0], ctx, "D-o", default=[])
    exceptions.apply(obs)
    return {"obs": obs, "floors": [Floor("R-TABLE rows evaluated", rows, 20), Floor("memo sites", n_memo, 3)],
            "explanation": "Decision tables of the relaxation (?, * and probability 1 with the original figures kept), of the offered "
                           "cardinalities ('+' next to every observed one, exactly 1 for the instantiation property, twins for inverse "
                           "features), of the selection among cardinalities and of the tuning pipeline (mode off => the relaxation "
                           "writes nothing), extracted by abstract evaluation over {1, k>1, '+'} x flags x {100 %, <100 %}. Necessary "
                           "conditions of conformance in the strict domain; conformance itself needs a ShEx validator over all graphs "
                           "and is not decided.",
            "trusted": ["abstract cardinality classes {1, k>1, '+', '*', '?'} and probability classes {1, <1}"]}


class _SortableList(list):
    pass
