"""C12 - raising the acceptance threshold only removes constraints.

D-a  sinks: the threshold reaches exactly the range check and the candidate filters; no arithmetic
     on it, no model field computed from it, no other control use (a memo guard in shex_graph that
     only relaunches a stage is tolerated);
D-b  order: the stage receiving the threshold runs before sorting/selection/merging/cleaning, and
     no function of those later stages ever receives it;
D-c  polarity: every filter is `frequency >= threshold`, frequency being directly the result of
     _compute_frequency, guarding the only Statement construction of a total candidate loop;
D-d  forwarding: every function with a threshold parameter receives the API argument at every
     call site (no silent default); the direct and inverse candidate builders are twins;
D-e  the merge's "useless positive closure" predicate keeps its probability guard (decision table).
D-f  nothing observed is omitted on the way out: the buffered ShExC writer delivers every line handed to its sink
     exactly once whatever the size of the document (R-PROTO, sa.rules.writer).
Undecided: key preservation by the merge itself (value level, see C02)."""
from ..report import Ob, Floor
from ..rules import writer, threshold, twin, direction, count, mergetable, loops
from ..abseval import Evaluator
from .. import exceptions


def useless_closure_table(ctx, clause):
    """`+` next to an exact cardinality is only useless when both cover the same instances."""
    p = ctx.p
    f = p.func("shexer.core.shexing.strategy.abstract_shexing_strategy:AbstractShexingStrategy."
               "_is_a_group_of_statements_with_useless_positive_closure")
    ev = Evaluator(ctx)
    obs = []

    def group(*stmts):
        lst = [{"probability": pr, "cardinality": c} for pr, c in stmts]
        return {"__len__": len(lst), "get()": None, "constraints()": tuple(lst), "_items": lst}

    rows = [("one exact + one '+', equal frequency", [(1.0, 1), (1.0, "+")], True),
            ("one exact + one '+', different frequency", [(0.6, 1), (1.0, "+")], False),
            ("two exact", [(1.0, 1), (1.0, 2)], False),
            ("two '+'", [(1.0, "+"), (1.0, "+")], False),
            ("three statements", [(1.0, 1), (1.0, "+"), (1.0, 2)], False)]
    for label, stmts, want in rows:
        outs = ev.outcomes(f, {"list_of_candidate_sentences": _Group(stmts)}, {"self._tolerance": 0})
        ok = outs == [("return", want)]
        obs.append(Ob(clause, "R-TABLE", "R-TABLE|useless-positive-closure|%s" % label, f.loc(), ok,
                      "%s -> %s%s" % (label, want, "" if ok else " expected, code gives %s" % outs)))
    return obs


class _Group(dict):
    """Abstract MergeableConstraints for the table extractor: len(), get(i), constraints()."""
    def __init__(self, stmts):
        lst = [{"probability": pr, "cardinality": c} for pr, c in stmts]
        super().__init__({"constraints()": tuple(lst)})
        self.items_ = lst

    def __len__(self):
        return len(self.items_)


def check(ctx, tier):
    tf = threshold.ThresholdFacts(ctx)
    obs = []
    obs += threshold.sink_obligations(ctx, tf, "D-a")
    obs += threshold.order_obligations(ctx, tf, "D-b")
    obs += threshold.comparator_obligations(ctx, tf, "D-c")
    o_sites, n_sites = threshold.every_statement_site_filtered(ctx, tf, "D-c")
    obs += o_sites
    obs += threshold.forwarding_obligations(ctx, tf, "D-d")
    obs += twin.check_pairs(ctx, "D-d", "C12")
    obs += useless_closure_table(ctx, "D-e")
    obs += ctx.attempt(lambda c, cl: writer.protocol(c, cl)[0], ctx, "D-f", default=[])
    obs += ctx.attempt(lambda c, cl: direction.explicit_direction(c, cl)[0], ctx, "D-g", default=[])
    obs += ctx.attempt(lambda c, cl: count.class_iteration_agreement(c, cl)[0], ctx, "D-h", default=[])
    obs += ctx.attempt(lambda c, cl: mergetable.invariants(c, cl, which=('one-per-key', 'figures'))[0], ctx, "D-i", default=[])
    obs += ctx.attempt(loops.every_yielded_item_is_kept, ctx, "D-j", "shexer.core.shexing.class_shexer:ClassShexer._build_shapes", "shape", default=[])
    o_ann = ctx.attempt(twin.annotated_features_table, ctx, "D-j")       # a shape with only incoming features is not empty
    obs += [o_ann] if o_ann is not None else []
    from ..rules import profile as _profile2
    obs += ctx.attempt(lambda c, cl: _profile2.shapes_tables(c, cl, ('monotone',))[0], ctx, "D-k", default=[])
    exceptions.apply(obs)
    floors = [Floor("threshold filter comparisons", len(tf.filters), 3), Floor("range-check comparisons", len(tf.range_checks), 2),
              Floor("functions that see the threshold", len(tf.tainted_funcs), 8), Floor("candidate construction sites", n_sites, 3)]
    return {"obs": obs, "floors": floors,
            "explanation": "Value-flow of shex_graph(acceptance_threshold): its only sinks are the range check and the candidate "
                           "filters (frequency >= threshold on the direct result of _compute_frequency, guarding the only Statement "
                           "construction of a total loop nest); it is forwarded explicitly at every call site, never enters the "
                           "selection/merging/cleaning stages, and filtering precedes them; the useless-'+' predicate keeps its "
                           "probability guard. These are necessary conditions of monotonicity for all graphs and thresholds; that "
                           "the merge preserves keys is not decided.",
            "trusted": ["value-flow graph is a may-analysis (absent path = no flow)", "third-party code summarised"]}
