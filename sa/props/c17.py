"""C17 - IRI patterns and examples come from the data.

D-a  stem selection table: the fold result is cut back to the last of ':', '/', '#'; no stem when it is shorter than
     three characters or just a scheme (http://, https://); separator class folded from the regex;
     longest_common_prefix table; the "nothing seen yet" sentinel cannot collide with a fold result and is tested
     by equality;
D-b  examples: the example stored for a subject-side instance is the triple's object and vice versa, first-seen
     guard and store use the same (shape, property, direction) key; per-shape example storage is created fresh;
     twins of the example annotators; the serializer reads with the statement's own direction;
D-c  neither option changes constraints: influence policy rows of detect_minimal_iri / examples_mode (shared with
     C13) and the with/without-examples twins.
Undecided: longest-stem maximality as a property of all instance sets (value level; the 6-line fold is tabulated)."""
import ast
import re
from ..core import walk_own, norm, is_self_attr, AnalysisError
from ..report import Ob, Floor
from ..rules import twin, plumb
from ..rules.effect import EffectIndex, OptionInfluence
from ..abseval import Evaluator, Opaque, Fork, Raised
from .. import exceptions
from .c13 import ALLOWED, allowed, INIT


def sep_class(ctx):
    v = ctx.p.const("shexer.core.shexing.strategy.minimal_iri_strategy.annotate_min_iri_strategy", "_SEP_CHARS")
    if not (isinstance(v, tuple) and v[0] == "re"):
        raise AnalysisError("_SEP_CHARS does not fold to a regular expression")
    import re._parser as sp
    parsed = sp.parse(v[1])
    chars = set()
    ok = len(parsed) == 1 and str(parsed[0][0]) == "IN"
    if ok:
        for op, arg in parsed[0][1]:
            if str(op) == "LITERAL":
                chars.add(chr(arg))
            else:
                ok = False
    return chars if ok else None, v[1]


def stem_tables(ctx, clause):
    p = ctx.p
    obs, rows = [], 0
    chars, pat = sep_class(ctx)
    obs.append(Ob(clause, "R-CONST", "R-CONST|separator-class", "shexer/core/shexing/strategy/minimal_iri_strategy/annotate_min_iri_strategy.py:4",
                  chars == {":", "/", "#"}, "stem separators are %s (regex %r)" % (sorted(chars) if chars else "?", pat)))
    f = p.method("AnnotateMinIriStrategy", "_determine_suitable_iri_pattern")
    ev = Evaluator(ctx)
    cases = [("http://", None), ("https://", None), ("http://a", None), ("https://a.org/x", "https://a.org/"), ("http://a.org/", "http://a.org/"),
             ("http://a.org/people#al", "http://a.org/people#"), ("urn:people:al", "urn:people:"), ("ab", None), ("", None), ("a:", None),
             ("ab:", "ab:"), ("nocolon", None), ("urn:isbn:0451450", "urn:isbn:"), ("urn:issn:12", "urn:issn:"),
             ("http://localhost:80", "http://localhost:"), ("http://ex.org/id:100", "http://ex.org/id:")]
    for lcp, want in cases:
        outs = ev.outcomes(f, {"longest_common_prefix": lcp})
        rows += 1
        ok = outs == [("return", want)]
        obs.append(Ob(clause, "R-TABLE", "R-TABLE|stem|%s" % lcp, f.loc(), ok,
                      "common prefix %r -> stem %r" % (lcp, want) if ok else "common prefix %r: expected stem %r, code gives %s" % (lcp, want, outs)))
    g = p.func("shexer.utils.uri:longest_common_prefix")
    for a, b, want in (("abc", "abd", "ab"), ("abc", "abc", "abc"), ("", "a", ""), ("ab", "abc", "ab"), ("abc", "ab", "ab"), ("x", "y", "")):
        outs = ev.outcomes(g, {"uri1": a, "uri2": b})
        rows += 1
        obs.append(Ob(clause, "R-TABLE", "R-TABLE|longest-common-prefix|%s,%s" % (a, b), g.loc(), outs == [("return", want)],
                      "lcp(%r, %r) = %r" % (a, b, want) if outs == [("return", want)] else "expected %r, code gives %s" % (want, outs)))
    # sentinel
    try:
        sent = p.const("shexer.core.profiling.class_profiler", "_MINIMAL_IRI_INIT")
    except AnalysisError:
        sent = None          # no string marker any more: the sequence rows below decide the fold whatever marks "nothing yet"
    ok = sent is None or (isinstance(sent, str) and len(sent) > 0 and not re.match(r"[A-Za-z]", sent))
    obs.append(Ob(clause, "R-CONST", "R-CONST|min-iri-sentinel", "shexer/core/profiling/class_profiler.py:14", ok,
                  "the 'no instance seen yet' marker %r cannot be a common prefix of IRIs" % (sent,) if ok else
                  "the 'no instance seen yet' marker %r is also a possible fold result (common prefix of IRIs): once the prefix "
                  "collapses to it the fold restarts from the next instance" % (sent,)))
    u = p.method("ClassProfiler", "_update_shape_min_iri")

    def base_env():
        # fields the constructor initialises with an empty container are available to the method
        env = {}
        for st in walk_own(u.cls.find_method("__init__").node):
            if isinstance(st, ast.Assign) and len(st.targets) == 1 and is_self_attr(st.targets[0]) and \
                    isinstance(st.value, (ast.Dict, ast.List)) and not (st.value.keys if isinstance(st.value, ast.Dict) else st.value.elts):
                env["self." + st.targets[0].attr] = {} if isinstance(st.value, ast.Dict) else []
        return env
    for label, cur, inst, want in ((("first instance", sent, "http://a/x", "http://a/x"), ("prefix collapsed to empty", "", "urn:b:y", ""),
                                   ("normal fold", "http://a/x", "http://a/y", "http://a/")) if sent is not None else ()):
        store = {"cur": cur}
        sfe = {"shape_min_iri()": lambda d: d["cur"], "set_shape_min_iri()": None, "cur": cur}
        ev2 = Evaluator(ctx, watch={"set_shape_min_iri"})
        outs = ev2.outcomes(u, {"target_shape": "S", "instance_iri": inst}, dict(base_env(), **{"self._shape_feature_examples": sfe}))
        rows += 1
        sets = [dict(e[1:]).get("min_iri") if all(isinstance(x, tuple) for x in e[1:]) else None for o in outs for e in o[2]]
        ok = len(outs) == 1 and sets == [want]
        obs.append(Ob(clause, "R-TABLE", "R-TABLE|min-iri-fold|%s" % label, u.loc(), ok,
                      "%s: stored prefix %r + instance %r -> %r" % (label, cur, inst, want) if ok else
                      "%s: expected %r to be stored, code stores %s (%s)" % (label, want, sets, outs)))
    # the fold over a SEQUENCE of instances (the object keeps whatever state it likes between calls): the stored prefix
    # after the last instance is the common prefix of all of them, whatever order and whatever they share
    import os.path
    seqs = [("shared path, names diverge after a ':'", ["http://a/r/Category:Dogs", "http://a/r/Category:Cats", "http://a/r/Template:X"]),
            ("urn without slash", ["urn:issn:1234", "urn:issn:1299", "urn:isbn:0451"]),
            ("two hosts", ["http://a/x1", "http://a/x2", "http://b/x3"]),
            ("no common first character, then the first scheme again", ["http://a/x", "ldap://b/y", "http://a/z"]),
            ("a single instance", ["http://a/only"])]
    sfd = p.find_class("ShapeExampleFeaturesDict")
    init_m = u.cls.find_method("_init_class_features_dict")
    for label, insts in seqs:
        ev3 = Evaluator(ctx, max_depth=10)
        ev3.concrete_classes = {"ShapeExampleFeaturesDict"}
        ev3._yields = []
        try:
            store = ev3.new(sfd, track_inverse_features=False)
            selfenv = dict(base_env(), **{"self._shape_feature_examples": store, "self._class_counts": {"S": len(insts)}})
            ev3._decisions, ev3._taken, ev3.effects = [], [], []
            if init_m is not None:
                ev3.call(init_m, {}, selfenv, 0)
            for inst in insts:
                ev3._decisions, ev3._taken, ev3.effects = [], [], []
                ev3.call(u, {"target_shape": "S", "instance_iri": inst}, selfenv, 0)
            got = ev3.invoke(store, "shape_min_iri", [], {"shape_id": "S"}, 0)
        except (Fork, Raised) as e:
            raise AnalysisError("min-IRI fold sequence not evaluable: %s" % (getattr(e, "exc", None) or type(e).__name__))
        rows += 1
        want = os.path.commonprefix(insts)
        ok = got == want
        obs.append(Ob(clause, "R-TABLE", "R-TABLE|min-iri-fold-sequence|%s" % label, u.loc(), ok,
                      "%s: after %d instances the stored prefix is their common prefix %r" % (label, len(insts), want) if ok else
                      "%s: after folding %s the stored prefix is %r, their common prefix is %r" % (label, insts, got, want)))
    return obs, rows


def class_without_instances_row(ctx, clause):
    """A requested class that has no instance in the graph (remove_empty_shapes off): its minimal-IRI slot is initialised but
    never folded; the shexer's annotate_shape_iri must cope with whatever the initial marker is (no stem, no exception)."""
    p = ctx.p
    prof = p.find_class("ClassProfiler")
    init_m = prof.find_method("_init_class_features_dict")
    ann = p.find_class("AnnotateMinIriStrategy").find_method("annotate_shape_iri")
    if init_m is None or ann is None:
        from ..core import AnalysisError
        raise AnalysisError("anchor method vanished: %s" % ("ClassProfiler._init_class_features_dict" if init_m is None else
                                                             "AnnotateMinIriStrategy.annotate_shape_iri"))
    sfd = p.find_class("ShapeExampleFeaturesDict")
    ev = Evaluator(ctx, max_depth=10)
    ev.concrete_classes = {"ShapeExampleFeaturesDict"}
    ev._yields = []
    status, got = "ok", None
    try:
        store = ev.new(sfd, track_inverse_features=False)
        ev._decisions, ev._taken, ev.effects = [], [], []
        ev.call(init_m, {}, {"self._shape_feature_examples": store, "self._class_counts": {"S": 0}}, 0)
        ev._decisions, ev._taken, ev.effects = [], [], []
        ev.call(ann, {"shape": {"class_uri": "S"}}, {"self._min_iris_dict": store}, 0)
        got = ev.invoke(store, "shape_min_iri", [], {"shape_id": "S"}, 0)
    except Raised as r_:
        status = "raises " + r_.exc
    except Fork:
        raise AnalysisError("class-without-instances row not evaluable")
    ok = status == "ok" and got is None
    return [Ob(clause, "R-TABLE", "R-TABLE|min-iri-class-without-instances", ann.loc(), ok,
               "a class without instances ends with no stem and no exception" if ok else
               "a requested class without instances: annotate_shape_iri %s (stored stem %r) - extraction fails, or prints a stem no "
               "instance has" % (status, got))]


def example_rendering_table(ctx, clause):
    """The example printed for a constraint is the stored value itself: a literal comes out between quotes with its lexical
    form untouched (blanks, tabs and double spaces included), an IRI between corners or prefixed."""
    p = ctx.p
    f = p.method("ShexSerializer", "_turn_str_comment_into_proper_rdf")
    rows = [("plain", '"plain"'), ("A-1 ", '"A-1 "'), ("Alice  B.  Smith", '"Alice  B.  Smith"'), (" lead", '" lead"'), ("tab\there", '"tab\there"'),
            ("http://other.org/x", "<http://other.org/x>"), ("http://e/x", "e:x")]
    obs = []
    for val, want in rows:
        ev = Evaluator(ctx, max_depth=8)
        outs = ev.outcomes(f, {f.bound_params[0]: val}, {"self._namespaces_dict": {"http://e/": "e"}})
        ok = outs == [("return", want)]
        obs.append(Ob(clause, "R-TABLE", "R-TABLE|example-rendering|%r" % val, f.loc(), ok,
                      "example value %r is printed as %s" % (val, want) if ok else
                      "example value %r: expected %s, code prints %s - the example shown is no longer the value found in the data" % (val, want, outs)))
    return obs


def example_pairing(ctx, clause):
    p = ctx.p
    obs, n = [], 0
    specs = [("DirectFeaturesStrategy", "_annotate_example_no_inverse", "_S", "_O", None),
             ("IncludeReverseFeaturesStrategy", "_annotate_example_subject_inverse_paths", "_S", "_O", "False"),
             ("IncludeReverseFeaturesStrategy", "_annotate_example_object_inverse_paths", "_O", "_S", "True")]
    for cname, mname, inst_pos, ex_pos, inv in specs:
        f = p.method(cname, mname)
        n += 1
        problems = []
        loops = [x for x in walk_own(f.node) if isinstance(x, ast.For)]
        if len(loops) != 1 or ("a_triple[%s]" % inst_pos) not in norm(loops[0].iter) or "POS_CLASSES" not in norm(loops[0].iter):
            problems.append("does not loop over the classes of the %s-side instance" % ("subject" if inst_pos == "_S" else "object"))
        has = [x for x in walk_own(f.node) if isinstance(x, ast.Call) and isinstance(x.func, ast.Attribute) and x.func.attr == "has_constraint_example"]
        sets = [x for x in walk_own(f.node) if isinstance(x, ast.Call) and isinstance(x.func, ast.Attribute) and x.func.attr == "set_constraint_example"]
        if len(has) != 1 or len(sets) != 1:
            problems.append("expected one has_/set_constraint_example pair")
        else:
            hk = {k.arg: norm(k.value) for k in has[0].keywords}
            sk = {k.arg: norm(k.value) for k in sets[0].keywords}
            ex = sk.pop("example", None)
            if hk != sk:
                problems.append("guard key %s differs from store key %s" % (hk, sk))
            if ex != "str(a_triple[%s])" % ex_pos:
                problems.append("the stored example is `%s`, not the other end of the triple (a_triple[%s])" % (ex, ex_pos))
            if inv is not None and sk.get("inverse") != inv:
                problems.append("direction flag is %s, expected %s" % (sk.get("inverse"), inv))
            if "a_triple[_P]" not in sk.get("prop_id", ""):
                problems.append("property key is not the triple's predicate")
            # the set is guarded by `if not has(...)`
            ifs = [x for x in walk_own(f.node) if isinstance(x, ast.If)]
            guarded = any(isinstance(i.test, ast.UnaryOp) and isinstance(i.test.op, ast.Not) and i.test.operand is has[0]
                          and any(y is sets[0] for s2 in i.body for y in ast.walk(s2)) for i in ifs)
            if not guarded:
                problems.append("the store is not guarded by `if not has_constraint_example(...)` (first-seen)")
        obs.append(Ob(clause, "R-FLOW", "R-FLOW|example-pairing|%s" % f.short, f.loc(), not problems,
                      "%s stores the other end of the triple, first-seen, under the key it tests" % f.short if not problems else "; ".join(problems)))
    # fresh per-shape storage
    sd = p.find_class("ShapeExampleFeaturesDict")
    init_shape = sd.methods.get("_init_shape")
    if init_shape is None:
        raise AnalysisError("ShapeExampleFeaturesDict._init_shape vanished")
    stores = [x for x in walk_own(init_shape.node) if isinstance(x, ast.Assign) and isinstance(x.targets[0], ast.Subscript)]
    ok = len(stores) == 1 and isinstance(stores[0].value, ast.List) and all(
        isinstance(y, (ast.List, ast.Dict, ast.Constant, ast.IfExp, ast.UnaryOp, ast.Not, ast.Attribute, ast.Name, ast.Load))
        and not (isinstance(y, ast.Name) and y.id != "self") for y in ast.walk(stores[0].value)) and \
        all(isinstance(a, ast.Attribute) and a.attr == "_track_inverse_features" for a in ast.walk(stores[0].value) if isinstance(a, ast.Attribute))
    n += 1
    obs.append(Ob(clause, "R-PURE", "R-PURE|fresh-per-shape-storage|ShapeExampleFeaturesDict._init_shape", init_shape.loc(), bool(ok),
                  "every shape gets freshly created example containers" if ok else
                  "per-shape storage is built from `%s`: containers shared between shapes make one shape's example satisfy another "
                  "shape's first-seen test" % (norm(stores[0].value)[:80] if stores else "?")))
    # serializer reads with the statement's direction
    g = p.method("ShexSerializer", "_get_node_constraint_example_inverse")
    calls = [x for x in walk_own(g.node) if isinstance(x, ast.Call) and isinstance(x.func, ast.Attribute) and x.func.attr == "get_constraint_example"]
    kw = {k.arg: norm(k.value) for k in calls[0].keywords} if calls else {}
    ok = kw.get("inverse") == "statement.is_inverse" and kw.get("prop") == "statement.st_property" and kw.get("shape_id") == "shape.class_uri"
    obs.append(Ob(clause, "R-FLOW", "R-FLOW|example-read|ShexSerializer._get_node_constraint_example_inverse", g.loc(), ok,
                  "the example is read under (shape class, statement property, statement direction)" if ok else "example read key is %s" % kw))
    # shape example first-seen
    for mname in ("_annotate_shape_examples", "_annotate_shape_examples_and_min_iris"):
        f = p.method("ClassProfiler", mname)
        ifs = [i for i in walk_own(f.node) if isinstance(i, ast.If) and "shape_example(" in norm(i.test) and "is None" in norm(i.test)]
        ok = len(ifs) == 1 and any(isinstance(y, ast.Call) and isinstance(y.func, ast.Attribute) and y.func.attr == "set_shape_example"
                                   and dict((k.arg, norm(k.value)) for k in y.keywords).get("example_iri") == norm(_loop_var(f))
                                   for s2 in ifs[0].body for y in ast.walk(s2))
        obs.append(Ob(clause, "R-FLOW", "R-FLOW|shape-example|%s" % f.short, f.loc(), bool(ok),
                      "%s stores the first instance of the class as its example" % f.short if ok else
                      "%s does not store the iterated instance under a first-seen guard" % f.short))
        n += 1
    return obs, n


def _loop_var(f):
    for x in f.node.body:
        if isinstance(x, ast.For):
            return x.target
    return ast.Name(id="?")


def check(ctx, tier):
    obs = []
    o_st, rows = ctx.attempt(stem_tables, ctx, "D-a", default=([], 0))
    obs += o_st
    o_ex, n_ex = ctx.attempt(example_pairing, ctx, "D-b", default=([], 0))
    obs += o_ex
    obs += twin.check_pairs(ctx, "D-b", "C17")
    idx = EffectIndex(ctx)
    g = ctx.flow
    init = ctx.p.func(INIT)
    nsites = 0
    for opt in ("detect_minimal_iri", "examples_mode"):
        oi = OptionInfluence(ctx, idx, opt, [g.var(init, opt)])
        policy = ALLOWED[(INIT, opt)]
        for ff, owner, test, eff in oi.sites:
            nsites += 1
            bad = sorted({(k, d, fn) for k, d, fn in eff if not allowed(policy, k, d)})
            obs.append(Ob("D-c", "R-EFFECT", "R-EFFECT|%s|%s|%s" % (opt, ff.short, ff.key(test)[:50]), ff.loc(test), not bad,
                          "control use of %s changes only examples / text" % opt if not bad else
                          "option %s controls `%s` in %s, whose arms differ in %s" % (opt, norm(test)[:50], ff.short,
                                                                                   ", ".join("%s in %s" % (k, fn) for k, d, fn in bad[:3]))))
    for _opt in ("detect_minimal_iri", "examples_mode"):
        obs += ctx.attempt(lambda c, cl, o=_opt: plumb.forwarding(c, cl, o, lambda prm: prm == o,
                                                                   [c.flow.param("shexer.shaper:Shaper.__init__", o)],
                                                                   skip_funcs={"shexer.shaper:Shaper.__init__"})[0], ctx, "D-e", default=[])
    obs += ctx.attempt(example_rendering_table, ctx, "D-f", default=[])
    obs += ctx.attempt(class_without_instances_row, ctx, "D-a", default=[])
    from ..rules import profile as _profile
    obs += ctx.attempt(lambda c, cl: _profile.examples_table(c, cl)[0], ctx, "D-e", default=[])
    exceptions.apply(obs)
    return {"obs": obs, "floors": [Floor("stem / fold table rows", rows, 20), Floor("example bookkeeping sites", n_ex, 6),
                                   Floor("option control sites", nsites, 15)],
            "explanation": "Decision tables of the stem cut-back (separator class folded from the regex, minimum length 3, http:// and "
                           "https:// rejected), of longest_common_prefix and of the fold step (sentinel tested by equality and unable to "
                           "collide with a fold result); example bookkeeping: other end of the triple, first-seen guard and store under "
                           "one key, fresh per-shape storage, read with the statement's own direction; twins of the example annotators; "
                           "influence policy of the two options. Longest-stem maximality over arbitrary instance sets is a value-level "
                           "fact of the tabulated fold and is not separately decided.",
            "trusted": ["python's re module evaluates the folded separator regex", "twin role maps"]}
