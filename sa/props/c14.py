"""C14 - inverse paths add incoming-link constraints and leave the rest untouched.

D-a  twins: the inverse profiling / shexing / traversal code is the direct code under the role map
     {S<->O, DIRECT<->INVERSE, is_inverse False<->True} (one frozen divergence: blank-node subjects of incoming
     links get no shape references, by design);
D-b  the direct half under inverse_paths equals the direct-only strategy modulo the container position; the class
     counter is incremented once in both; direct and inverse statements are selected independently, tuned once;
D-c  writer/reader index tables agree;
D-d  direction plumbing: statement direction = serializer direction = profile half; every serializer prints the
     direction flag; the serializer family is built from the same options; subject and object arms are symmetric.
Undecided: equality with the reversed graph for all graphs (follows only together with C01's value-level part)."""
from ..report import Floor
from ..rules import twin, direction, threshold, memo, gens, count, mergetable
from .. import exceptions


def check(ctx, tier):
    obs = []
    tw = twin.check_pairs(ctx, "D-a", "C14")
    obs += tw
    tf = threshold.ThresholdFacts(ctx)
    obs += threshold.comparator_obligations(ctx, tf, "D-b")      # all three candidate builders filter alike
    obs += ctx.attempt(direction.const_tables, ctx, "D-c", default=[])
    o_dir, n_dir = ctx.attempt(direction.statement_direction_agreement, ctx, "D-d", default=([], 0))
    obs += o_dir
    obs += ctx.attempt(direction.sense_flag_emitted, ctx, "D-d", default=[])
    obs += ctx.attempt(direction.symmetric_relevance, ctx, "D-d", default=[])
    obs += ctx.attempt(direction.serializer_family_arguments, ctx, "D-d", default=[])
    obs += ctx.attempt(lambda c, cl: direction.explicit_direction(c, cl)[0], ctx, "D-d", default=[])
    obs += ctx.attempt(lambda c, cl: memo.check(c, cl)[0], ctx, "D-d", default=[])
    obs += ctx.attempt(lambda c, cl: gens.check(c, cl)[0], ctx, "D-e", default=[])
    obs += ctx.attempt(lambda c, cl: count.class_iteration_agreement(c, cl)[0], ctx, "D-f", default=[])
    obs += ctx.attempt(lambda c, cl: mergetable.invariants(c, cl, which=('direction',))[0], ctx, "D-g", default=[])
    from ..rules import profile as _profile
    obs += ctx.attempt(lambda c, cl: _profile.tables(c, cl, ('mirror',))[0], ctx, "D-h", default=[])
    from ..rules import profile as _profile2
    obs += ctx.attempt(lambda c, cl: _profile2.shapes_tables(c, cl, ('mirror',))[0], ctx, "D-i", default=[])
    exceptions.apply(obs)
    return {"obs": obs, "floors": [Floor("twin pairs compared", len(tw), 18), Floor("direction-plumbing sites", n_dir, 4)],
            "explanation": "Sibling agreement (normalised AST comparison modulo a role map) of every direct/inverse pair of the profiling, "
                           "shexing, traversal and example code, and of the direct half with the direct-only strategy; agreement of the "
                           "writer/reader position constants; direction plumbing from profile half to statement flag to serializer to "
                           "the printed ^ flag. Relative rules: both copies may change together. Equality with the reversed graph for "
                           "all graphs additionally needs C01's value-level part and is not decided.",
            "trusted": ["role maps and frozen divergences in sa/rules/twin.py"]}
