"""C02 - a shape holds exactly the features at or above the acceptance threshold.

D-a  comparator: every candidate Statement built from the class profile is guarded by
     `frequency >= threshold` (boundary kept) in a total loop nest; the threshold is forwarded
     explicitly to every function that has the parameter;
D-b  select before assign: what set_valid_shape_constraints stores into shape.statements comes only
     from _select_valid_statements_of_shape, which applies same-kind grouping, then node-kind grouping
     on its result; the grouping loops are total;
D-c  removal guards: a shape is dropped only when it has no statement (shexer) / when it is neither an
     original target nor has features (profiler) - decision tables;
D-d  siblings: direct-only and direct+inverse strategies agree (twins), original targets are
     registered by both profiling strategies (the empty shape of a requested class without instances).
D-e  what the shexer produced reaches the output: the buffered ShExC writer delivers every line handed to its sink
     exactly once on both channels (R-PROTO, sa.rules.writer).
Undecided: that grouping keeps exactly one survivor per key for every mix of kinds (value level)."""
import ast
from ..core import walk_own, norm, AnalysisError
from ..report import Ob, Floor
from ..rules import writer, threshold, twin, direction, globalstate, gens, plumb, count, mergetable, prio, loops
from ..abseval import Evaluator, Sym, Opaque
from .. import exceptions

ASS = "shexer.core.shexing.strategy.abstract_shexing_strategy:AbstractShexingStrategy."


def select_before_assign(ctx, clause):
    obs = []
    p = ctx.p
    n = 0
    for q in ("shexer.core.shexing.strategy.direct_shexing_strategy:DirectShexingStrategy.set_valid_shape_constraints",
              "shexer.core.shexing.strategy.direct_and_inverse_shexing_strategy:DirectAndInverseShexingStrategy.set_valid_shape_constraints"):
        f = p.func(q)
        stores = [x for x in walk_own(f.node) if isinstance(x, ast.Assign) and isinstance(x.targets[0], ast.Attribute)
                  and x.targets[0].attr == "statements"]
        if len(stores) != 1:
            raise AnalysisError("%s: expected one store into shape.statements, found %d" % (q, len(stores)))
        rhs = stores[0].value
        n += 1
        ok, why = True, ""
        if not isinstance(rhs, ast.Name):
            ok, why = False, "the stored value is not a plain variable"
        else:
            for x in walk_own(f.node):
                tgt = None
                if isinstance(x, ast.Assign) and any(isinstance(t, ast.Name) and t.id == rhs.id for t in x.targets):
                    tgt = x.value
                elif isinstance(x, ast.AugAssign) and isinstance(x.target, ast.Name) and x.target.id == rhs.id:
                    tgt = x.value
                if tgt is not None:
                    def only_selected(e, depth=0):
                        """a call of the selection, a concatenation of such values, or a local that only ever holds such values"""
                        if isinstance(e, ast.Call) and isinstance(e.func, ast.Attribute) and e.func.attr == "_select_valid_statements_of_shape":
                            return True
                        if isinstance(e, ast.BinOp) and isinstance(e.op, ast.Add):
                            return only_selected(e.left, depth) and only_selected(e.right, depth)
                        if isinstance(e, ast.Name) and depth < 4 and e.id != rhs.id:
                            defs = [y.value for y in walk_own(f.node) if isinstance(y, (ast.Assign, ast.AugAssign)) and any(
                                isinstance(t_, ast.Name) and t_.id == e.id for t_ in (y.targets if isinstance(y, ast.Assign) else [y.target]))]
                            return bool(defs) and all(only_selected(d_, depth + 1) for d_ in defs)
                        return False
                    good = only_selected(tgt)
                    if not good:
                        ok, why = False, "`%s` also receives `%s`" % (rhs.id, norm(tgt)[:50])
            # tuning happens between selection and the store, on the same list
            tuned = [x for x in walk_own(f.node) if isinstance(x, ast.Call) and isinstance(x.func, ast.Attribute)
                     and x.func.attr == "_tune_list_of_valid_statements"]
            if len(tuned) != 1 or tuned[0].lineno > stores[0].lineno:
                ok, why = False, "the statements are not tuned exactly once before being stored"
        obs.append(Ob(clause, "R-ORDER", "R-ORDER|select-before-assign|%s" % f.short, f.loc(stores[0]), ok,
                      "shape.statements receives only selected (grouped) statements, tuned once" if ok else why))
    sel = p.func(ASS + "_select_valid_statements_of_shape")
    # value flow, not statement shape: every non-trivial return of the selection is
    # _group_node_constraints(_group_constraints_with_same_prop_and_obj(<the parameter>)), through any number of locals
    STAGES = ("_group_constraints_with_same_prop_and_obj", "_group_node_constraints")
    params = [a.arg for a in sel.node.args.args if a.arg != "self"]

    def _value_of(e, depth=0):
        """the expression a local stands for at `e` (latest preceding assignment), followed through plain copies"""
        while isinstance(e, ast.Name) and depth < 6 and e.id not in params:
            defs = [x for x in walk_own(sel.node) if isinstance(x, ast.Assign) and x.lineno < e.lineno
                    and any(isinstance(t, ast.Name) and t.id == e.id for t in x.targets)]
            if not defs:
                return e
            e = max(defs, key=lambda x: x.lineno).value
            depth += 1
        return e

    def _stage(e):
        return e.func.attr if isinstance(e, ast.Call) and isinstance(e.func, ast.Attribute) and isinstance(e.func.value, ast.Name) \
            and e.func.value.id == "self" and e.func.attr in STAGES and len(e.args) == 1 and not e.keywords else None

    names, chained = [], 0
    for r in [x for x in walk_own(sel.node) if isinstance(x, ast.Return) and x.value is not None]:
        v = _value_of(r.value)
        if _stage(v) is None:
            if any(_stage(c) for c in ast.walk(v) if isinstance(c, ast.Call)):
                names.append("a grouping stage inside `%s`" % norm(v)[:40])
            continue  # the early return of the untouched (empty) input
        inner = _value_of(v.args[0])
        src = _value_of(inner.args[0]) if _stage(inner) else None
        names.append("%s(%s(%s))" % (_stage(v), _stage(inner), norm(src)[:30] if src is not None else "?"))
        if _stage(v) == STAGES[1] and _stage(inner) == STAGES[0] and isinstance(src, ast.Name) and src.id in params:
            chained += 1
    n_stage_calls = len([c for c in walk_own(sel.node) if _stage(c)])
    ok = chained >= 1 and chained == len(names) and n_stage_calls == 2 * chained
    obs.append(Ob(clause, "R-ORDER", "R-ORDER|grouping-order|%s" % sel.short, sel.loc(), ok,
                  "same-kind grouping feeds node-kind grouping, whose result is returned" if ok else
                  "grouping stages are not chained same-kind -> node-kind -> return (found %s)" % names))
    for name in ("_group_constraints_with_same_prop_and_obj", "_group_node_constraints",
                 "_find_all_candidates_to_merge_swapped_constraints_at_node_level"):
        f = p.func(ASS + name)
        bad = [x for x in walk_own(f.node) if isinstance(x, (ast.Break, ast.Continue))] + \
              [x for l in walk_own(f.node) if isinstance(l, (ast.For, ast.While)) for x in ast.walk(l) if isinstance(x, ast.Return)]
        n += 1
        obs.append(Ob(clause, "R-LOOP", "R-LOOP|grouping-total|%s" % f.short, f.loc(), not bad,
                      "grouping loop visits every candidate" if not bad else
                      "%s at %s leaves the grouping loop early" % (type(bad[0]).__name__.lower(), f.loc(bad[0]))))
    return obs, n


def _marked(outs):
    """The set a removal detector returns (whichever way it was built: add-loop, comprehension, filter)."""
    if len(outs) != 1 or outs[0][0] != "return":
        return None
    v = outs[0][1]
    if isinstance(v, (set, frozenset, list, tuple)):
        return sorted(v)
    return sorted(e[1] for e in outs[0][2])


def removal_tables(ctx, clause):
    p = ctx.p
    obs = []
    ev = Evaluator(ctx, watch={"add"})
    f = p.func("shexer.core.shexing.class_shexer:ClassShexer._detect_shapes_to_remove")
    shapes = ({"n_statements": 0, "name": "EMPTY"}, {"n_statements": Sym("n>0", int, {0: ">"}), "name": "FULL"})
    outs = ev.outcomes(f, {}, {"self._shapes_list": shapes})
    added = _marked(outs)
    ok = added == ["EMPTY"]
    obs.append(Ob(clause, "R-TABLE", "R-TABLE|ClassShexer._detect_shapes_to_remove", f.loc(), ok,
                  "a shape is marked for removal iff it has no statement" if ok else "marks %s for {EMPTY(0 statements), FULL}" % (outs,)))
    g = p.func("shexer.core.profiling.class_profiler:ClassProfiler._detect_shapes_to_remove")
    # rows: (is original target, has features) -> removed?
    for tgt in (True, False):
        for feat in (True, False):
            env = {"self._classes_shape_dict": {"K": None}, "self._original_target_nodes": ("K",) if tgt else (),
                   "self._strategy": {"has_shape_annotated_features()": feat}}
            outs = ev.outcomes(g, {}, env)
            added = _marked(outs)
            want = [] if (tgt or feat) else ["K"]
            ok = added == want
            obs.append(Ob(clause, "R-TABLE", "R-TABLE|ClassProfiler._detect_shapes_to_remove|target=%s,features=%s" % (tgt, feat),
                          g.loc(), ok, "original target=%s, has features=%s -> %s" % (tgt, feat, "removed" if want else "kept") if ok
                          else "expected %s, code gives %s" % (want, outs)))
    return obs


def check(ctx, tier):
    tf = threshold.ThresholdFacts(ctx)
    obs = []
    obs += threshold.comparator_obligations(ctx, tf, "D-a")
    o_sites, n_sites = threshold.every_statement_site_filtered(ctx, tf, "D-a")
    obs += o_sites
    obs += threshold.forwarding_obligations(ctx, tf, "D-a")
    o_sel, n_sel = select_before_assign(ctx, "D-b")
    obs += o_sel
    obs += removal_tables(ctx, "D-c")
    obs += twin.check_pairs(ctx, "D-d", "C02")
    obs += ctx.attempt(lambda c, cl: writer.protocol(c, cl)[0], ctx, "D-e", default=[])
    obs += ctx.attempt(lambda c, cl: direction.explicit_direction(c, cl)[0], ctx, "D-f", default=[])
    obs += ctx.attempt(lambda c, cl: globalstate.module_level_mutables(c, cl)[0], ctx, "D-g", default=[])
    obs += ctx.attempt(lambda c, cl: gens.check(c, cl)[0], ctx, "D-h", default=[])
    obs += ctx.attempt(lambda c, cl: plumb.forwarding(c, cl, "remove_empty_shapes", lambda prm: prm == "remove_empty_shapes",
                                                      [c.flow.param("shexer.shaper:Shaper.__init__", "remove_empty_shapes")],
                                                      skip_funcs={"shexer.shaper:Shaper.__init__"})[0], ctx, "D-i", default=[])
    obs += ctx.attempt(lambda c, cl: count.class_iteration_agreement(c, cl)[0], ctx, "D-j", default=[])
    obs += ctx.attempt(lambda c, cl: mergetable.invariants(c, cl, which=('one-per-key', 'property'))[0], ctx, "D-k", default=[])
    obs += ctx.attempt(lambda c, cl: prio.check(c, cl)[0], ctx, "D-l", default=[])
    obs += ctx.attempt(loops.every_yielded_item_is_kept, ctx, "D-m", "shexer.core.shexing.class_shexer:ClassShexer._build_shapes", "shape", default=[])
    obs += ctx.attempt(loops.one_shape_per_class, ctx, "D-n", default=[])
    from ..rules import profile as _profile2
    obs += ctx.attempt(lambda c, cl: _profile2.shapes_tables(c, cl, ('mirror', 'monotone'))[0], ctx, "D-l", default=[])
    exceptions.apply(obs)
    floors = [Floor("threshold filter comparisons", len(tf.filters), 3), Floor("candidate construction sites", n_sites, 3),
              Floor("selection/grouping functions", n_sel, 5)]
    return {"obs": obs, "floors": floors,
            "explanation": "Structural necessary conditions of 'exactly the features at or above the threshold': boundary-inclusive "
                           "filter at every candidate construction site inside total loops, explicit forwarding of the threshold, "
                           "selection before assignment with the two grouping stages chained and total, removal decision tables of "
                           "both cleaning stages, agreement of the direct-only and direct+inverse siblings. Does not decide that "
                           "grouping keeps one survivor per key for every mix of kinds.",
            "trusted": ["value-flow graph is a may-analysis", "twin role maps in sa/rules/twin.py"]}
