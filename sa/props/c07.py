"""C07 - the streaming Turtle reader yields exactly the triples of the document.

D-a  R-TS statement automaton: (state, token class) -> (emit?, next state | raise) extracted from the token dispatch
     and compared with Turtle's triples / predicateObjectList / objectList productions; the token loop is total
     (known finding: the closure branches emit in incomplete states);
D-b  R-IDX index kinds of the token-boundary searches (exclusive ends for blank-delimited tokens, inclusive for
     delimiter-closed ones; slice upper bounds exclusive);
D-c  R-BOUND adequacy of the bounds check before a subscript (known finding: `e + 1 > len(s)`);
D-d  R-SENT over the Turtle scanner, twins of the prefix expansion, R-STALE (no pre-loop snapshot of parser state
     that directives update);
D-e  the prefix table reaches every expansion site (known finding: literal datatypes only know four hard-coded prefixes).
Undecided: agreement with a standard Turtle parser on every layout (value level)."""
from ..report import Floor
from ..rules import scanner, sentinel, twin, memo
from .. import exceptions


def check(ctx, tier):
    obs = []
    o_a, table = ctx.attempt(scanner.statement_automaton, ctx, "D-a", default=([], {}))
    obs += o_a
    obs += ctx.attempt(scanner.index_kinds, ctx, "D-b", default=[])
    obs += ctx.attempt(scanner.bounds_checks, ctx, "D-c", default=[])
    o_s, n_s = ctx.attempt(sentinel.check, ctx, "D-d", modules=("shexer.io.graph.yielder.big_ttl", "shexer.utils.uri"), default=([], 0))
    obs += o_s
    obs += twin.check_pairs(ctx, "D-d", "C07")
    o_st, n_st = ctx.attempt(scanner.stale_snapshots, ctx, "D-d", default=([], 0))
    obs += o_st
    obs += ctx.attempt(scanner.prefix_table_reaches_datatypes, ctx, "D-e", default=[])
    obs += ctx.attempt(lambda c, cl: memo.check(c, cl)[0], ctx, "D-e", default=[])
    obs += ctx.attempt(scanner.ttl_token_table, ctx, "D-f", default=[])
    obs += ctx.attempt(scanner.numeric_token_table, ctx, "D-g", default=[])
    obs += ctx.attempt(scanner.ttl_document_table, ctx, "D-h", default=[])
    obs += ctx.attempt(scanner.line_reader_split, ctx, "D-i", default=[])
    exceptions.apply(obs)
    return {"obs": obs, "floors": [Floor("automaton cells extracted", len(table), 16), Floor("find/rfind sites examined", n_s, 12),
                                   Floor("loops examined for stale snapshots", n_st, 5)],
            "explanation": "The statement automaton of the streaming Turtle reader is extracted cell by cell from the token dispatch (4 states "
                           "x {',', ';', '.', term}) and compared with the reference productions; index expressions of the token-boundary "
                           "searches are typed inclusive/exclusive and checked against their uses; bounds checks must imply the subscript "
                           "they protect; find results are protected; parser state is read where it is current; the prefix table reaches "
                           "every expansion site. Agreement with a standard parser on every layout is value-level and not decided.",
            "coverage": {"automaton": {"%s,%s" % k: list(v) for k, v in table.items()}},
            "trusted": ["reference automaton transcribes the Turtle grammar productions triples / predicateObjectList / objectList"]}
