"""C20 - contradictory or unsupported configurations are rejected up front.

D-a  decision tables: the validation prefix of Shaper.__init__ / Shaper.shex_graph is
     abstractly evaluated over every assignment of each argument group (other groups at a
     valid default) and compared row by row with the reference predicate of the property
     statement (reject <=> ValueError).
D-b  dominance: the validation calls are a prefix of the method body (before any state is
     written or any stage is launched) and every raise they can reach constructs ValueError.
D-c  accepted is a subset of handled: finite-domain propagation of the validated enums (shared
     with C04) and graph-source coverage of every consumer that builds a graph."""
import ast
import itertools
from ..core import walk_own, norm, AnalysisError
from ..report import Ob, Floor
from ..abseval import Evaluator, Opaque, Distinct, Sym
from .. import exceptions
from .c04 import enum_obligations

INIT = "shexer.shaper:Shaper.__init__"
SHEX = "shexer.shaper:Shaper.shex_graph"

# ---- reference (from the property statement / README, independent of shexer/consts.py) ----
SOURCES = ["graph_file_input", "graph_list_of_files_input", "raw_graph", "url_graph_input", "list_of_url_input",
           "url_endpoint", "rdflib_graph"]
TARGETS = ["target_classes", "file_target_classes", "shape_map_file", "shape_map_raw"]
FORMATS = ["nt", "tsv_spo", "turtle", "turtle_iter", "xml", "n3", "json-ld"]
COMPRESSIONS = [None, "zip", "gz", "xz"]
EXAMPLES = [None, "shape", "cons", "all"]
OUTPUTS = ["ShEx", "Shacl"]
OBJ = Opaque("given")
BOGUS = Distinct("bogus")


def ref_init_rejects(a):
    if sum(1 for s in SOURCES if a[s] is not None) != 1:
        return True
    if not a["all_classes_mode"]:
        if sum(1 for t in TARGETS if a[t] is not None) != 1:
            return True
    elif a["target_classes"] is not None or a["file_target_classes"] is not None:
        return True
    if a["disable_or_statements"] and a["allow_redundant_or"]:
        return True
    if a["input_format"] not in FORMATS:
        return True
    if a["compression_mode"] not in COMPRESSIONS:
        return True
    if a["compression_mode"] is not None and (a["url_endpoint"] is not None or a["url_graph_input"] is not None
                                              or a["list_of_url_input"] is not None):
        return True
    if a["examples_mode"] not in EXAMPLES:
        return True
    return False


def valid_default():
    d = {s: None for s in SOURCES + TARGETS}
    d.update({"graph_file_input": OBJ, "target_classes": OBJ, "all_classes_mode": False, "disable_or_statements": True,
              "allow_redundant_or": False, "input_format": "nt", "compression_mode": None, "examples_mode": None})
    return d


def init_groups():
    """(group name, list of variables, list of value tuples)."""
    nn = [None, OBJ]
    yield "graph sources", SOURCES, list(itertools.product(nn, repeat=len(SOURCES)))
    yield "targets", TARGETS + ["all_classes_mode"], [v + (m,) for v in itertools.product(nn, repeat=len(TARGETS))
                                                      for m in (False, True)]
    yield "or flags", ["disable_or_statements", "allow_redundant_or"], list(itertools.product([True, False], repeat=2))
    yield "input format", ["input_format"], [(x,) for x in FORMATS + [BOGUS]]
    # compression x remote sources: keep exactly one source given so the source rule stays satisfied
    rows = []
    for c in COMPRESSIONS + [BOGUS]:
        for src in SOURCES:
            rows.append((c,) + tuple(OBJ if s == src else None for s in SOURCES))
    yield "compression x source kind", ["compression_mode"] + SOURCES, rows
    yield "examples mode", ["examples_mode"], [(x,) for x in EXAMPLES + [BOGUS]]


def _writes_state(ctx, st):
    """Does the bare call `st` reach a function that assigns an attribute (self.x = ..., self.x += ...)?  Such a call is work,
    not validation."""
    cs = ctx.r.site_of.get(id(st.value))
    if cs is None or not cs.targets:
        return False
    for q in ctx.r.reach_from([t.qual for t in cs.targets]):
        g = ctx.p.funcs[q]
        for n in walk_own(g.node):
            if isinstance(n, (ast.Assign, ast.AugAssign)):
                for t in (n.targets if isinstance(n, ast.Assign) else [n.target]):
                    if isinstance(t, (ast.Attribute, ast.Subscript)) and not (isinstance(t, ast.Subscript) and isinstance(t.value, ast.Name)
                                                                             and t.value.id in g.local_names):
                        return True
    return False


def validation_prefix(f, ctx=None):
    """Leading statements of the body that are bare calls (after the docstring) and, when the resolved program is given, write no
    state: the first bare call that reaches an attribute assignment is where the work begins (a refactoring that turns the first
    stage into one helper call must not turn that helper into a 'validation')."""
    out = []
    for st in f.node.body:
        if isinstance(st, ast.Expr) and isinstance(st.value, ast.Constant):
            continue
        if isinstance(st, ast.Expr) and isinstance(st.value, ast.Call):
            if ctx is not None and _writes_state(ctx, st):
                break
            out.append(st)
            continue
        break
    return out


def eval_prefix(ev, f, prefix, env):
    """Outcome of running the validation prefix under env: 'accept' or ('raise', class) (may fork)."""
    outs = []
    pending = [()]
    from ..abseval import Raised, Fork
    while pending:
        dec = pending.pop()
        ev._decisions, ev._taken = list(dec), []
        try:
            for st in prefix:
                ev.expr(st.value, dict(env), f, 0)
            o = "accept"
        except Raised as r:
            o = ("raise", r.exc)
        except Fork:
            pending.append(tuple(ev._taken) + (True,))
            pending.append(tuple(ev._taken) + (False,))
            continue
        if o not in outs:
            outs.append(o)
    return outs


def show(v):
    return "None" if v is None else ("given" if v is OBJ else repr(v))


def check(ctx, tier):
    p = ctx.p
    obs = []
    ev = Evaluator(ctx)
    init, shex = p.func(INIT), p.func(SHEX)
    # ------------------------------------------------------------- D-a: __init__
    pre = validation_prefix(init, ctx)
    rows = 0
    for gname, gvars, gvals in init_groups():
        missing = [v for v in gvars if v not in init.params]
        if missing:
            raise AnalysisError("Shaper.__init__ lost parameter(s) %s" % missing)
        for vals in gvals:
            a = valid_default()
            if gname == "compression x source kind":
                for s in SOURCES:
                    a[s] = None
            a.update(dict(zip(gvars, vals)))
            env = {k: v for k, v in a.items()}
            for prm in init.params[1:]:
                env.setdefault(prm, Opaque(prm))
            env["self"] = Opaque("self")
            outs = eval_prefix(ev, init, pre, env)
            want = ("raise", "ValueError") if ref_init_rejects(a) else "accept"
            ok = outs == [want]
            rows += 1
            key = "R-TABLE|Shaper.__init__|%s|%s" % (gname, ",".join("%s=%s" % (k, show(v)) for k, v in zip(gvars, vals)))
            obs.append(Ob("D-a", "R-TABLE", key, init.loc(), ok,
                          "row %s -> %s" % (key.split("|")[-1], want if ok else "expected %s, code gives %s" % (want, outs))))
    # ----------------------------------------------------------- D-a: shex_graph
    pre2 = validation_prefix(shex, ctx)
    thr = {"t<0": Sym("t<0", float, {0: "<", 1: "<"}), "t=0": 0, "0<t<1": Sym("0<t<1", float, {0: ">", 1: "<"}),
           "t=1": 1, "t>1": Sym("t>1", float, {0: ">", 1: ">"})}
    base = {"string_output": True, "output_file": None, "to_uml_path": None, "output_format": "ShEx",
            "acceptance_threshold": 0, "verbose": False, "self": Opaque("self")}

    def shex_row(gname, upd, want_reject):
        nonlocal rows
        env = dict(base)
        env.update(upd)
        outs = eval_prefix(ev, shex, pre2, env)
        want = ("raise", "ValueError") if want_reject else "accept"
        rows += 1
        key = "R-TABLE|Shaper.shex_graph|%s|%s" % (gname, ",".join("%s=%s" % (k, show(v)) for k, v in upd.items()))
        obs.append(Ob("D-a", "R-TABLE", key, shex.loc(), outs == [want],
                      "row %s -> %s" % (key.split("|")[-1], want if outs == [want] else "expected %s, code gives %s" % (want, outs))))
    for so in (True, False):
        for of in (None, OBJ):
            for up in (None, OBJ):
                shex_row("output sink", {"string_output": so, "output_file": of, "to_uml_path": up},
                         (not so) and of is None and up is None)
    for fmt in OUTPUTS + [BOGUS]:
        shex_row("output format", {"output_format": fmt}, fmt not in OUTPUTS)
    for name, v in thr.items():
        shex_row("threshold", {"acceptance_threshold": v}, name in ("t<0", "t>1"))
    # ----------------------------------------------------------------- D-b
    for f, prefix, minimum in ((init, pre, 6), (shex, pre2, 3)):
        body = [s for s in f.node.body if not (isinstance(s, ast.Expr) and isinstance(s.value, ast.Constant))]
        rest = body[len(prefix):]
        obs.append(Ob("D-b", "R-ORDER", "R-ORDER|validation-prefix|%s" % f.short, f.loc(), len(prefix) >= minimum,
                      "%d validation calls form the prefix of %s (expected at least %d)" % (len(prefix), f.short, minimum)))
        # nothing before the end of the prefix writes state; and the checks can only raise ValueError
        called = set()
        for st in prefix:
            cs = ctx.r.site_of.get(id(st.value))
            if cs is None or not cs.targets:
                raise AnalysisError("validation call %s does not resolve" % norm(st))
            for t in cs.targets:
                called |= ctx.r.reach_from([t.qual])
        for q in sorted(called):
            g = p.funcs[q]
            for n in walk_own(g.node):
                if isinstance(n, ast.Raise):
                    cls = ast.unparse(n.exc.func) if isinstance(n.exc, ast.Call) else ast.unparse(n.exc) if n.exc else "?"
                    obs.append(Ob("D-b", "R-RAISE", "R-RAISE|validation-raises|%s|%s" % (g.short, cls), g.loc(n),
                                  cls == "ValueError", "validation function %s raises %s" % (g.short, cls)))
        # a validation function called again later (after state was written) would be a deferred check
        vnames = {norm(st.value.func) for st in prefix}
        for st in rest:
            for n in ast.walk(st):
                if isinstance(n, ast.Call) and norm(n.func) in vnames:
                    obs.append(Ob("D-b", "R-ORDER", "R-ORDER|late-validation|%s|%s" % (f.short, f.key(n.func)), f.loc(n),
                                  False, "validation %s is (also) called after the prefix of %s" % (norm(n.func), f.short)))
    # a validation method that exists but is not called from the prefix
    shaper = p.find_class("Shaper")
    called_names = {st.value.func.attr if isinstance(st.value.func, ast.Attribute) else st.value.func.id
                    for st in pre + pre2}
    for name, m in shaper.methods.items():
        if name.startswith("_check_"):
            obs.append(Ob("D-b", "R-ORDER", "R-ORDER|validation-called|%s" % name, m.loc(), name in called_names,
                          "validation method %s %s" % (name, "is part of a validation prefix" if name in called_names
                                                       else "is not called from the prefix of __init__/shex_graph")))
    # ----------------------------------------------------------------- D-c
    o_enum, n_dispatch = enum_obligations(ctx, "D-c")
    obs.extend(o_enum)
    o_src, n_cons = source_coverage(ctx)
    obs.extend(o_src)
    from ..rules import null
    o_given, n_truth = ctx.attempt(null.given_is_not_none, ctx, "D-c", default=([], 0))
    obs.extend(o_given)
    exceptions.apply(obs)
    floors = [Floor("R-TABLE rows evaluated", rows, 220), Floor("R-ENUM dispatch tests", n_dispatch, 30),
              Floor("graph consumers examined", n_cons, 3), Floor("R-GIVEN truth-tested operands examined", n_truth, 300)]
    return {"obs": obs, "floors": floors,
            "explanation": "Decision tables of the validation prefix of Shaper.__init__ (graph sources 2^7, targets 2^4 x "
                           "all_classes_mode, or-flags, input format, compression x source kind, examples mode) and of "
                           "Shaper.shex_graph (sink presence, output format, five threshold classes) extracted by abstract "
                           "evaluation of the source and compared row by row with the reference predicate of the property "
                           "statement; dominance of the validation prefix; every reachable raise is ValueError; accepted "
                           "enum values never reach a later raise; every accepted graph source is forwarded to every "
                           "consumer that builds a graph. Cross-group interactions are evaluated only against a valid "
                           "default of the other groups.",
            "trusted": ["the reference predicate in sa/props/c20.py transcribes the property statement",
                        "abstract values: None / some object of unknown truthiness / a string different from every constant"]}


def source_coverage(ctx):
    """Every graph source accepted by the constructor must reach (value flow, through constructed
    graph objects) each function that turns sources into a graph object."""
    g = ctx.flow
    init = ctx.p.func(INIT)
    consumers = {
        "get_triple_yielder (both passes)": "shexer.utils.factories.triple_yielders_factory:get_triple_yielder",
        "get_shape_map_if_needed (shape map at construction)": "shexer.utils.factories.shape_map_factory:get_shape_map_if_needed",
        "_get_adequate_sgraph (selectors of the instance tracker)": "shexer.utils.factories.instance_tracker_factory:_get_adequate_sgraph",
    }
    obs = []
    for label, q in consumers.items():
        f = ctx.p.func(q)
        pnodes = {g.var(f, prm) for prm in f.params}
        for s in SOURCES:
            t = g.flows([g.var(init, s)], labels=("copy",), through_ctors=True)
            ok = bool(pnodes & t)
            obs.append(Ob("D-c", "R-ENUM", "R-ENUM|source-coverage|%s|%s" % (f.short, s), f.loc(), ok,
                          "graph source %s %s %s" % (s, "reaches" if ok else "is accepted by the constructor but never reaches", label)))
    return obs, len(consumers)
