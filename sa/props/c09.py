"""C09 - shapes do not depend on statement order or blank-node labels.

D-a  accumulation is commutative and total: the evidence tables are updated only by absence-initialisation,
     += 1 and class append, in loops that visit every element (the instance cap, order-dependent by
     specification, is the frozen exception); memo keys are complete (no "first computation wins");
D-b  no hash-order source reaches the evidence path (set iteration escapes, shared with C19);
D-c  node identifiers are used only as dictionary keys and equality operands in the instance and profiling
     stages (relabeling invariance of the evidence);
D-d  sibling agreement of the direct and inverse counting code; shape labels are a function of the class only.
Undecided: which alternative wins a frequency tie (the property allows it to vary)."""
from ..report import Floor
from ..rules import count, twin, memo, det, nodeids, gens, scanner, plumb, mergetable, loops
from .. import exceptions


def check(ctx, tier):
    obs = []
    o_disc, counts, writes = count.discipline(ctx, "D-a")
    obs += o_disc
    o_loops, n_loops = count.accumulation_loops_total(ctx, "D-a", writes)
    obs += o_loops
    o_memo, n_memo = memo.check(ctx, "D-a")
    obs += o_memo
    o_sets, n_sets = det.check_sets(ctx, "D-b")
    obs += o_sets
    o_ids, n_ids = nodeids.check(ctx, "D-c")
    obs += o_ids
    obs += twin.check_pairs(ctx, "D-d", "C09")
    o_shape, n_shape = count.shape_sites(ctx, "D-d")
    obs += o_shape
    obs += ctx.attempt(lambda c, cl: gens.check(c, cl)[0], ctx, "D-e", default=[])
    obs += ctx.attempt(scanner.nt_token_table, ctx, "D-f", default=[])
    obs += ctx.attempt(lambda c, cl: plumb.no_cross_option_flow(c, cl)[0], ctx, "D-g", default=[])
    obs += ctx.attempt(lambda c, cl: mergetable.invariants(c, cl, which=('order-free',))[0], ctx, "D-h", default=[])
    obs += ctx.attempt(scanner.nt_document_table, ctx, "D-i", default=[])
    obs += ctx.attempt(loops.every_yielded_item_is_kept, ctx, "D-j", "shexer.core.shexing.class_shexer:ClassShexer._build_shapes", "shape", default=[])
    from ..rules import profile as _profile
    obs += ctx.attempt(lambda c, cl: _profile.tables(c, cl, ('permutation',))[0], ctx, "D-i", default=[])
    exceptions.apply(obs)
    floors = [Floor("accumulator increments (+= 1)", counts.get("inc", 0), 9), Floor("accumulation loops", n_loops, 8),
              Floor("memo sites", n_memo, 3), Floor("set constructions", n_sets, 10), Floor("node-identifier uses", n_ids, 15)]
    return {"obs": obs, "floors": floors,
            "explanation": "Order and relabeling invariance of the evidence follows from: every update of the evidence tables is a "
                           "commutative operation keyed by data inside a loop that visits every element; no memo can make the first "
                           "computation win; no set order escapes; node identifiers are only keys / equality operands in the two "
                           "evidence stages; direct and inverse counting are twins; labels depend on the class only. Tie-breaking among "
                           "equally frequent alternatives may vary (allowed by the property) and is not analysed.",
            "trusted": ["dict insertion order only affects tie-breaking", "twin role maps"]}
