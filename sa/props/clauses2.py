"""Clauses added to the property checks in session 2 (see DESIGN.md 11.5-11.6); appended to the evidence explanation."""
R = {
    "dir": "a callee with a direction parameter receives it explicitly at every call site (R-PLUMB direction)",
    "glob": "no module-level container is written at run time (R-GLOBAL)",
    "num": "the untyped-number option reaches every reader (R-PLUMB) and bare numeric tokens keep their kind whatever their sign (table)",
    "quoted": "decide_literal_type only ever receives quoted tokens (R-CONTRACT)",
    "gen": "no one-shot iterator is consumed twice (R-GEN)",
    "lit": "literal datatype table over representative tokens incl. BCP47 tags",
    "merge": "accumulators of lists are merged entry by entry (R-MERGE)",
    "clsiter": "every loop over the classes of an instance iterates the same list (R-COUNT)",
    "writer": "the buffered ShExC writer delivers every line once on both channels (R-PROTO, interpreted)",
    "fresh": "serialisers are built per call (R-FRESH)",
    "memo2": "lazy slots are not filled from arguments and field memos are invalidated by the writers of their inputs (R-MEMO)",
}
EXTRA = {
    "C01": [R["dir"], R["glob"], R["num"], R["quoted"], R["gen"], R["lit"], R["merge"], R["clsiter"],
            "merge-stage invariants: figures are a candidate's, direction kept, coverage of the node kinds' total"],
    "C02": [R["writer"], R["dir"], R["glob"], R["gen"], "remove_empty_shapes reaches the profiler (R-PLUMB)", R["clsiter"],
            "merge-stage invariants: one constraint per key, same property"],
    "C03": [R["num"], R["quoted"], R["gen"], R["lit"], "entry-level tuning table through _tune_list_of_valid_statements",
            "merge-stage invariants: coverage, no crash"],
    "C04": ["`.iri` of a triple's object is read only where the object is known to be a node (R-KIND)",
            "remove_empty_shapes reaches the profiler (R-PLUMB)", "merge-stage invariant: no combination of node kinds raises (268 abstract runs)"],
    "C05": [R["gen"], R["fresh"], "accumulating stages run only under a first-run guard (R-MEMO)", R["writer"]],
    "C06": ["decision table of _look_for_tokens over representative statements (divergence bound 20000 steps)",
            "twins of the multi-file readers"],
    "C07": [R["memo2"], "decision table of _next_line_token over representative lines (glued punctuation must raise)", "bare numeric tokens (table)"],
    "C09": [R["gen"], "N-Triples token table (blank-node labels with '-' and '.')", "no cross-option flow (R-PLUMB)",
            "merge-stage invariant: order independence with untied counts"],
    "C10": [R["merge"], "the instance pass is never namespace-filtered", "selector table (node, FOCUS patterns, wildcards, `a`, SPARQL, exactly one FOCUS)",
            "mode predicates, annotate_class and integrate_dicts tables"],
    "C11": [R["dir"], R["fresh"], "shape-level SHACL emission row (two class values + a regular constraint)", "merge-stage invariant: direction"],
    "C12": [R["writer"], R["dir"], R["clsiter"], "merge-stage invariants: one constraint per key, figures"],
    "C13": [R["dir"], R["memo2"], "every constructor option reaches every same-name parameter (385 sites, frozen exceptions with reasons)",
            "no cross-option flow", "merge-stage invariants: OR scope, direction"],
    "C14": [R["dir"], R["memo2"], R["gen"], R["clsiter"], "merge-stage invariant: direction (incl. direct-then-inverse on one factory)"],
    "C15": ["one answer per solution on both sides (table)", "the remote-limit / cache / depth options reach both passes (R-PLUMB)"],
    "C16": ["filter-wrap table: one row per graph source", "no cross-option flow (limit_remote_instances never acts as instances_cap)"],
    "C17": ["fold over sequences of instances equals their common prefix (table)", "urn / port stem rows", "detect_minimal_iri / examples_mode reach every consumer (R-PLUMB)"],
    "C18": ["one memo, one computation: every call site launches a memoised stage with the same arguments", R["glob"], R["fresh"], R["writer"]],
    "C19": ["a graph-source parameter carries nothing but the user's value (R-PLUMB exclusive source)"],
    "C20": ["validation idiom recognised in both forms (`not in [..]`, `is not None and not in NAME`)"],
}


EXTRA3 = {
    "C01": ["the datatype of an rdflib literal never derives from its lexical form (R-FLOW)"],
    "C02": ["the user's namespaces win over every other source (R-PRIO)", "the class loop yields one shape per class and _build_shapes keeps every shape (R-LOOP)"],
    "C03": ["the datatype of an rdflib literal never derives from its lexical form (R-FLOW)", "class-iteration agreement"],
    "C04": ["a requested class without instances does not make the min-IRI annotation raise (table)", "raw documents are cut at \\n only",
            "slot / by-name variant calls bind in the configuration they run in (R-SIG)"],
    "C05": ["R-PRIO", "shapes-prefix decision table", "shape labels are injective over class IRIs (table; known finding)"],
    "C06": ["whole-document table through yield_triples (comments, blank lines, escapes, markers inside the lexical form)"],
    "C07": ["whole-document table through yield_triples (abbreviations, line breaks, directive-like prefix labels, @base, bare numbers; out-of-dialect text raises)",
            "raw documents are cut at \\n only"],
    "C09": ["whole-document N-Triples table", "_build_shapes keeps every shape whatever the order (R-LOOP)"],
    "C10": ["R-PRIO", "what a selector returns is a copy of the graph's answers (R-FLOW)"],
    "C12": ["_build_shapes keeps every shape (R-LOOP)"],
    "C13": ["cardinality tuning table at the entry point"],
    "C15": ["a token without corners that is not http(s) is left alone (table)"],
    "C16": ["the list of files reaches the multi-file readers as given and is read front to back (R-FLOW)"],
    "C17": ["fold rows in object mode (any marker), example rendering keeps the value (table), class without instances (table)"],
    "C18": ["launches guarded inside the launch function; buffer threshold recognised in any comparison shape"],
    "C19": ["order escapes through extend / += / writelines", "only the shapes-prefix fallback may reach `random`", "shapes-prefix decision table",
            "whole-graph iteration of an rdflib graph (known finding)", "rdflib_graph carries the user's value only"],
}


def extra(prop):
    xs = list(EXTRA.get(prop) or []) + list(EXTRA3.get(prop) or [])
    return "" if not xs else " Added in session 2: " + "; ".join(xs) + "."


T_ROWS = "each row of a token / selector table is decided exactly; that the row stands for its lexical class is an assumption"
T_MERGE = "merge-stage invariants are decided on 268 abstract runs (4 node kinds x 4 count orders x 3 OR settings x 2 directions); other kind mixes are assumed to behave like these"
TRUSTED = {"C01": [T_ROWS, T_MERGE], "C02": [T_MERGE], "C03": [T_ROWS, T_MERGE], "C04": [T_MERGE], "C06": [T_ROWS], "C07": [T_ROWS], "C09": [T_ROWS, T_MERGE],
           "C10": [T_ROWS], "C11": [T_MERGE], "C12": [T_MERGE], "C13": [T_MERGE], "C14": [T_MERGE], "C17": [T_ROWS],
           "C05": ["the writer protocol is interpreted on 5 symbolic lines with the buffer threshold scaled to 2"],
           "C18": ["the writer protocol is interpreted on 5 symbolic lines with the buffer threshold scaled to 2"]}


def trusted(prop):
    return list(TRUSTED.get(prop, []))
