"""C06 - the N-Triples reader yields exactly the triples of the document.

D-a  language-tag sigil: the predicate that guards the language-tagged branch looks for '@', the branch slices at
     the same character, and a tag after the last quote decides rdf:langString first (R-CONST, contradiction rule);
D-b  R-SENT: every find/rfind result used as an index is compared with -1 or the needle's presence is established
     (4 known findings in the token scanner: no blank before the final dot);
D-c  R-SCOPE: the datatype decision may only look at the part after the closing quote (known findings: substring
     tests over the whole token), with the decision table of decide_literal_type over representative tokens;
D-d  statements of a raw document are separated at '\\n' only; the blank-node and number token scanners are twins.
Undecided: correctness of the quote/escape scanning for every lexical form (value level)."""
from ..report import Floor
from ..rules import scanner, sentinel, twin
from .. import exceptions


def check(ctx, tier):
    obs = []
    obs += ctx.attempt(scanner.lang_sigil, ctx, "D-a", default=[])
    # the data path of an N-Triples document: the line readers, the NT / TSV scanners and the token helpers they hand tokens to
    o_s, n_s = ctx.attempt(sentinel.check, ctx, "D-b", modules=("shexer.io.graph.yielder.nt_", "shexer.io.graph.yielder.tsv_",
                                                                "shexer.io.graph.yielder.multi_", "shexer.io.graph.yielder.base_",
                                                                "shexer.io.line_reader", "shexer.utils.uri", "shexer.utils.triple_yielders"),
                           default=([], 0))
    obs += o_s
    obs += ctx.attempt(scanner.datatype_scope, ctx, "D-c", default=[])
    o_t = ctx.attempt(scanner.literal_type_table, ctx, "D-c", default=[])
    obs += o_t
    obs += ctx.attempt(scanner.line_reader_split, ctx, "D-d", default=[])
    obs += twin.check_pairs(ctx, "D-d", "C06")
    obs += ctx.attempt(scanner.nt_token_table, ctx, "D-e", default=[])
    obs += ctx.attempt(scanner.nt_document_table, ctx, "D-f", default=[])
    exceptions.apply(obs)
    return {"obs": obs, "floors": [Floor("find/rfind sites examined", n_s, 12), Floor("literal datatype table rows", len(o_t), 8)],
            "explanation": "Shape-of-the-code clauses of the hand-written N-Triples scanner: the language-tag sigil is '@' consistently in "
                           "predicate, guarded branch and datatype decision; every str.find/rfind result used as an index is protected by "
                           "a -1 comparison or an established presence (idioms enumerated); the datatype decision is tabulated over "
                           "representative tokens and audited for substring tests over the whole token; statement separation. Correctness "
                           "of the quote/escape scanning for every lexical form is a value-level property and is not decided.",
            "trusted": ["representative tokens in sa/rules/scanner.py LIT_ROWS stand for their lexical classes"]}
