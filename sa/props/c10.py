"""C10 - shapes are computed from exactly the nodes the user selected.

D-a  the configured instantiation property is the only one consulted: the rdf:type constants of the package occur
     only as parameter defaults, as the None-fallback of _decide_instantiation_property and as the expansion of
     the syntactic keyword `a`; every comparison that recognises an instantiation triple / statement uses a value
     that flows from Shaper._instantiation_property;
D-b  plumbing: every function with an instantiation-property parameter receives it at every API-reachable call site;
D-c  siblings: the three annotate_triple copies, the prefix-expansion pair, the instantiation-property normalisers
     agree; a node keeps every class / label it was selected for (append is unconditional); the mixed tracker
     integrates every class of the secondary tracker (total loops);
D-e  selection tables: which tracker / which strategy composition is built for each combination of target arguments.
Undecided: correctness of the string-based selector parsing and of the SPARQL evaluation (rdflib)."""
import ast
from ..core import walk_own, norm, is_self_attr, parent_map, AnalysisError
from ..resolve import bind_args
from ..report import Ob, Floor
from ..rules import twin, count, memo, merge, prio
from ..abseval import Evaluator, Opaque, Sym
from .. import exceptions

RDF_TYPE_IRI = "http://www.w3.org/1999/02/22-rdf-syntax-ns#type"


def rdf_type_constants(ctx):
    """(module, name) of every module constant that folds to the rdf:type IRI (plain, <cornered> or as Property)."""
    out = []
    for m in ctx.p.modules.values():
        for name, expr in m.consts.items():
            try:
                v = ctx.p.fold(m, expr)
            except Exception:
                continue
            if v in (RDF_TYPE_IRI, "<" + RDF_TYPE_IRI + ">") or v == ("Property", RDF_TYPE_IRI):
                out.append((m, name))
    return out


def hardcoded_rdf_type(ctx, clause):
    p = ctx.p
    consts = rdf_type_constants(ctx)
    if len(consts) < 4:
        raise AnalysisError("expected at least 4 rdf:type constants in the package, found %d" % len(consts))
    names = {}
    for m, n in consts:
        names.setdefault(n, set()).add(m.name)
    obs, uses = [], 0
    for f in p.funcs.values():
        default_nodes = {id(x) for d in f.defaults.values() for x in ast.walk(d)}
        pm = None
        for n in walk_own(f.node):
            if not (isinstance(n, ast.Name) and isinstance(n.ctx, ast.Load) and n.id in names):
                continue
            r = p.resolve_name(f.module, n.id)
            if not (r and r[0] == "const" and r[1].name in names[n.id]):
                continue
            if id(n) in default_nodes:
                continue
            uses += 1
            pm = pm or parent_map(f.node)
            ok, why = False, ""
            # (i) None-fallback of a _decide_instantiation_property copy
            cur = n
            while cur in pm:
                cur = pm[cur]
                if isinstance(cur, ast.If):
                    t = f.key(cur.test)           # named constants print as their values
                    if f.name == "_decide_instantiation_property" and ("== None" in t or "is None" in t):
                        ok, why = True, "None-fallback of the configured property"
                    if t in ("token == 'a'", "raw_elem in _RDF_TYPE_CONTRACTED"):
                        ok, why = True, "expansion of the syntactic keyword `a`"
                    break
            if not ok and f.name == "_decide_instantiation_property" and isinstance(pm.get(n), ast.Call) and norm(pm.get(n).func) == "type":
                ok, why = True, "type comparison inside the normaliser"
            obs.append(Ob(clause, "R-CONST", "R-CONST|rdf-type-use|%s|%s" % (f.short, n.id), f.loc(n), ok,
                          "%s uses the rdf:type constant %s as %s" % (f.short, n.id, why) if ok else
                          "%s consults the hard-coded rdf:type constant %s: with a non-default instantiation_property rdf:type "
                          "must be an ordinary property" % (f.short, n.id), note=not ctx.reachable(f)))
    return obs, uses, len(consts)


SITES = [
    ("shexer.core.instances.annotators.strategy_mode.target_classes_mode:TargetClassesMode.is_relevant_triple", "self._instantiation_property"),
    ("shexer.core.instances.annotators.strategy_mode.all_classes_mode:AllClasesMode.is_relevant_triple", "self._instantiation_property"),
    ("shexer.core.instances.annotators.strategy_mode.instance_cap_mode:InstanceCapMode._check_class_counts", "self._instantiation_property"),
    ("shexer.core.instances.instance_tracker:InstanceTracker.is_an_instantiation_prop", "self._instantiation_property"),
    ("shexer.core.profiling.strategy.abstract_feature_direction_strategy:AbstractFeatureDirectionStrategy._infer_valid_cardinalities", "self._class_profiler._instantiation_property_str"),
    ("shexer.core.profiling.strategy.abstract_feature_direction_strategy:AbstractFeatureDirectionStrategy._decide_type_elem", "self._class_profiler._instantiation_property_str"),
    ("shexer.core.shexing.strategy.abstract_shexing_strategy:AbstractShexingStrategy._group_node_constraints", "self._instantiation_property_str"),
    ("shexer.io.shex.formater.statement_serializers.base_statement_serializer:BaseStatementSerializer.str_of_target_element", "self._instantiation_property_str"),
    ("shexer.io.shacl.formater.shacl_serializer:ShaclSerializer._is_instantiation_property", "self._instantiation_property_str"),
    ("shexer.io.shex.formater.shex_serializer:ShexSerializer._add_statement_examples", "self._instantiation_property_str"),
]


def comparison_sites(ctx, clause):
    g, p = ctx.flow, ctx.p
    src = g.field_nodes(p.find_class("Shaper"), "_instantiation_property")
    obs = []
    for q, operand in SITES:
        f = p.funcs.get(q)
        if f is not None:
            cands = [f]
        else:
            # the helper was renamed or folded away: any method of the same class may hold the comparison
            cname = q.split(":")[1].split(".")[0]
            c0 = p.find_class(cname)
            cands = list(c0.methods.values())
            f = c0.methods.get("__init__") or cands[0]
        hit = None
        for fc in cands:
            for c in [x for x in walk_own(fc.node) if isinstance(x, ast.Compare) and isinstance(x.ops[0], (ast.Eq, ast.NotEq))]:
                for o in [c.left] + list(c.comparators):
                    reached, _, _ = g.provenance(g.enode(o), src)
                    if reached:
                        hit = (c, o)
        ok = hit is not None
        obs.append(Ob(clause, "R-FLOW", "R-FLOW|instantiation-comparison|%s" % q.split(":")[1], f.loc(), ok,
                      "%s compares against a value that flows from Shaper._instantiation_property (`%s`)" % (f.short, norm(hit[1]) if hit else "")
                      if ok else "%s no longer compares against the configured instantiation property" % q.split(":")[1]))
    return obs


def plumbing(ctx, clause):
    """Functions with an instantiation-property parameter get it at every reachable call site."""
    p, r, g = ctx.p, ctx.r, ctx.flow
    src = g.field_nodes(p.find_class("Shaper"), "_instantiation_property")
    T = g.flows(src + [g.var(p.func("shexer.shaper:Shaper.__init__"), "instantiation_property")])
    obs, n = [], 0
    for f in p.funcs.values():
        for prm in f.bound_params:
            if not prm.startswith("instantiation_property"):
                continue
            if f.module.name.startswith("shexer.io.uml"):
                continue      # the UML rendering is not part of what C10 observes (labels, headers, figures)
            for cs in r.callers_of.get(f.qual, []):
                if not ctx.reachable(cs.func) or cs.kind == "byname":
                    continue
                n += 1
                b = bind_args(cs.node, f)
                arg = b["bound"].get(prm)
                key = "R-PLUMB|instantiation-property|%s->%s" % (cs.func.short, f.short)
                if arg is None:
                    obs.append(Ob(clause, "R-PLUMB", key, cs.func.loc(cs.node), False,
                                  "%s calls %s without `%s` (default %s): the callee works with rdf:type whatever the user configured" % (
                                      cs.func.short, f.short, prm, norm(f.defaults[prm]) if prm in f.defaults else "?")))
                else:
                    ok = g.expr_tainted(arg, T, deep=False)
                    obs.append(Ob(clause, "R-PLUMB", key, cs.func.loc(cs.node), ok,
                                  "`%s` is supplied from the configured property" % prm if ok else
                                  "`%s=%s` does not originate from Shaper(instantiation_property)" % (prm, norm(arg)[:40])))
    return obs, n


def selection_tables(ctx, clause):
    p = ctx.p
    F = "shexer.utils.factories.instance_tracker_factory:"
    ev = Evaluator(ctx)
    obs, rows = [], 0
    OBJ = Opaque("given")
    f = p.func(F + "_are_there_selectors")
    for a in (None, OBJ):
        for b in (None, OBJ):
            outs = ev.outcomes(f, {"shape_map_file": a, "shape_map_raw": b})
            want = not (a is None and b is None)
            rows += 1
            obs.append(Ob(clause, "R-TABLE", "R-TABLE|_are_there_selectors|%s,%s" % (a is not None, b is not None), f.loc(),
                          outs == [("return", want)], "selectors present (%s, %s) -> %s" % (a is not None, b is not None, want)))
    f = p.func(F + "_are_there_some_target_classes")
    for tc in (None, OBJ):
        for ftc in (None, OBJ):
            for acm in (True, False):
                for sq in (True, False):
                    outs = ev.outcomes(f, {"target_classes": tc, "file_target_classes": ftc, "all_classes_mode": acm, "shape_qualifiers_mode": sq})
                    want = not (tc is None and ftc is None and not acm and not sq)
                    rows += 1
                    obs.append(Ob(clause, "R-TABLE", "R-TABLE|_are_there_some_target_classes|%s,%s,%s,%s" % (tc is not None, ftc is not None, acm, sq),
                                  f.loc(), outs == [("return", want)], "class tracker needed -> %s" % want))
    f = p.func(F + "_decide_tracker_to_return")
    SEL, CLS = Opaque("selectors tracker"), Opaque("class tracker")
    for s in (None, SEL):
        for c in (None, CLS):
            outs = ev.outcomes(f, {"selectors_tracker": s, "pure_instances_tracker": c})
            rows += 1
            if s is not None and c is not None:
                ok = len(outs) == 1 and outs[0][0] == "return" and "MixedInstanceTracker" in str(outs[0][1]) \
                    and "selectors tracker" in str(outs[0][1]) and "class tracker" in str(outs[0][1])
                want = "MixedInstanceTracker over both"
            else:
                want = s if s is not None else c
                ok = outs == [("return", want)]
            obs.append(Ob(clause, "R-TABLE", "R-TABLE|_decide_tracker_to_return|%s,%s" % (s is not None, c is not None), f.loc(), bool(ok),
                          "trackers (selectors=%s, classes=%s) -> %s" % (s is not None, c is not None, want) if ok else
                          "expected %s, code gives %s" % (want, outs)))
    # strategy composition of the annotator
    f = p.method("BaseAnnotator", "_get_proper_strategy")
    N = Sym("n", int, {0: ">"})
    for acm in (True, False):
        for tcs in (None, ("C1", "C2")):
            for sq in (True, False):
                for cap in (-1, Sym("cap", int, {0: ">"})):
                    env = {"self._all_classes_mode": acm, "self._target_classes": tcs, "self._shape_qualifiers_mode": sq,
                           "self._instances_cap": cap, "self._namespaces_for_qualifiers_props": (), "self._shapes_namespace": "ns",
                           "self": Opaque("annotator")}
                    outs = ev.outcomes(f, {}, env)
                    rows += 1
                    modes = [m for m, on in (("AllClasesMode", acm), ("TargetClassesMode", tcs is not None), ("ShapeQualifiersMode", sq)) if on]
                    txt = str(outs)
                    if not modes:
                        ok = outs == [("raise", "ValueError")]
                        want = "ValueError"
                    else:
                        present = all(m in txt for m in modes) and all(m not in txt for m in ("AllClasesMode", "TargetClassesMode", "ShapeQualifiersMode") if m not in modes)
                        compound = ("CompoundStrategyMode" in txt) == (len(modes) > 1)
                        capped = ("InstanceCapMode" in txt) == (not isinstance(cap, int))
                        stop = True
                        if not isinstance(cap, int):
                            only_targets = modes == ["TargetClassesMode"]
                            stop = ("('n_target_classes', 2)" in txt) == only_targets and ("('n_target_classes', -1)" in txt) == (not only_targets)
                        ok = len(outs) == 1 and outs[0][0] == "return" and present and compound and capped and stop
                        want = "%s%s%s" % ("+".join(modes), " in CompoundStrategyMode" if len(modes) > 1 else "", " under InstanceCapMode" if not isinstance(cap, int) else "")
                    obs.append(Ob(clause, "R-TABLE", "R-TABLE|_get_proper_strategy|all=%s,targets=%s,qualifiers=%s,cap=%s" % (acm, tcs is not None, sq, cap),
                                  f.loc(), bool(ok), "strategy composition -> %s" % want if ok else "expected %s, code gives %s" % (want, txt[:300])))
    return obs, rows


SEL_PREFIXES = {"ex": "http://example.org/", "": "http://default.org/"}        # the default (empty) prefix is a prefix like any other
RDF_TYPE_C = "<" + RDF_TYPE_IRI + ">"
# raw selector -> ("node", IRI) | ("pattern", [subject, predicate, object], variable) | "raise"
SELECTOR_ROWS = [
    ("<http://example.org/n1>", ("node", "http://example.org/n1")),
    ("ex:n1", ("node", "http://example.org/n1")),
    (":n2", ("node", "http://default.org/n2")),
    ("{FOCUS :p _}", ("pattern", ["?f", "<http://default.org/p>", "?x"], "f")),
    ("{FOCUS a ex:C}", ("pattern", ["?f", RDF_TYPE_C, "<http://example.org/C>"], "f")),
    ("{FOCUS ex:p _}", ("pattern", ["?f", "<http://example.org/p>", "?x"], "f")),
    ("{_ ex:p FOCUS}", ("pattern", ["?x", "<http://example.org/p>", "?f"], "f")),
    ("{ex:s <http://example.org/p> focus}", ("pattern", ["<http://example.org/s>", "<http://example.org/p>", "?f"], "f")),
    ("{FOCUS   ex:p   ex:o}", ("pattern", ["?f", "<http://example.org/p>", "<http://example.org/o>"], "f")),
    ("{FOCUS ex:p FOCUS}", "raise"),
    ("{_ ex:p _}", "raise"),
    ("{FOCUS ex:p}", "raise"),
    ("{FOCUS unknown:p _}", "raise"),
    ('SPARQL "select ?n where {?n a ex:C}"', ("sparql", "select ?n where {?n a ex:C}", "n")),
    ("SPARQL 'SELECT ?node WHERE { ?node ex:p ?o }'", ("sparql", "SELECT ?node WHERE { ?node ex:p ?o }", "node")),
    ("SPARQL select ?n where {?n a ex:C}", "raise"),
    ('SPARQL "select ?a ?b where {?a ex:p ?b}"', "raise"),
    ('SPARQL "ask {?n a ex:C}"', "raise"),
]


def selector_table(ctx, clause):
    """What a node selector denotes: a single node (full or prefixed IRI) or the nodes matching a {FOCUS p o} / {s p FOCUS}
    pattern with '_' wildcards and 'a'; exactly one FOCUS.  Decision table of NodeSelectorParser.parse_node_selector over
    representative selectors; for patterns the WHERE clause of the generated query is compared token by token."""
    import re as _re
    from ..abseval import Distinct
    p = ctx.p
    f = p.method("NodeSelectorParser", "parse_node_selector")
    G = Distinct("sgraph")
    obs = []
    for raw, want in SELECTOR_ROWS:
        ev = Evaluator(ctx, max_depth=10)
        outs = ev.outcomes(f, {"raw_selector": raw}, {"self._prefix_namespace_dict": dict(SEL_PREFIXES), "self._sgraph": G})
        got = None
        if len(outs) == 1 and outs[0][0] == "raise":
            got = "raise" if outs[0][1] == "ValueError" else ("raises", outs[0][1])
        elif len(outs) == 1 and outs[0][0] == "return" and isinstance(outs[0][1], tuple) and outs[0][1][0] == "new":
            _, cname, a, kw = outs[0][1]
            kw = dict(kw)
            if cname == "NodeSelectorNoSparql":
                got = ("node", kw.get("target_node"))
            elif cname == "NodeSelectorSparql" and isinstance(kw.get("sparql_query_selector"), str) and isinstance(want, tuple) and want[0] == "sparql":
                q = kw["sparql_query_selector"]
                got = ("sparql", want[1] if q.endswith(want[1]) and all(("PREFIX %s: <%s>" % kv) in q for kv in SEL_PREFIXES.items()) else q,
                       kw.get("id_variable_query"))
            elif cname == "NodeSelectorSparql" and isinstance(kw.get("sparql_query_selector"), str):
                q = kw["sparql_query_selector"]
                m = _re.search(r"SELECT\s+(\?\w+)\s+WHERE\s*\{(.*?)\.?\s*\}", q, _re.S)
                if m:
                    got = ("pattern", m.group(2).split(), kw.get("id_variable_query"))
                    if m.group(1) != "?" + str(kw.get("id_variable_query")) or not all(("PREFIX %s: <%s>" % kv) in q for kv in SEL_PREFIXES.items()):
                        got = ("pattern with a wrong projection or prefix header", q)
            if kw.get("sgraph") is not G:
                got = ("selector not bound to the graph", kw.get("sgraph"))
        ok = got == want
        obs.append(Ob(clause, "R-TABLE", "R-TABLE|node-selector|%s" % raw, f.loc(), ok,
                      "selector %s -> %s" % (raw, want if want == "raise" else want[:2]) if ok else
                      "selector %s: expected %s, code gives %s" % (raw, want, got if got is not None else outs)))
    return obs


def target_classes_file_table(ctx, clause):
    """file_target_classes: one class per line; surrounding blanks and empty lines are not part of a class name, corners and
    prefixes are resolved like those of the target_classes list.  The reader is interpreted over a small document."""
    from ..abseval import freeze
    p = ctx.p
    f = p.func("shexer.utils.factories.triple_yielders_factory:read_target_classes_from_file")
    doc = ["http://e/A\n", "  http://e/B \t\n", "\n", "   \n", "<http://e/C>\n", "ex:D\r\n", "http://e/E"]
    want = ["http://e/A", "http://e/B", "http://e/C", "http://ex/D", "http://e/E"]
    ev = Evaluator(ctx, max_depth=8)
    ev.initial_files = {freeze("classes.txt"): doc}
    outs = ev.outcomes(f, {f.bound_params[0]: "classes.txt", f.bound_params[1]: {"ex": "http://ex/"}})
    ok = outs == [("return", want)]
    return [Ob(clause, "R-TABLE", "R-TABLE|target-classes-file", f.loc(), ok,
               "a target-classes file yields its class names without surrounding blanks, empty lines skipped" if ok else
               "target-classes file %r: expected %s, code gives %s - a class name that keeps its blanks matches nothing in the graph "
               "and silently gets no shape" % ("".join(doc), want, outs))]


def answers_unfiltered(ctx, clause):
    """The nodes behind a SPARQL / FOCUS selector are the answers of its query: what get_target_nodes returns is (a copy
    of) what the graph's query_single_variable returned - no filtering, re-typing or re-ordering step in between."""
    g, p = ctx.flow, ctx.p
    sel = p.method("NodeSelectorSparql", "get_target_nodes")
    srcs = [g.ret(m) for c in p.classes.values() for name, m in c.methods.items() if name == "query_single_variable"
            and not (len(m.node.body) == 1 and isinstance(m.node.body[0], ast.Raise))]
    back = g.back([g.ret(sel)], labels=("copy",))
    ok = any(s in back for s in srcs)
    return [Ob(clause, "R-FLOW", "R-FLOW|selector-answers-unfiltered", sel.loc(), ok,
               "NodeSelectorSparql.get_target_nodes returns the answers of query_single_variable as they are" if ok else
               "what NodeSelectorSparql.get_target_nodes returns is no longer (a copy of) the answers of query_single_variable: a step in "
               "between filters, rewrites or rebuilds the list, so the nodes behind the shape are not exactly the answers of the selector")]


def tracker_tables(ctx, clause):
    """The instance tracker's own decisions: which triples declare an instance (mode predicates), what a declaration
    records (node -> class appended), and how the mixed tracker integrates a secondary tracker's dictionary."""
    from ..abseval import Distinct
    p = ctx.p
    obs = []
    INST, OTHER = Distinct("instantiation-property"), Distinct("other-property")
    C, D = Distinct("class-C"), Distinct("class-D")
    S = {"iri": "http://e/s"}
    for cname, targets in (("TargetClassesMode", [C]), ("AllClasesMode", None)):
        f = p.method(cname, "is_relevant_triple")
        for prop, obj, label in ((INST, C, "instantiation triple of a target class"), (INST, D, "instantiation triple of another class"),
                                 (OTHER, C, "other property")):
            ev = Evaluator(ctx)
            env = {"self._instantiation_property": INST}
            if targets is not None:
                env["self._target_classes"] = list(targets)
            outs = ev.outcomes(f, {"a_triple": (S, prop, obj)}, env)
            want = (prop is INST) and (targets is None or obj in targets)
            ok = outs == [("return", want)]
            obs.append(Ob(clause, "R-TABLE", "R-TABLE|mode-predicate|%s|%s" % (cname, label), f.loc(), ok,
                          "%s: %s -> %s" % (cname, label, "relevant" if want else "ignored") if ok else
                          "%s: %s: expected %s, code gives %s" % (cname, label, want, outs)))
    f = p.method("BaseStrategyMode", "annotate_class")
    ev = Evaluator(ctx)
    d = {"http://e/s": ["http://e/A"]}
    outs = ev.outcomes(f, {"a_triple": ({"iri": "http://e/s"}, INST, {"iri": "http://e/B"})}, {"self._instances_dict": d})
    got = ev.finals[0][1].get("self._instances_dict") if outs and ev.finals else None
    ok = got == {"http://e/s": ["http://e/A", "http://e/B"]}
    obs.append(Ob(clause, "R-TABLE", "R-TABLE|annotate-class", f.loc(), ok,
                  "a declaration appends the class to the node's list: %s" % got if ok else
                  "declaring http://e/s an instance of http://e/B: expected {s: [A, B]}, code leaves %s (%s)" % (got, outs)))
    f = p.method("MixedInstanceTracker", "_integrate_dicts")
    ev = Evaluator(ctx)
    ref = {"n1": ["A"], "n3": ["Z"]}
    new = {"n1": ["B"], "n2": ["A", "C"]}
    outs = ev.outcomes(f, {"reference_dict": ref, "new_dict": new, "new_tracker": {"disambiguator_prefix": "P_"}})
    got = ev.finals[0][0].get("reference_dict") if outs and ev.finals else None
    want = {"n1": ["A", "B"], "n3": ["Z"], "n2": ["P_A", "C"]}
    ok = got == want
    obs.append(Ob(clause, "R-TABLE", "R-TABLE|integrate-dicts", f.loc(), ok,
                  "the secondary tracker's labels are added to what the reference tracker knows; an ambiguous label gets the prefix" if ok else
                  "integrating {n1:[B], n2:[A,C]} into {n1:[A], n3:[Z]}: expected %s, code gives %s (%s)" % (want, got, [o[0] for o in outs])))
    return obs


def check(ctx, tier):
    obs = []
    o_rt, n_uses, n_consts = ctx.attempt(hardcoded_rdf_type, ctx, "D-a", default=([], 0, 0))
    obs += o_rt
    obs += ctx.attempt(comparison_sites, ctx, "D-a", default=[])
    o_pl, n_pl = ctx.attempt(plumbing, ctx, "D-b", default=([], 0))
    obs += o_pl
    obs += twin.check_pairs(ctx, "D-c", "C10")
    o_disc, counts, writes = count.discipline(ctx, "D-c")
    obs += [o for o in o_disc if "_instances_dict" in o.key]
    o_loops, n_loops = count.accumulation_loops_total(ctx, "D-c", writes)
    obs += [o for o in o_loops if "core.instances" in o.loc.replace("/", ".")]
    o_tab, rows = ctx.attempt(selection_tables, ctx, "D-e", default=([], 0))
    obs += o_tab
    # the selector / shape-map parsers cut their input with find(): an unchecked -1 selects the wrong variable or node
    from ..rules import sentinel
    o_sent, _n_sent = ctx.attempt(sentinel.check, ctx, "D-j", modules=("shexer.io.shape_map",), default=([], 0))
    obs += o_sent
    obs += ctx.attempt(lambda c, cl: merge.check(c, cl)[0], ctx, "D-f", default=[])
    from .c16 import filter_placement          # (c16 imports this module: late import)
    obs += [o for o in ctx.attempt(filter_placement, ctx, "D-g", default=[]) if o.key.endswith("instance-pass")]
    obs += ctx.attempt(selector_table, ctx, "D-h", default=[])
    obs += ctx.attempt(answers_unfiltered, ctx, "D-h", default=[])
    obs += ctx.attempt(target_classes_file_table, ctx, "D-h", default=[])
    obs += ctx.attempt(tracker_tables, ctx, "D-i", default=[])
    obs += ctx.attempt(lambda c, cl: prio.check(c, cl)[0], ctx, "D-j", default=[])
    from ..rules import plumb as _plumb
    obs += ctx.attempt(_plumb.namespace_orientation, ctx, "D-k", default=[])
    exceptions.apply(obs)
    floors = [Floor("rdf:type constants in the package", n_consts, 4), Floor("uses of rdf:type constants outside defaults", n_uses, 4),
              Floor("instantiation-property call sites", n_pl, 10), Floor("selection table rows", rows, 40)]
    return {"obs": obs, "floors": floors,
            "explanation": "The configured instantiation property is the only one consulted (who-may-use audit of the rdf:type constants, "
                           "provenance of the operand at the ten recognition sites, forwarding at every call site); nodes keep every "
                           "class / label they were selected for; tracker and strategy selection tables extracted by abstract evaluation "
                           "and compared with the property statement; sibling agreement of the annotate_triple copies and the prefix "
                           "expansion pair. The string-based selector parsing and the SPARQL evaluation are not decided.",
            "trusted": ["rdflib evaluates SPARQL selectors correctly", "twin role maps"]}
