"""C16 - restriction options equal restricting the input.

D-a  instance cap: an instantiation triple is accepted while count < cap, the class is complete at count == cap,
     the counter is incremented exactly once per accepted triple (decision tables); the early-stop variant equals
     the plain one plus the stop tail and is bound only when the target-classes strategy is the only one (twins +
     strategy table shared with C10);
D-b  filter placement: namespaces_to_ignore reaches the triple yielder of the feature pass only; the instance pass
     never receives it (class membership is read from the full graph);
D-c  direct-child predicate: a predicate is ignored iff it starts with one of the namespaces and the remainder has no
     '/' and no '#', whatever the order of the namespaces (decision table).
Undecided: equality of complete outputs with extraction from the restricted document (a relation between two runs)."""
import ast
from ..core import walk_own, norm
from ..core import AnalysisError
from ..report import Ob, Floor
from ..rules import twin, plumb
from ..abseval import Evaluator, Opaque
from .. import exceptions
from .c10 import selection_tables

ICM = "shexer.core.instances.annotators.strategy_mode.instance_cap_mode:InstanceCapMode."
P = "http://www.w3.org/1999/02/22-rdf-syntax-ns#type"


def cap_tables(ctx, clause):
    """The capped tracker, constructed and driven through its public methods (is_relevant_triple, then annotate_triple) over
    sequences of triples, for several caps and numbers of target classes; every step is held against the statement of the
    option: the first `cap` instances of a class are taken, later ones are refused, other predicates are never refused, and
    with a known number of target classes the pass stops exactly when the last of them is full.  Nothing here depends on how
    the tracker names or organises its counters."""
    from ..abseval import Raised, Fork
    p = ctx.p
    cls = p.find_class("InstanceCapMode")
    init = cls.find_method("__init__")
    OTHER = "http://e/p"
    SEQS = [[("s1", P, "C"), ("s2", P, "C"), ("s3", P, "C"), ("s1", OTHER, "x"), ("s4", P, "D"), ("s5", P, "D"), ("s6", P, "D"), ("s7", P, "C")],
            [("s1", P, "C"), ("s2", P, "D"), ("s1", P, "D"), ("s3", P, "C"), ("s4", P, "E"), ("s5", P, "D"), ("s6", P, "E"), ("s7", P, "E")]]
    obs, rows = [], 0
    for cap in (1, 2, 3):
        for n_targets in (-1, 1, 2, 3):
            for si, seq in enumerate(SEQS):
                ev = Evaluator(ctx, max_depth=10)
                ev.concrete_classes = {"InstanceCapMode"}
                ev._yields = []
                insts = {}

                def is_inst(rec, args, kws):
                    return (args[0] if args else list(kws.values())[0]) == P
                is_inst.wants_args = True

                def add_inst(rec, args, kws, insts=insts):
                    t = args[0] if args else list(kws.values())[0]
                    insts.setdefault(t[0]["iri"], [])
                add_inst.wants_args = True

                def yes(rec, args, kws):
                    return True
                yes.wants_args = True
                ann = {"_instantiation_property": P, "_instances_dict": insts, "_instance_tracker": {"is_an_instantiation_prop()": is_inst},
                       "add_instance_to_instances_dict()": add_inst}
                kws = {"annotator_ref": ann, "internal_strategy": {"is_relevant_triple()": yes}, "instance_limit": cap, "n_target_classes": n_targets}
                obj = ev.new(cls, **{k: v for k, v in kws.items() if k in init.params})
                # reference model of the option
                counts, full, want, want_insts, stopped = {}, 0, [], {}, False
                for s_, pr, c in seq:
                    if pr != P:
                        want.append("relevant")
                        continue
                    if counts.get(c, 0) >= cap:
                        want.append("refused")
                        continue
                    want_insts.setdefault(s_, []).append(c)
                    counts[c] = counts.get(c, 0) + 1
                    if n_targets > 0 and counts[c] == cap:
                        full += 1
                    if n_targets > 0 and full == n_targets:
                        want.append("taken, pass stops")
                        stopped = True
                        break
                    want.append("taken")
                got = []
                try:
                    for s_, pr, c in seq:
                        t = ({"iri": s_}, pr, {"iri": c})
                        ev._decisions, ev._taken, ev.effects = [], [], []
                        rel = ev.invoke(obj, "is_relevant_triple", [t], {}, 0)
                        if rel is not True:
                            got.append("refused" if rel is False else repr(rel)[:30])
                            continue
                        try:
                            ev.invoke(obj, "annotate_triple", [t], {}, 0)
                        except Raised as r_:
                            got.append("taken, pass stops" if r_.exc == "InstancesCapException" else "raises " + r_.exc)
                            break
                        got.append("taken" if pr == P else "relevant")
                except Fork:
                    raise AnalysisError("the capped tracker consults a value the table does not fix")
                rows += len(got)
                got_insts = {k: list(v) for k, v in (obj.fields.get("_instances_dict") or {}).items() if v}
                ok = got == want and got_insts == want_insts
                steps = ", ".join("%s %s" % (x[0], "a " + x[2] if x[1] == P else "other-predicate") for x in seq)
                obs.append(Ob(clause, "R-TABLE", "R-TABLE|cap-sequence|cap=%d,targets=%d,seq=%d" % (cap, n_targets, si), init.loc(), ok,
                              "cap %d, %s target classes: %s" % (cap, n_targets if n_targets > 0 else "unknown number of", "; ".join(want)) if ok else
                              "cap %d, %s target classes, triples [%s]: expected [%s] with classes %s, the tracker does [%s] with classes %s" % (
                                  cap, n_targets if n_targets > 0 else "unknown number of", steps, "; ".join(want), want_insts, "; ".join(got), got_insts)))
    return obs, rows


def cap_slot_binding(ctx, clause):
    """Which annotate_class variant a capped tracker runs, decided by constructing it (interpreted) for several numbers of
    target classes: the early-stop variant iff the number of target classes is known (> 0)."""
    from ..abseval import Opaque
    cls = ctx.p.find_class("InstanceCapMode")
    stop = ctx.p.func(ICM + "_annotate_class_with_stop_condition")
    nostop = ctx.p.func(ICM + "_annotate_class_with_no_stop_condition")
    obs = []
    for n in (-1, 0, 1, 5):
        ev = Evaluator(ctx)
        ev.concrete_classes = {"InstanceCapMode"}
        ann = {"_instantiation_property": P, "_instances_dict": {}, "_instance_tracker": Opaque("tracker")}
        init = cls.find_method("__init__")
        kws = {"annotator_ref": ann, "internal_strategy": Opaque("inner"), "instance_limit": 3, "n_target_classes": n}
        kws = {k: v for k, v in kws.items() if k in init.params}
        obj = ev.new(cls, **kws)
        got = obj.fields.get("annotate_class")
        got_f = got[2] if isinstance(got, tuple) and len(got) == 3 and got[0] == "bound" else None
        want = stop if n > 0 else nostop
        ok = got_f is want
        obs.append(Ob(clause, "R-TABLE", "R-TABLE|cap-slot-binding|n_target_classes=%d" % n, init.loc(), ok,
                      "%d target classes -> %s" % (n, want.name) if ok else
                      "%d target classes: expected the %s variant, the constructor binds %s" % (
                          n, "early-stop" if n > 0 else "no-stop", got_f.name if got_f is not None else repr(got)[:60])))
    return obs


class _Rec(dict):
    """instances_dict[s] : records append() through the watch list."""
    def __init__(self):
        super().__init__({"append()": None})


def filter_placement(ctx, clause):
    g, p = ctx.flow, ctx.p
    init = p.func("shexer.shaper:Shaper.__init__")
    T = g.flows([g.var(init, "namespaces_to_ignore")], labels=("copy",))
    obs = []
    prof = p.func("shexer.utils.factories.class_profiler_factory:get_class_profiler")
    inst = p.func("shexer.utils.factories.instance_tracker_factory:get_instance_tracker")
    ok = g.var(prof, "namespaces_to_ignore") in T
    obs.append(Ob(clause, "R-PLUMB", "R-PLUMB|namespaces_to_ignore|feature-pass", prof.loc(), ok,
                  "namespaces_to_ignore reaches the feature pass (get_class_profiler)" if ok else
                  "namespaces_to_ignore no longer reaches get_class_profiler: the option has no effect"))
    bad = g.var(inst, "namespaces_to_ignore") in T
    obs.append(Ob(clause, "R-PLUMB", "R-PLUMB|namespaces_to_ignore|instance-pass", inst.loc(), not bad,
                  "the instance pass never receives namespaces_to_ignore: class membership is read from the full graph" if not bad else
                  "namespaces_to_ignore is forwarded to get_instance_tracker: instantiation triples whose predicate lies in an ignored "
                  "namespace are no longer seen, so class membership is not read from the full graph"))
    filt = p.find_class("FilterNamespacesTriplesYielder")
    init_f = filt.find_method("__init__")
    if init_f is None:
        raise AnalysisError("FilterNamespacesTriplesYielder.__init__ vanished")
    ok = g.var(init_f, "namespaces_to_ignore") in T
    obs.append(Ob(clause, "R-PLUMB", "R-PLUMB|namespaces_to_ignore|filter", init_f.loc(), ok,
                  "the value reaches FilterNamespacesTriplesYielder"))
    # the filter wraps the yielder and lets a triple pass iff its predicate is not a direct child of an ignored namespace:
    # yield_triples interpreted over an inner reader that hands out one triple of each kind (whatever helpers the class has)
    yt = filt.find_method("yield_triples")
    if yt is None:
        raise AnalysisError("FilterNamespacesTriplesYielder.yield_triples vanished")
    ev = Evaluator(ctx, max_depth=10)
    t_in, t_out, t_deep = ("s", "http://ignored.org/p", "o"), ("s", "http://kept.org/p", "o"), ("s", "http://ignored.org/deeper/p", "o")
    from ..rules.writer import _init_env
    t_hash_in, t_hash_deep = ("s", "http://ignored.org/q", "o"), ("s", "http://ignored.org/voc#q", "o")
    triples = [t_in, t_out, t_deep, t_hash_deep, t_hash_in]
    init_args = {"actual_triple_yielder": {"yield_triples()": triples}, "namespaces_to_ignore": ["http://ignored.org/"]}
    env = _init_env(ev, filt, {k: v for k, v in init_args.items() if k in init_f.params})      # whatever fields the constructor sets
    outs = ev.outcomes(yt, {}, env)
    got = [tuple(x) for x in outs[0][1]] if len(outs) == 1 and outs[0][0] == "return" and isinstance(outs[0][1], (list, tuple)) else None
    ok = got == [t_out, t_deep, t_hash_deep]
    obs.append(Ob(clause, "R-PLUMB", "R-PLUMB|namespaces_to_ignore|filter-polarity", yt.loc(), ok,
                  "a triple passes the filter iff its predicate is not a direct child of an ignored namespace" if ok else
                  "filter over (direct child, other namespace, one level deeper, deeper hash vocabulary, direct child again) lets pass %s, "
                  "expected the 2nd, 3rd and 4th" % (got if got is not None else outs,)))
    return obs


def filter_wrap_table(ctx, clause):
    """Whatever the source of the graph, get_triple_yielder hands back the reader wrapped in the namespace filter when
    namespaces_to_ignore is given, and the bare reader when it is not.  One row per source branch, by abstract evaluation
    with the reader builders kept symbolic."""
    from ..abseval import Evaluator, Distinct, Opaque, Raised
    p = ctx.p
    f = p.func("shexer.utils.factories.triple_yielders_factory:get_triple_yielder")
    NS = Distinct("namespaces-to-ignore")
    rows = [("url_endpoint", {"url_endpoint": Distinct("endpoint")}),
            ("url_input", {"url_input": Distinct("url")}),
            ("list_of_url_input", {"list_of_url_input": (Distinct("url"),)}),
            ("rdflib_graph", {"rdflib_graph": Distinct("graph-object")}),
            ("nt file", {"source_file": Distinct("file"), "input_format": p.const("shexer.consts", "NT")}),
            ("tsv file", {"source_file": Distinct("file"), "input_format": p.const("shexer.consts", "TSV_SPO")}),
            ("turtle_iter raw", {"raw_graph": Distinct("text"), "input_format": p.const("shexer.consts", "TURTLE_ITER")}),
            ("turtle file", {"source_file": Distinct("file"), "input_format": p.const("shexer.consts", "TURTLE")}),
            ("rdf/xml files", {"list_of_source_files": (Distinct("f1"), Distinct("f2")), "input_format": p.const("shexer.consts", "RDF_XML")})]
    obs, n = [], 0
    for label, kw in rows:
        for ns in (NS, None):
            ev = Evaluator(ctx, max_depth=6)
            # the per-source reader builders stay symbolic; any other helper of the factory is interpreted
            ev.symbolic = {t.name for t in p.funcs.values() if t.module is f.module and
                           (t.name.startswith("_yielder_for") or t.name.startswith("_get_base_zip"))}
            args = {prm: None for prm in f.bound_params if prm not in f.defaults}
            args.update(kw)
            args["namespaces_to_ignore"] = ns
            outs = ev.outcomes(f, args)
            n += 1

            def wrapped(v):
                return isinstance(v, tuple) and len(v) == 4 and v[0] == "new" and v[1] == "FilterNamespacesTriplesYielder" and \
                    any(x is NS or (isinstance(x, tuple) and NS in x) for x in list(v[2]) + [b for _, b in v[3]])
            if ns is None:
                ok = len(outs) == 1 and outs[0][0] == "return" and not wrapped(outs[0][1]) and outs[0][1] is not None
                want = "the bare reader"
            else:
                ok = len(outs) == 1 and outs[0][0] == "return" and wrapped(outs[0][1])
                want = "the reader wrapped in FilterNamespacesTriplesYielder(namespaces_to_ignore)"
            obs.append(Ob(clause, "R-TABLE", "R-TABLE|filter-wrap|%s|%s" % (label, "ignore" if ns is not None else "none"), f.loc(), ok,
                          "%s, namespaces_to_ignore %s -> %s" % (label, "given" if ns is not None else "absent", want) if ok else
                          "%s with namespaces_to_ignore %s: expected %s, code gives %s" % (
                              label, "given" if ns is not None else "absent", want, [(o[0], str(o[1])[:90]) for o in outs])))
    return obs, n


def file_list_order(ctx, clause):
    """Document order of a multi-file input is the order of the list the user gave: the list reaches the multi-file readers
    as it is (copy edges only - no sorting, de-duplication or rebuilding on the way), and they read it front to back."""
    g, p = ctx.flow, ctx.p
    src = g.param("shexer.shaper:Shaper.__init__", "graph_list_of_files_input")
    T = g.flows([src], labels=("copy",))
    base = p.find_class("MultifileBaseTripleYielder")
    init = base.find_method("__init__")
    prm = [x for x in init.bound_params if "list" in x or "files" in x]
    ok = bool(prm) and g.var(init, prm[0]) in T
    obs = [Ob(clause, "R-FLOW", "R-FLOW|file-list-as-given", init.loc(), ok,
              "graph_list_of_files_input reaches MultifileBaseTripleYielder(%s) unchanged" % (prm[0] if prm else "?") if ok else
              "graph_list_of_files_input no longer reaches MultifileBaseTripleYielder as given (a step in between rebuilds, sorts or filters the "
              "list): the order of the files - the document order that instances_cap counts in - is not the user's any more")]
    y = base.find_method("yield_triples")
    loops_ = [x for x in walk_own(y.node) if isinstance(x, ast.For)]
    ok2 = bool(loops_) and any(is_field_load(l.iter) for l in loops_)
    obs.append(Ob(clause, "R-FLOW", "R-FLOW|file-list-read-in-order", y.loc(), ok2,
                  "the multi-file reader iterates its list of files front to back" if ok2 else
                  "the multi-file reader no longer iterates its stored list of files directly"))
    return obs


def is_field_load(e):
    return isinstance(e, ast.Attribute) and isinstance(e.value, ast.Name) and e.value.id == "self"


def direct_child_table(ctx, clause):
    f = ctx.p.func("shexer.utils.triple_yielders:check_if_property_belongs_to_namespace_list")
    ev = Evaluator(ctx)
    obs, rows = [], 0
    cases = [("http://e/p", ["http://e/"], True), ("http://e/props/p", ["http://e/"], False),
             ("http://e/props/p", ["http://e/", "http://e/props/"], True), ("http://e/props/p", ["http://e/props/", "http://e/"], True),
             ("http://e/p", ["http://e/props/", "http://e/"], True), ("http://e/v#p", ["http://e/"], False),
             ("http://e/v#p", ["http://e/v#"], True), ("http://other/p", ["http://e/"], False), ("http://e/p", [], False),
             ("http://e/a/b/c", ["http://e/", "http://e/a/"], False)]
    for prop, nss, want in cases:
        outs = ev.outcomes(f, {"str_prop": prop, "namespaces": nss})
        rows += 1
        ok = outs == [("return", want)]
        obs.append(Ob(clause, "R-TABLE", "R-TABLE|direct-child|%s|%s" % (prop, ",".join(nss)), f.loc(), ok,
                      "%s in %s -> %s" % (prop, nss, want) if ok else "expected %s, code gives %s" % (want, outs)))
    return obs, rows


def check(ctx, tier):
    obs = []
    o_cap, r1 = ctx.attempt(cap_tables, ctx, "D-a", default=([], 0))
    obs += o_cap
    obs += twin.check_pairs(ctx, "D-a", "C16")
    o_sel, r0 = ctx.attempt(selection_tables, ctx, "D-a", default=([], 0))
    obs += [o for o in o_sel if "_get_proper_strategy" in o.key]
    obs += ctx.attempt(cap_slot_binding, ctx, "D-a", default=[])
    obs += ctx.attempt(filter_placement, ctx, "D-b", default=[])
    obs += ctx.attempt(file_list_order, ctx, "D-a", default=[])
    o_fw, r3 = ctx.attempt(filter_wrap_table, ctx, "D-b", default=([], 0))
    obs += o_fw
    o_dc, r2 = ctx.attempt(direct_child_table, ctx, "D-c", default=([], 0))
    obs += o_dc
    obs += ctx.attempt(lambda c, cl: plumb.no_cross_option_flow(c, cl)[0], ctx, "D-e", default=[])
    exceptions.apply(obs)
    return {"obs": obs, "floors": [Floor("cap table rows", r1, 12), Floor("direct-child table rows", r2, 8)],
            "explanation": "Decision tables of the cap acceptance test (count < cap), of both counting variants (one increment and one "
                           "class append per accepted triple, completion at count == cap, stop when every target class is complete), of "
                           "the strategy composition and of the direct-child namespace predicate, all extracted by abstract evaluation; "
                           "value-flow proof that namespaces_to_ignore reaches the feature pass only; twins of the cap variants. Equality "
                           "of complete outputs with the restricted document is a relation between two runs and is not decided.",
            "trusted": ["boundary classes of the counters are represented by the concrete values 2, 3, 4 against the cap 3"]}
