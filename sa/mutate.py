"""AST-computed single-edit variants of the functions a property is anchored in (thorough tier only).

Operators: CMP (neighbouring comparison operator), NEG (negated condition), CONST (0<->1, constant string
swapped with a sibling constant of the same container), DELCALL (an expression-statement call replaced by pass),
DROPKW (a keyword argument whose parameter has a default is no longer passed), BREAK (break appended to a loop
body), SWAPARMS (the two arms of a conditional expression exchanged).
The variants say something about the checker (which single edits it notices), not about /repo: survivors are
listed in the evidence and never change the exit code.  Many survivors are equivalent or irrelevant edits."""
import ast
import copy
import json
import os
import random
import re

from .core import Program, walk_own
from .report import VERIF

CMP_NEXT = {ast.GtE: ast.Gt, ast.Gt: ast.GtE, ast.LtE: ast.Lt, ast.Lt: ast.LtE, ast.Eq: ast.NotEq, ast.NotEq: ast.Eq,
            ast.In: ast.NotIn, ast.NotIn: ast.In, ast.Is: ast.IsNot, ast.IsNot: ast.Is}


def anchor_functions(prog, prop):
    """Functions named in the property's anchors (mechanism / state 'where' fields) that exist in the tree."""
    rec = None
    with open(os.path.join(VERIF, "properties.jsonl")) as fh:
        for line in fh:
            r = json.loads(line)
            if r["id"] == prop:
                rec = r
    if rec is None:
        return []
    text = " ".join(m.get("where", "") for m in rec["anchors"].get("mechanism", [])) + " " + \
        " ".join(m.get("where", "") for m in rec["anchors"].get("state", []))
    out = []
    for cls, meth in re.findall(r"([A-Z]\w+)\.(\w+)", text):
        for c in prog.classes.values():
            if c.name == cls and meth in c.methods:
                out.append(c.methods[meth])
    # bare function / method names (`_look_for_last_index_of_literal_token`, `utils/uri.decide_literal_type`):
    # resolved inside the files the property names
    words = {w for w in re.findall(r"[A-Za-z_]\w+", text) if "_" in w or w.islower()}
    files = set(rec["anchors"].get("files", []))
    for m in prog.modules.values():
        if m.relpath not in files:
            continue
        for name, f in m.funcs.items():
            if name in words and len(name) > 4:
                out.append(f)
        for c in m.classes.values():
            for name, f in c.methods.items():
                if name in words and len(name) > 4 and not name.startswith("__"):
                    out.append(f)
    seen, res = set(), []
    for f in out:
        if f.qual not in seen:
            seen.add(f.qual)
            res.append(f)
    return res


def _sites(fnode):
    """(operator, description, mutate-callable) for one function node (of a parsed copy)."""
    out = []
    for n in walk_own(fnode):
        if isinstance(n, ast.Compare) and len(n.ops) == 1 and type(n.ops[0]) in CMP_NEXT:
            def m(n=n):
                n.ops = [CMP_NEXT[type(n.ops[0])]()]
            out.append(("CMP", "line %d: %s -> %s" % (n.lineno, type(n.ops[0]).__name__, CMP_NEXT[type(n.ops[0])].__name__), m))
        if isinstance(n, (ast.If, ast.While)) and not isinstance(n.test, ast.Compare):
            def m(n=n):
                n.test = ast.UnaryOp(op=ast.Not(), operand=n.test)
            out.append(("NEG", "line %d: condition negated" % n.lineno, m))
        if isinstance(n, ast.Constant) and type(n.value) is int and n.value in (0, 1):
            def m(n=n):
                n.value = 1 - n.value
            out.append(("CONST", "line %d: %d -> %d" % (n.lineno, n.value, 1 - n.value), m))
        if isinstance(n, ast.IfExp):
            def m(n=n):
                n.body, n.orelse = n.orelse, n.body
            out.append(("SWAPARMS", "line %d: arms of the conditional expression exchanged" % n.lineno, m))
        if isinstance(n, ast.Call) and n.keywords:
            for i, k in enumerate(n.keywords):
                if k.arg is not None:
                    def m(n=n, i=i):
                        del n.keywords[i]
                    out.append(("DROPKW", "line %d: keyword %s no longer passed" % (n.lineno, k.arg), m))
        if isinstance(n, (ast.For, ast.While)):
            def m(n=n):
                n.body.append(ast.Break())
            out.append(("BREAK", "line %d: break appended to the loop body" % n.lineno, m))
    for holder in ast.walk(fnode):
        for field in ("body", "orelse"):
            blk = getattr(holder, field, None)
            if isinstance(blk, list):
                for i, st in enumerate(blk):
                    if isinstance(st, ast.Expr) and isinstance(st.value, ast.Call):
                        def m(blk=blk, i=i):
                            blk[i] = ast.Pass()
                        out.append(("DELCALL", "line %d: call `%s` removed" % (st.lineno, ast.unparse(st.value.func)), m))
    return out


def variants(prog, prop, limit, seed):
    """[(label, relpath, new_source)]"""
    funcs = anchor_functions(prog, prop)
    allv = []
    for f in funcs:
        probe = ast.parse(f.module.src)
        target = _find(probe, f)
        if target is None:
            continue
        for idx, (op, desc, _) in enumerate(_sites(target)):
            allv.append((f, idx, op, desc))
    rnd = random.Random(seed * 7919 + sum(map(ord, prop)))
    rnd.shuffle(allv)
    # keep the operator mix balanced
    picked, per_op = [], {}
    for v in allv:
        if per_op.get(v[2], 0) < max(2, limit // 5):
            picked.append(v)
            per_op[v[2]] = per_op.get(v[2], 0) + 1
        if len(picked) >= limit:
            break
    out = []
    for f, idx, op, desc in picked:
        tree = ast.parse(f.module.src)
        target = _find(tree, f)
        sites = _sites(target)
        if idx >= len(sites):
            continue
        sites[idx][2]()
        ast.fix_missing_locations(tree)
        try:
            src = ast.unparse(tree)
            ast.parse(src)
        except Exception:
            continue
        out.append(("%s %s %s" % (op, f.short, desc), f.module.relpath, src))
    return out, len(funcs), len(allv)


def _find(tree, f):
    for n in ast.walk(tree):
        if isinstance(n, ast.ClassDef) and f.cls is not None and n.name == f.cls.name:
            for m in n.body:
                if isinstance(m, ast.FunctionDef) and m.name == f.name and m.lineno == f.node.lineno:
                    return m
        if f.cls is None and isinstance(n, ast.FunctionDef) and n.name == f.name and n.lineno == f.node.lineno:
            return n
    return None
