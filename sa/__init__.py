"""Static analysis of sheXer (DaniFdezAlvarez/shexer): repository-specific checkers.

Nothing in this package imports or executes sheXer.  Every run re-parses
/repo/shexer/**/*.py (override the root with SA_REPO for scratch copies)."""
