"""Un-extraction: helpers that a refactoring introduced are inlined back into their call sites.

"Extract method" (and its frequent companion, merging two near-duplicates into one helper with a parameter) changes no
behaviour, but the rules of this analysis anchor on the functions of the reference tree: the loop that used to sit in
`_build_base_direct_statements` now sits in a helper the rules have never heard of.  Before the program model is built, every
function or method whose name the reference tree does not contain anywhere is therefore inlined into its callers - parameters
replaced by the arguments (constants included, so `helper(pos=_POS_DIRECT)` reads like the code it was extracted from) - when
that can be done without changing what the caller does:

  helper shape                       call sites that are rewritten
  procedure (no value returned)      the statement `self.h(..)` / `h(..)`
  `return E` only                    any occurrence inside a simple statement, an if / while test, a comprehension
  statements + final `return E`      `x = self.h(..)`, `return self.h(..)`, `x += ..`, `yield ..`, or the call as a direct argument
  generator without return           `yield from self.h(..)`  (also `for v in self.h(..): yield v`);  `for T in self.h(..): BODY` when
                                     the helper yields at one place and BODY has no break / continue of its own: BODY moves there

Early exits of a procedure are first put in structured form (sa/canon.py: `if c: return` + REST -> `if not c: REST`).  A helper
that is recursive, takes *args / **kwargs, is a property / classmethod, or keeps an inner `return` after structuring is left
alone, and so is a call site of another form: the helper then simply stays what it is - a function the rules do not know.
Helper definitions whose every use was inlined are dropped from the model.  Nothing is inlined on an unchanged tree."""
import ast
import copy

from .canon import _block

_SIMPLE = (ast.Name, ast.Constant, ast.Attribute)


def _is_simple(e):
    if isinstance(e, ast.Constant):
        return True
    if isinstance(e, ast.Name):
        return True
    if isinstance(e, ast.Attribute):
        return _is_simple(e.value)
    if isinstance(e, ast.Subscript):
        return _is_simple(e.value) and _is_simple(e.slice)
    if isinstance(e, ast.UnaryOp) and isinstance(e.operand, ast.Constant):
        return True
    if isinstance(e, ast.Tuple):
        return all(_is_simple(x) for x in e.elts)
    return False


class _Helper:
    def __init__(self, module, cls, node):
        self.module, self.cls, self.node = module, cls, node
        self.name = node.name
        decos = [ast.unparse(d) for d in node.decorator_list]
        self.static = decos == ["staticmethod"]
        self.ok = not decos or self.static
        a = node.args
        if a.posonlyargs or (a.vararg and a.kwonlyargs):
            self.ok = False
        self.vararg = a.vararg.arg if a.vararg else None
        self.kwarg = a.kwarg.arg if a.kwarg else None
        self.params = [x.arg for x in a.args + a.kwonlyargs]
        self.defaults = {}
        pos = a.args
        for p, d in zip(pos[len(pos) - len(a.defaults):], a.defaults):
            self.defaults[p.arg] = d
        for p, d in zip(a.kwonlyargs, a.kw_defaults):
            if d is not None:
                self.defaults[p.arg] = d
        if cls is not None and not self.static:
            if not self.params or self.params[0] != "self":
                self.ok = False
            else:
                self.params = self.params[1:]
        body = node.body
        if body and isinstance(body[0], ast.Expr) and isinstance(body[0].value, ast.Constant) and isinstance(body[0].value.value, str):
            body = body[1:]
        body = _block([copy.deepcopy(s) for s in body], True) if body else []
        while body and isinstance(body[-1], ast.Return) and body[-1].value is None:
            body = body[:-1]
        self.body = body
        inner = [n for s in body for n in ast.walk(s)]
        if any(isinstance(n, (ast.Global, ast.Nonlocal, ast.FunctionDef, ast.AsyncFunctionDef, ast.ClassDef)) for n in inner):
            self.ok = False
        if any(isinstance(n, ast.Name) and n.id == self.name or isinstance(n, ast.Attribute) and n.attr == self.name for n in inner):
            self.ok = False            # recursive
        returns = [n for n in inner if isinstance(n, ast.Return)]
        yields = [n for n in inner if isinstance(n, (ast.Yield, ast.YieldFrom))]
        self.kind = None
        if yields:
            if not returns:
                self.kind = "gen"
        elif not returns:
            self.kind = "proc"
        elif len(returns) == 1 and body and body[-1] is returns[0] and returns[0].value is not None:
            self.kind = "expr" if len(body) == 1 else "tail"
        if self.kind is None:
            self.ok = False
        self.locals = set()
        for n in inner:
            if isinstance(n, ast.Name) and isinstance(n.ctx, (ast.Store, ast.Del)):
                self.locals.add(n.id)
            elif isinstance(n, ast.ExceptHandler) and n.name:
                self.locals.add(n.name)
        self.assigned_params = {p for p in self.params if p in self.locals}
        if self.kwarg is not None:
            # **kw is accepted when the body only ever forwards it (`g(..., **kw)`): the caller's extra keywords are written out there
            fwd = {id(k.value) for n in inner if isinstance(n, ast.Call) for k in n.keywords
                   if k.arg is None and isinstance(k.value, ast.Name) and k.value.id == self.kwarg}
            if self.kwarg in self.locals or any(isinstance(n, ast.Name) and n.id == self.kwarg and id(n) not in fwd for n in inner):
                self.ok = False


class _Instantiate(ast.NodeTransformer):
    def __init__(self, mapping, rename):
        self.mapping, self.rename = mapping, rename

    def visit_Call(self, n):
        # f(x, *rest) with rest bound to the caller's extra arguments: they are written out
        new_args = []
        for a in n.args:
            if isinstance(a, ast.Starred) and isinstance(a.value, ast.Name) and isinstance(self.mapping.get(a.value.id), ast.Tuple):
                new_args.extend(copy.deepcopy(x) for x in self.mapping[a.value.id].elts)
            else:
                new_args.append(a)
        n.args = new_args
        new_kw = []
        for k in n.keywords:
            if k.arg is None and isinstance(k.value, ast.Name) and isinstance(self.mapping.get(k.value.id), ast.Dict):
                d = self.mapping[k.value.id]
                new_kw.extend(ast.keyword(arg=kk.value, value=copy.deepcopy(vv)) for kk, vv in zip(d.keys, d.values))
            else:
                new_kw.append(k)
        n.keywords = new_kw
        self.generic_visit(n)
        return n

    def visit_Name(self, n):
        if n.id in self.mapping and isinstance(n.ctx, ast.Load):
            new = copy.deepcopy(self.mapping[n.id])
            return new
        if n.id in self.rename:
            n.id = self.rename[n.id]
        return n

    def visit_ExceptHandler(self, n):
        if n.name in self.rename:
            n.name = self.rename[n.name]
        self.generic_visit(n)
        return n


class Unextractor:
    def __init__(self, trees, ref_names, is_helper=None, carry=True):
        self.trees = trees
        self.ref_names = ref_names
        self.is_helper = is_helper or (lambda name: name not in ref_names)
        self.carry = carry
        self.classes = {}          # simple class name -> (module, ClassDef)
        for m, t in trees.items():
            for st in t.body:
                if isinstance(st, ast.ClassDef):
                    self.classes.setdefault(st.name, (m, st))
        self.helpers = {}          # (class name or module, helper name) -> _Helper
        self.counter = 0
        self.inlined = []

    def collect(self):
        self.helpers = {}
        for m, t in self.trees.items():
            for st in t.body:
                if isinstance(st, ast.FunctionDef) and self.is_helper(st.name):
                    h = _Helper(m, None, st)
                    if h.ok:
                        self.helpers[(m, st.name)] = h
                elif isinstance(st, ast.ClassDef):
                    for x in st.body:
                        if isinstance(x, ast.FunctionDef) and self.is_helper(x.name):
                            h = _Helper(m, st.name, x)
                            if h.ok:
                                self.helpers[(st.name, x.name)] = h
        return self.helpers

    def _bases(self, cname, seen=None):
        seen = seen or set()
        if cname in seen or cname not in self.classes:
            return
        seen.add(cname)
        yield cname
        for b in self.classes[cname][1].bases:
            bn = b.id if isinstance(b, ast.Name) else b.attr if isinstance(b, ast.Attribute) else None
            if bn:
                yield from self._bases(bn, seen)

    def resolve(self, call, module, cname):
        """The helper a call denotes, or None."""
        fn = call.func
        if isinstance(fn, ast.Attribute) and isinstance(fn.value, ast.Name):
            if fn.value.id == "self" and cname is not None:
                for c in self._bases(cname):
                    h = self.helpers.get((c, fn.attr))
                    if h is not None:
                        return h
                    if c in self.classes and any(isinstance(x, ast.FunctionDef) and x.name == fn.attr for x in self.classes[c][1].body):
                        return None       # defined (and not inlinable) closer in the hierarchy
                return None
            if fn.value.id in self.classes:            # Class.static_helper(..)
                for c in self._bases(fn.value.id):
                    h = self.helpers.get((c, fn.attr))
                    if h is not None and h.static:
                        return h
            return None
        if isinstance(fn, ast.Name):
            h = self.helpers.get((module, fn.id))
            if h is not None:
                return h
            # imported from another module of the package
            for st in self.trees[module].body:
                if isinstance(st, ast.ImportFrom):
                    for al in st.names:
                        if (al.asname or al.name) == fn.id and (st.module, al.name) in self.helpers:
                            return self.helpers[(st.module, al.name)]
        return None

    def bind(self, h, call):
        """param -> argument expression, or None when the call does not fit the signature."""
        if any(isinstance(a, ast.Starred) for a in call.args) or any(k.arg is None for k in call.keywords):
            return None
        if len(call.args) > len(h.params) and h.vararg is None:
            return None
        out = {}
        for p, a in zip(h.params, call.args):
            out[p] = a
        if h.vararg is not None:
            extra = list(call.args[len(h.params):])
            if not all(_is_simple(x) for x in extra):
                return None
            out[h.vararg] = ast.Tuple(elts=extra, ctx=ast.Load())
        extra_kw = []
        for k in call.keywords:
            if k.arg not in h.params and getattr(h, "kwarg", None) is not None and k.arg not in out and _is_simple(k.value):
                extra_kw.append(k)
                continue
            if k.arg not in h.params or k.arg in out:
                return None
            out[k.arg] = k.value
        if getattr(h, "kwarg", None) is not None:
            out[h.kwarg] = ast.Dict(keys=[ast.Constant(value=k.arg) for k in extra_kw], values=[k.value for k in extra_kw])
        for p in h.params:
            if p not in out:
                if p not in h.defaults:
                    return None
                out[p] = h.defaults[p]
        if h.vararg is not None and h.vararg in h.locals:
            return None
        return out

    def _module_names(self, module):
        out = set()
        for st in self.trees[module].body:
            if isinstance(st, (ast.FunctionDef, ast.AsyncFunctionDef, ast.ClassDef)):
                out.add(st.name)
            elif isinstance(st, ast.Assign):
                for t in st.targets:
                    for x in ast.walk(t):
                        if isinstance(x, ast.Name):
                            out.add(x.id)
            elif isinstance(st, (ast.Import, ast.ImportFrom)):
                for al in st.names:
                    out.add((al.asname or al.name).split(".")[0])
        return out

    def _carry_imports(self, h, module):
        """A helper written in another module brings the module-level names it uses with it."""
        if h.module == module:
            return True
        have = self._module_names(module)
        there = self._module_names(h.module)
        need = set()
        for s_ in h.body:
            for n in ast.walk(s_):
                if isinstance(n, ast.Name) and isinstance(n.ctx, ast.Load) and n.id not in h.locals and n.id not in h.params \
                        and n.id != "self" and n.id in there and n.id not in have:
                    need.add(n.id)
        clash = {n.id for s_ in h.body for n in ast.walk(s_) if isinstance(n, ast.Name) and isinstance(n.ctx, ast.Load)
                 and n.id in there and n.id in have and n.id not in h.locals and n.id not in h.params} 
        # a name both modules bind must mean the same thing: only imports of the same origin are accepted
        for name in clash:
            if self._origin(h.module, name) != self._origin(module, name):
                return False
        if need:
            imp = ast.ImportFrom(module=h.module, names=[ast.alias(name=n, asname=None) for n in sorted(need)], level=0)
            imp.lineno = imp.col_offset = 0
            self.trees[module].body.insert(0, imp)
            ast.fix_missing_locations(self.trees[module])
        return True

    def _origin(self, module, name, depth=0):
        for st in self.trees[module].body:
            if isinstance(st, ast.ImportFrom):
                for al in st.names:
                    if (al.asname or al.name) == name:
                        if st.module in self.trees and depth < 6:
                            return self._origin(st.module, al.name, depth + 1)
                        return (st.module, al.name)
            elif isinstance(st, ast.Import):
                for al in st.names:
                    if (al.asname or al.name).split(".")[0] == name:
                        return ("import", al.name)
        return (module, name)

    def instantiate(self, h, call, module=None):
        """(prefix statements, result expression or None) of the helper applied to the call's arguments."""
        b = self.bind(h, call)
        if b is None:
            return None
        if module is not None and self.carry and not self._carry_imports(h, module):
            return None
        self.counter += 1
        tag = "__%s%d" % (h.name.strip("_"), self.counter)
        pre, mapping, rename = [], {}, {}
        for p, a in b.items():
            if (_is_simple(a) and p not in h.assigned_params) or p == getattr(h, "kwarg", None):
                mapping[p] = a
            else:
                rename[p] = p + tag
                asg = ast.Assign(targets=[ast.Name(p + tag, ast.Store())], value=copy.deepcopy(a))
                ast.copy_location(asg, call)
                pre.append(asg)
        for l in h.locals:
            if l not in rename:
                rename[l] = l + tag
        body = [_Instantiate(mapping, rename).visit(copy.deepcopy(s)) for s in h.body]
        for s in pre + body:
            ast.fix_missing_locations(s)
        if h.kind in ("expr", "tail"):
            ret = body[-1]
            return pre + body[:-1], ret.value
        return pre + body, None

    # ------------------------------------------------------------------ rewriting one function
    def rewrite_block(self, stmts, module, cname, owner):
        out = []
        for st in stmts:
            out.extend(self.rewrite_stmt(st, module, cname, owner))
        return out

    def _calls_in(self, node):
        return [n for n in ast.walk(node) if isinstance(n, ast.Call)]

    def _subst_expr_helpers(self, node, module, cname, owner):
        """Replace calls of `return E` helpers anywhere inside node (in place); returns node."""
        me = self

        class T(ast.NodeTransformer):
            def visit_Call(self, n):
                self.generic_visit(n)
                h = me.resolve(n, module, cname)
                if h is not None and h.kind == "expr" and h.node is not owner:
                    r = me.instantiate(h, n, module)
                    if r is not None and not r[0]:
                        me.inlined.append(h.name)
                        return ast.copy_location(r[1], n)
                return n
        return T().visit(node)

    def rewrite_stmt(self, st, module, cname, owner):
        # compound statements: recurse into blocks, expression helpers in headers
        if isinstance(st, (ast.FunctionDef, ast.AsyncFunctionDef, ast.ClassDef)):
            return [st]
        if isinstance(st, (ast.If, ast.While)):
            st.test = self._subst_expr_helpers(st.test, module, cname, owner)
            st.body = self.rewrite_block(st.body, module, cname, owner)
            st.orelse = self.rewrite_block(st.orelse, module, cname, owner)
            return [st]
        if isinstance(st, ast.For):
            # for v in self.gen(..): yield v
            if not st.orelse and len(st.body) == 1 and isinstance(st.body[0], ast.Expr) and isinstance(st.body[0].value, ast.Yield) \
                    and isinstance(st.body[0].value.value, ast.Name) and isinstance(st.target, ast.Name) \
                    and st.body[0].value.value.id == st.target.id and isinstance(st.iter, ast.Call):
                h = self.resolve(st.iter, module, cname)
                if h is not None and h.kind == "gen" and h.node is not owner:
                    r = self.instantiate(h, st.iter, module)
                    if r is not None:
                        self.inlined.append(h.name)
                        return self.rewrite_block(r[0], module, cname, owner)
            # for T in self.gen(..): BODY  with a generator helper that yields at one place: BODY runs where the yield is
            if not st.orelse and isinstance(st.iter, ast.Call):
                h = self.resolve(st.iter, module, cname)
                if h is not None and h.kind == "gen" and h.node is not owner:
                    ys = [n for s_ in h.body for n in ast.walk(s_) if isinstance(n, (ast.Yield, ast.YieldFrom))]

                    def own_level(stmts):
                        for x in stmts:
                            if isinstance(x, (ast.Break, ast.Continue)):
                                yield x
                            elif isinstance(x, (ast.If, ast.With, ast.Try)):
                                for fld in ("body", "orelse", "finalbody"):
                                    yield from own_level(getattr(x, fld, []) or [])
                                for hd in getattr(x, "handlers", []):
                                    yield from own_level(hd.body)
                    if len(ys) == 1 and isinstance(ys[0], ast.Yield) and ys[0].value is not None and not list(own_level(st.body)):
                        r = self.instantiate(h, st.iter, module)
                        if r is not None:
                            body = r[0]
                            done = []

                            class Y(ast.NodeTransformer):
                                def visit_Expr(self2, n):
                                    if isinstance(n.value, ast.Yield) and not done:
                                        done.append(1)
                                        tg, val = st.target, n.value.value
                                        names = [tg] if isinstance(tg, ast.Name) else list(tg.elts) if isinstance(tg, ast.Tuple) else None
                                        vals = [val] if isinstance(tg, ast.Name) else list(val.elts) if isinstance(val, ast.Tuple) else None
                                        stored = {x.id for b_ in st.body for x in ast.walk(b_) if isinstance(x, ast.Name) and not isinstance(x.ctx, ast.Load)}
                                        if names and vals and len(names) == len(vals) and all(isinstance(x, ast.Name) for x in names) \
                                                and all(_is_simple(v_) for v_ in vals) and not ({x.id for x in names} & stored):
                                            # the loop variables are just other names for what the helper yields
                                            mp = {x.id: v_ for x, v_ in zip(names, vals)}
                                            return [_Instantiate(mp, {}).visit(copy.deepcopy(b_)) for b_ in st.body]
                                        asg = ast.Assign(targets=[copy.deepcopy(st.target)], value=n.value.value)
                                        ast.copy_location(asg, n)
                                        return [asg] + st.body
                                    return n
                            body = [Y().visit(b) for b in body]
                            flat = []
                            for b in body:
                                flat.extend(b if isinstance(b, list) else [b])
                            if done:
                                self.inlined.append(h.name)
                                for b in flat:
                                    ast.fix_missing_locations(b)
                                return self.rewrite_block(flat, module, cname, owner)
            st.iter = self._subst_expr_helpers(st.iter, module, cname, owner)
            st.body = self.rewrite_block(st.body, module, cname, owner)
            st.orelse = self.rewrite_block(st.orelse, module, cname, owner)
            return [st]
        if isinstance(st, ast.With):
            st.body = self.rewrite_block(st.body, module, cname, owner)
            return [st]
        if isinstance(st, ast.Try):
            st.body = self.rewrite_block(st.body, module, cname, owner)
            for hd in st.handlers:
                hd.body = self.rewrite_block(hd.body, module, cname, owner)
            st.orelse = self.rewrite_block(st.orelse, module, cname, owner)
            st.finalbody = self.rewrite_block(st.finalbody, module, cname, owner)
            return [st]
        # simple statements
        if isinstance(st, ast.Expr) and isinstance(st.value, ast.Call):
            h = self.resolve(st.value, module, cname)
            if h is not None and h.node is not owner and h.kind in ("proc", "tail", "expr"):
                r = self.instantiate(h, st.value, module)
                if r is not None:
                    self.inlined.append(h.name)
                    tail = []
                    if r[1] is not None and self._calls_in(r[1]):
                        tail = [ast.copy_location(ast.Expr(value=r[1]), st)]
                    return self.rewrite_block(r[0] + tail, module, cname, owner)
        if isinstance(st, ast.Expr) and isinstance(st.value, ast.YieldFrom) and isinstance(st.value.value, ast.Call):
            h = self.resolve(st.value.value, module, cname)
            if h is not None and h.kind == "gen" and h.node is not owner:
                r = self.instantiate(h, st.value.value, module)
                if r is not None:
                    self.inlined.append(h.name)
                    return self.rewrite_block(r[0], module, cname, owner)
        # value position: x = h(..) / return h(..) / x += h(..) / yield h(..) / f(simple, h(..))
        holder, field = None, None
        if isinstance(st, (ast.Assign, ast.AugAssign, ast.Return, ast.AnnAssign)) and getattr(st, "value", None) is not None:
            holder, field = st, "value"
        elif isinstance(st, ast.Expr):
            holder, field = st, "value"
        if holder is not None:
            v = getattr(holder, field)
            slot = None
            if isinstance(v, ast.Yield) and v.value is not None:
                slot = (v, "value")
                v = v.value
            else:
                slot = (holder, field)
            target_call, setter = None, None
            if isinstance(v, ast.Call):
                h = self.resolve(v, module, cname)
                if h is not None and h.kind == "tail" and h.node is not owner:
                    target_call = v
                    setter = lambda e, slot=slot: setattr(slot[0], slot[1], e)
                elif h is None and _is_simple(v.func) and all(_is_simple(k.value) or isinstance(k.value, ast.Call) for k in v.keywords):
                    cands = [(i, a) for i, a in enumerate(v.args) if isinstance(a, ast.Call)] + \
                            [(k, k.value) for k in v.keywords if isinstance(k.value, ast.Call)]
                    others_simple = all(_is_simple(a) or isinstance(a, ast.Call) for a in v.args)
                    tails = [(i, a) for i, a in cands if (self.resolve(a, module, cname) or _NOH).kind == "tail"]
                    if others_simple and len(tails) == 1 and len(cands) == 1:
                        i, a = tails[0]
                        target_call = a
                        if isinstance(i, int):
                            setter = lambda e, v=v, i=i: v.args.__setitem__(i, e)
                        else:
                            setter = lambda e, k=i: setattr(k, "value", e)
            if target_call is not None:
                h = self.resolve(target_call, module, cname)
                if h is not None and h.node is not owner:
                    r = self.instantiate(h, target_call, module)
                    if r is not None:
                        self.inlined.append(h.name)
                        setter(ast.copy_location(r[1], target_call))
                        return self.rewrite_block(r[0], module, cname, owner) + self.rewrite_stmt(st, module, cname, owner)
        return [self._subst_expr_helpers(st, module, cname, owner)]

    def run(self, rounds=4):
        for _ in range(rounds):
            self.collect()
            if not self.helpers:
                break
            before = len(self.inlined)
            for m, t in self.trees.items():
                for st in t.body:
                    if isinstance(st, ast.FunctionDef):
                        st.body = self.rewrite_block(st.body, m, None, st)
                    elif isinstance(st, ast.ClassDef):
                        for x in st.body:
                            if isinstance(x, ast.FunctionDef):
                                x.body = self.rewrite_block(x.body, m, st.name, x)
            if len(self.inlined) == before:
                break
        # drop helper definitions nothing refers to any more
        self.collect()
        used = set()
        for t in self.trees.values():
            for n in ast.walk(t):
                if isinstance(n, ast.Attribute):
                    used.add(n.attr)
                elif isinstance(n, ast.Name):
                    used.add(n.id)
                elif isinstance(n, ast.alias):
                    used.add(n.name)
        dropped = []
        for (owner, name), h in self.helpers.items():
            if name in used or name not in self.inlined:
                continue
            if h.cls is None:
                body = self.trees[h.module].body
            else:
                body = next(st for st in self.trees[h.module].body if isinstance(st, ast.ClassDef) and st.name == h.cls).body
            if h.node in body:
                body.remove(h.node)
                dropped.append(name)
                if not body:
                    body.append(ast.Pass())
        for t in self.trees.values():
            ast.fix_missing_locations(t)
        return sorted(set(self.inlined)), dropped


class _NoHelper:
    kind = None


_NOH = _NoHelper()


def unextract(cur_trees, ref_names):
    """Inline the helpers the reference does not know.  Returns (names inlined, definitions dropped)."""
    u = Unextractor(cur_trees, ref_names)
    return u.run()


def fully_inlined(program, func, depth=3, as_class=None):
    """Copy of a function of the model with its calls of private methods / functions of the package written out (to `depth`):
    what the function does, whatever the way its body was cut into helpers.  Used to compare siblings whose helpers were
    merged or inlined on one side only."""
    trees = {m.name: m.tree for m in program.modules.values()}
    u = Unextractor(trees, set(), is_helper=lambda name: name.startswith("_") and not name.startswith("__"), carry=False)
    u.collect()
    node = copy.deepcopy(func.node)
    cname = as_class or (func.cls.name if func.cls is not None else None)      # as_class: read the method as this subclass runs it
    for _ in range(depth):
        before = len(u.inlined)
        node.body = u.rewrite_block(node.body, func.module.name, cname, func.node)
        if len(u.inlined) == before:
            break
    ast.fix_missing_locations(node)
    return node
