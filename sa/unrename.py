"""Name alignment with the reference tree (rename tolerance).

The rules of this analysis name their anchors: private methods, fields, module constants, keyword parameters.  A refactoring
that only renames such things changes no behaviour, yet every anchor would vanish.  Before the program model is built, the
parsed modules of the tree under analysis are therefore compared with the parsed modules of the reference tree
(/verif/reference/shexer: the sources the anchors were confirmed on) and names that were *replaced* are mapped back:

  - per class: members (methods and `self.` attributes) that exist only in the reference (V) and members that exist only in the
    current class (N) are paired by a name-independent similarity of their definitions / uses;
  - per module: top-level functions and constants, the same way (constants also by value);
  - per function: positional parameters whose names differ at the same index; keyword arguments at call sites follow.

The current tree's AST is then rewritten with the reference names.  Nothing else is taken from the reference: every rule still
decides on the (renamed-back) code of the tree under analysis, line numbers are the current ones, and an unchanged tree gives the
empty map.  A pair is accepted only above a similarity threshold and greedily best-first; what cannot be paired stays as it is
(the anchor then vanishes and the run fails closed, as before).  The applied map is listed in the report."""
import ast
import difflib
import os
from collections import Counter, defaultdict

REFERENCE = os.environ.get("SA_REFERENCE", os.path.join(os.path.dirname(os.path.dirname(os.path.abspath(__file__))), "reference"))
THRESHOLD_FUNC = 0.50
THRESHOLD_ATTR = 0.40


def _body(fn):
    b = fn.body
    if b and isinstance(b[0], ast.Expr) and isinstance(b[0].value, ast.Constant) and isinstance(b[0].value.value, str):
        b = b[1:]
    return b


def _tokens(fn):
    out = []
    for st in _body(fn):
        for n in ast.walk(st):
            if isinstance(n, (ast.Load, ast.Store, ast.Del, ast.arguments, ast.arg, ast.keyword)):
                continue
            if isinstance(n, (ast.Name, ast.Constant)):
                out.append("V")
            else:
                out.append(type(n).__name__)
    return out


def _names_used(fn):
    out = set()
    for st in _body(fn):
        for n in ast.walk(st):
            if isinstance(n, ast.Attribute):
                out.add("." + n.attr)
            elif isinstance(n, ast.Name):
                out.add(n.id)
    return out


def _ratio(a, b):
    if not a and not b:
        return 1.0
    return difflib.SequenceMatcher(None, a, b, autojunk=False).ratio()


def _jacc(a, b):
    if not a and not b:
        return 1.0
    return len(a & b) / float(len(a | b))


def _nparams(fn):
    a = fn.args
    return len(a.posonlyargs) + len(a.args) + len(a.kwonlyargs), bool(a.vararg), bool(a.kwarg)


def _greedy(scores, threshold):
    """scores: {(old, new): s}.  Best first; each old and each new used once."""
    out, used_o, used_n = {}, set(), set()
    for (o, n), s in sorted(scores.items(), key=lambda kv: (-kv[1], kv[0])):
        if s < threshold:
            break
        if o in used_o or n in used_n:
            continue
        out[n] = o
        used_o.add(o)
        used_n.add(n)
    return out


class _ClassInfo:
    def __init__(self, node):
        self.node = node
        self.methods = {}
        for st in node.body:
            if isinstance(st, (ast.FunctionDef, ast.AsyncFunctionDef)):
                self.methods.setdefault(st.name, []).append(st)      # property + setter share a name
        self.attrs = defaultdict(Counter)           # self.<name> -> Counter of use contexts
        for mname, fns in self.methods.items():
            for fn in fns:
                parents = {}
                for p in ast.walk(fn):
                    for c in ast.iter_child_nodes(p):
                        parents[c] = p
                for n in ast.walk(fn):
                    if isinstance(n, ast.Attribute) and isinstance(n.value, ast.Name) and n.value.id in ("self", "cls"):
                        par = parents.get(n)
                        self.attrs[n.attr][(mname, type(n.ctx).__name__, type(par).__name__)] += 1


def _module_info(tree):
    funcs, consts, classes = {}, {}, {}
    for st in tree.body:
        if isinstance(st, (ast.FunctionDef, ast.AsyncFunctionDef)):
            funcs[st.name] = st
        elif isinstance(st, ast.ClassDef):
            classes[st.name] = _ClassInfo(st)
        elif isinstance(st, ast.Assign):
            for t in st.targets:
                if isinstance(t, ast.Name):
                    consts[t.id] = st.value
    return funcs, consts, classes


def _func_scores(ref_fns, cur_fns, V, N, stable, ref_uses=None, cur_uses=None):
    scores = {}
    for o in V:
        for n in N:
            fo, fn = ref_fns[o], cur_fns[n]
            if _nparams(fo) != _nparams(fn):
                continue
            if ref_uses is not None:
                # a rename keeps the call sites: the new name is used about as often as the old one was
                a, b = ref_uses.get(o, 0), cur_uses.get(n, 0)
                if (a == 0) != (b == 0) or (a and b and not (0.5 <= a / float(b) <= 2.0)):
                    continue
            s = 0.45 * _ratio(_tokens(fo), _tokens(fn)) + 0.35 * _jacc(_names_used(fo) & stable, _names_used(fn) & stable) \
                + 0.20 * _ratio(o, n)
            scores[(o, n)] = s
    return scores


class Renames:
    def __init__(self):
        self.members = {}        # (module, class) -> {new: old}
        self.toplevel = {}       # module -> {new: old}
        self.params = {}         # (module, class or None, func name [reference name]) -> {new: old}
        self.log = []

    def __bool__(self):
        return bool(self.members or self.toplevel or self.params)


def _load_reference(pkg):
    out = {}
    root = os.path.join(REFERENCE, pkg)
    if not os.path.isdir(root):
        return None
    for dp, dn, fn in os.walk(root):
        dn[:] = sorted(d for d in dn if d != "__pycache__")
        for f in sorted(fn):
            if f.endswith(".py"):
                path = os.path.join(dp, f)
                mod = os.path.relpath(path, REFERENCE)[:-3].replace(os.sep, ".")
                if mod.endswith(".__init__"):
                    mod = mod[:-9]
                with open(path, encoding="utf-8") as fh:
                    out[mod] = ast.parse(fh.read())
    return out


def compute(cur_trees, pkg="shexer"):
    """cur_trees: {module name: ast.Module}.  Returns Renames (empty when nothing was replaced)."""
    rn = Renames()
    ref_trees = _load_reference(pkg)
    if ref_trees is None:
        return rn
    ref_info = {m: _module_info(t) for m, t in ref_trees.items()}
    cur_info = {m: _module_info(t) for m, t in cur_trees.items()}
    # names that exist on both sides somewhere: usable as context for the similarity
    def all_names(info):
        s = set()
        for funcs, consts, classes in info.values():
            s |= set(funcs) | set(consts) | set(classes)
            for c in classes.values():
                s |= set(c.methods) | set(c.attrs)
        return s
    def uses(trees):
        c = Counter()
        for t in trees.values():
            for n in ast.walk(t):
                if isinstance(n, ast.Attribute):
                    c[n.attr] += 1
                elif isinstance(n, ast.Name) and isinstance(n.ctx, ast.Load):
                    c[n.id] += 1
        return c
    ref_uses, cur_uses = uses(ref_trees), uses(cur_trees)
    rn.ref_receiver_pairs = {}
    for m_, t_ in ref_trees.items():
        for st_ in t_.body:
            if isinstance(st_, ast.ClassDef):
                rn.ref_receiver_pairs[(m_, st_.name)] = {(ast.unparse(x.value), x.attr) for x in ast.walk(st_) if isinstance(x, ast.Attribute)
                                                       and not (isinstance(x.value, ast.Name) and x.value.id in ("self", "cls"))}
    ref_names, cur_names = all_names(ref_info), all_names(cur_info)
    rn.ref_names = ref_names
    stable = {x for x in ref_names & cur_names} | {"." + x for x in ref_names & cur_names}
    # ---------------------------------------------------------------- class members
    votes = Counter()
    per_class = {}
    for m, (rf, rc, rcls) in ref_info.items():
        if m not in cur_info:
            continue
        cf, cc, ccls = cur_info[m]
        for cname, rci in rcls.items():
            cci = ccls.get(cname)
            if cci is None:
                continue
            ref_members = set(rci.methods) | set(rci.attrs)
            cur_members = set(cci.methods) | set(cci.attrs)
            V, N = ref_members - cur_members, cur_members - ref_members
            if not V or not N:
                continue
            mmap = {}
            Vm, Nm = [v for v in V if v in rci.methods], [n for n in N if n in cci.methods]
            if Vm and Nm:
                sc = _func_scores({k: v[0] for k, v in rci.methods.items()}, {k: v[0] for k, v in cci.methods.items()}, Vm, Nm, stable,
                                  ref_uses, cur_uses)
                mmap.update(_greedy(sc, THRESHOLD_FUNC))
            per_class[(m, cname)] = (rci, cci, V, N, mmap)
    # methods first (their names are the context of the attribute features), attributes second
    for (m, cname), (rci, cci, V, N, mmap) in per_class.items():
        back = dict(mmap)                                   # new method name -> old
        # fields are defined by assignment: a member the class only *uses* (inherited method or field) is renamed where it is
        # defined, and adopted here afterwards - pairing uses would turn an extracted helper into a "rename" of whatever the
        # class stopped calling
        stored = lambda ci, name: any(k[1] == "Store" for k in ci.attrs[name])
        Va = [v for v in V if v not in rci.methods and stored(rci, v)]
        Na = [n for n in N if n not in cci.methods and stored(cci, n)]
        if Va and Na:
            sc = {}
            for o in Va:
                fo = Counter({(k[0], k[1], k[2]): c for k, c in rci.attrs[o].items()})
                for n in Na:
                    fn = Counter()
                    for (meth, ctx, par), c in cci.attrs[n].items():
                        fn[(back.get(meth, meth), ctx, par)] += c
                    inter = sum((fo & fn).values())
                    union = sum((fo | fn).values())
                    loose_o = Counter(k[0] for k in fo.elements())
                    loose_n = Counter(k[0] for k in fn.elements())
                    li, lu = sum((loose_o & loose_n).values()), sum((loose_o | loose_n).values())
                    s = 0.45 * (inter / float(union) if union else 0.0) + 0.35 * (li / float(lu) if lu else 0.0) + 0.20 * _ratio(o, n)
                    sc[(o, n)] = s
            mmap.update(_greedy(sc, THRESHOLD_ATTR))
        if mmap:
            rn.members[(m, cname)] = mmap
            for n, o in mmap.items():
                votes[(n, o)] += 1
    # a subclass (other module) that only *uses* a renamed inherited member: adopt the pair chosen where the member is defined
    chosen = defaultdict(set)
    for (n, o), _ in votes.items():
        chosen[n].add(o)
    for m, (rf, rc, rcls) in ref_info.items():
        if m not in cur_info:
            continue
        for cname, rci in rcls.items():
            cci = cur_info[m][2].get(cname)
            if cci is None:
                continue
            ref_members = set(rci.methods) | set(rci.attrs)
            cur_members = set(cci.methods) | set(cci.attrs)
            V, N = ref_members - cur_members, cur_members - ref_members
            mm = rn.members.setdefault((m, cname), {})
            for n in N:
                if n not in mm and len(chosen.get(n, ())) == 1:
                    o = next(iter(chosen[n]))
                    if o in V and o not in mm.values():
                        mm[n] = o
            if not mm:
                del rn.members[(m, cname)]
    # ---------------------------------------------------------------- module level
    for m, (rf, rc, rcls) in ref_info.items():
        if m not in cur_info:
            continue
        cf, cc, ccls = cur_info[m]
        tmap = {}
        V, N = set(rf) - set(cf), set(cf) - set(rf)
        if V and N:
            tmap.update(_greedy(_func_scores(rf, cf, V, N, stable, ref_uses, cur_uses), THRESHOLD_FUNC))
        V, N = set(rc) - set(cc) - set(cf) - set(ccls), set(cc) - set(rc) - set(rf) - set(rcls)
        if V and N:
            sc = {}
            for o in V:
                for n in N:
                    if ast.dump(rc[o]) == ast.dump(cc[n]):
                        sc[(o, n)] = 0.6 + 0.4 * _ratio(o, n)
            tmap.update(_greedy(sc, 0.0))
        if tmap:
            rn.toplevel[m] = tmap
    # ---------------------------------------------------------------- parameters (same index, different name)
    def fn_pairs():
        for m, (rf, rc, rcls) in ref_info.items():
            if m not in cur_info:
                continue
            cf, cc, ccls = cur_info[m]
            back = {o: n for n, o in rn.toplevel.get(m, {}).items()}
            for name, fo in rf.items():
                fn = cf.get(back.get(name, name))
                if fn is not None:
                    yield (m, None, name), fo, fn
            for cname, rci in rcls.items():
                cci = ccls.get(cname)
                if cci is None:
                    continue
                back = {o: n for n, o in rn.members.get((m, cname), {}).items()}
                for name, fos in rci.methods.items():
                    fns = cci.methods.get(back.get(name, name))
                    if fns and len(fns) == len(fos):
                        for fo, fn in zip(fos, fns):
                            yield (m, cname, name), fo, fn
    for key, fo, fn in fn_pairs():
        ao = [a.arg for a in fo.args.posonlyargs + fo.args.args + fo.args.kwonlyargs]
        an = [a.arg for a in fn.args.posonlyargs + fn.args.args + fn.args.kwonlyargs]
        if len(ao) != len(an) or ao == an or set(ao) == set(an):
            continue
        bound_cur = {x.id for x in ast.walk(fn) if isinstance(x, ast.Name)} | set(an)
        pm = {}
        for o, n in zip(ao, an):
            if o != n and o not in bound_cur and n not in ao:
                pm[n] = o
        if pm:
            rn.params.setdefault(key, {}).update(pm)
    for (m, c), mm in sorted(rn.members.items()):
        for n, o in sorted(mm.items()):
            rn.log.append("%s:%s.%s (reference name %s)" % (m, c, n, o))
    for m, mm in sorted(rn.toplevel.items()):
        for n, o in sorted(mm.items()):
            rn.log.append("%s:%s (reference name %s)" % (m, n, o))
    for (m, c, f), mm in sorted(rn.params.items(), key=lambda kv: (kv[0][0], kv[0][1] or "", kv[0][2])):
        for n, o in sorted(mm.items()):
            rn.log.append("%s:%s%s(%s) (reference parameter name %s)" % (m, c + "." if c else "", f, n, o))
    return rn


def apply(cur_trees, rn):
    """Rewrite the current trees with the reference names (in place)."""
    if not rn:
        return
    # ---- member names: a new name maps to one old name package-wide, or it is applied on self-receivers of its class only
    glob = defaultdict(set)
    for (m, c), mm in rn.members.items():
        for n, o in mm.items():
            glob[n].add(o)
    # (a name the reference also uses for something else is never rewritten outside the classes it was replaced in)
    unamb = {n: next(iter(os_)) for n, os_ in glob.items() if len(os_) == 1 and n not in getattr(rn, 'ref_names', ())}
    for m, tree in cur_trees.items():
        for st in tree.body:
            if isinstance(st, ast.ClassDef):
                mm = rn.members.get((m, st.name), {})
                for fn in st.body:
                    if isinstance(fn, (ast.FunctionDef, ast.AsyncFunctionDef)) and fn.name in mm:
                        fn.name = mm[fn.name]
                    if isinstance(fn, (ast.FunctionDef, ast.AsyncFunctionDef)):
                        for d in fn.decorator_list:           # @x.setter
                            if isinstance(d, ast.Attribute) and isinstance(d.value, ast.Name) and d.value.id in mm:
                                d.value.id = mm[d.value.id]
                ref_pairs = rn.ref_receiver_pairs.get((m, st.name), set()) if hasattr(rn, "ref_receiver_pairs") else set()
                for n in ast.walk(st):
                    if not (isinstance(n, ast.Attribute) and n.attr in mm):
                        continue
                    if isinstance(n.value, ast.Name) and n.value.id in ("self", "cls"):
                        n.attr = mm[n.attr]
                    else:
                        # another receiver (`self._owner.x`): the replaced member is meant when the reference class reads
                        # `self._owner.<old>` and never `self._owner.<new>` (the owner class replaced it the same way)
                        recv = ast.unparse(n.value)
                        if (recv, mm[n.attr]) in ref_pairs and (recv, n.attr) not in ref_pairs:
                            n.attr = mm[n.attr]
        for n in ast.walk(tree):
            if isinstance(n, ast.Attribute) and n.attr in unamb:
                n.attr = unamb[n.attr]
    # ---- module-level names
    for m, mm in rn.toplevel.items():
        tree = cur_trees[m]
        for n in ast.walk(tree):
            if isinstance(n, ast.Name) and n.id in mm:
                n.id = mm[n.id]
            elif isinstance(n, (ast.FunctionDef, ast.AsyncFunctionDef)) and n in tree.body and n.name in mm:
                n.name = mm[n.name]
        for m2, tree2 in cur_trees.items():
            local = {}
            for st in tree2.body:
                if isinstance(st, ast.ImportFrom) and st.module == m:
                    for al in st.names:
                        if al.name in mm:
                            if al.asname is None:
                                local[al.name] = mm[al.name]
                            al.name = mm[al.name]
            if local:
                for n in ast.walk(tree2):
                    if isinstance(n, ast.Name) and n.id in local:
                        n.id = local[n.id]
            for n in ast.walk(tree2):          # module.attribute access
                if isinstance(n, ast.Attribute) and n.attr in mm and isinstance(n.value, ast.Name) and n.value.id == m.split(".")[-1]:
                    n.attr = mm[n.attr]
    # ---- parameters
    by_callee = defaultdict(list)             # simple callee name -> [param map]
    for (m, c, f), pm in rn.params.items():
        tree = cur_trees[m]
        target = None
        for st in tree.body:
            if c is None and isinstance(st, (ast.FunctionDef, ast.AsyncFunctionDef)) and st.name == f:
                target = [st]
            elif c is not None and isinstance(st, ast.ClassDef) and st.name == c:
                target = [x for x in st.body if isinstance(x, (ast.FunctionDef, ast.AsyncFunctionDef)) and x.name == f]
        for fn in target or []:
            for n in ast.walk(fn):
                if isinstance(n, ast.arg) and n.arg in pm:
                    n.arg = pm[n.arg]
                elif isinstance(n, ast.Name) and n.id in pm:
                    n.id = pm[n.id]
        by_callee[c if f == "__init__" else f].append(pm)
    if by_callee:
        # a keyword is renamed at a call site when every function of that simple name agrees on what the keyword is
        defs = defaultdict(list)
        for m, tree in cur_trees.items():
            for st in tree.body:
                if isinstance(st, (ast.FunctionDef, ast.AsyncFunctionDef)):
                    defs[st.name].append(st)
                elif isinstance(st, ast.ClassDef):
                    for x in st.body:
                        if isinstance(x, (ast.FunctionDef, ast.AsyncFunctionDef)):
                            defs[st.name if x.name == "__init__" else x.name].append(x)
        # calls on self inside the class whose method was changed: that method's own map (no other definition is meant)
        done_calls = set()
        for (m, c, f_), pm in rn.params.items():
            if c is None:
                continue
            for st in cur_trees[m].body:
                if isinstance(st, ast.ClassDef) and st.name == c:
                    for n in ast.walk(st):
                        if isinstance(n, ast.Call) and n.keywords and isinstance(n.func, ast.Attribute) and n.func.attr == f_ \
                                and isinstance(n.func.value, ast.Name) and n.func.value.id == "self":
                            for kw in n.keywords:
                                if kw.arg in pm:
                                    kw.arg = pm[kw.arg]
                            done_calls.add(id(n))
        for m, tree in cur_trees.items():
            for n in ast.walk(tree):
                if not isinstance(n, ast.Call) or not n.keywords or id(n) in done_calls:
                    continue
                name = n.func.attr if isinstance(n.func, ast.Attribute) else n.func.id if isinstance(n.func, ast.Name) else None
                if name not in by_callee:
                    continue
                for kw in n.keywords:
                    if kw.arg is None:
                        continue
                    olds = {pm[kw.arg] for pm in by_callee[name] if kw.arg in pm}
                    if len(olds) != 1:
                        continue
                    # no current definition of that name still has a parameter called kw.arg (they were renamed above)
                    if any(kw.arg in [a.arg for a in d.args.posonlyargs + d.args.args + d.args.kwonlyargs] for d in defs.get(name, [])):
                        continue
                    kw.arg = next(iter(olds))


def _scalar_literal(v):
    if isinstance(v, ast.Constant) and isinstance(v.value, (str, int, float, bool, bytes, type(None))):
        return True
    if isinstance(v, ast.UnaryOp) and isinstance(v.op, ast.USub) and isinstance(v.operand, ast.Constant) \
            and isinstance(v.operand.value, (int, float)):
        return True
    if isinstance(v, ast.Tuple):
        return all(_scalar_literal(x) for x in v.elts)
    return False


def _membership_table(v):
    """[A, B] / (A, "x"): a list or tuple of names and scalars - inlined only where it is tested for membership or iterated."""
    return isinstance(v, (ast.List, ast.Tuple)) and v.elts and all(isinstance(x, ast.Name) or _scalar_literal(x) for x in v.elts)


class _Inline(ast.NodeTransformer):
    def __init__(self, values):
        self.values = values
        self.shadow = [set()]

    def _fn(self, node):
        bound = {a.arg for a in node.args.posonlyargs + node.args.args + node.args.kwonlyargs}
        if node.args.vararg:
            bound.add(node.args.vararg.arg)
        if node.args.kwarg:
            bound.add(node.args.kwarg.arg)
        for n in ast.walk(node):
            if isinstance(n, ast.Name) and isinstance(n.ctx, (ast.Store, ast.Del)):
                bound.add(n.id)
        self.shadow.append(self.shadow[-1] | bound)
        self.generic_visit(node)
        self.shadow.pop()
        return node

    visit_FunctionDef = _fn
    visit_AsyncFunctionDef = _fn
    visit_Lambda = _fn

    def visit_Name(self, n):
        if isinstance(n.ctx, ast.Load) and n.id in self.values and n.id not in self.shadow[-1]:
            import copy
            new = copy.deepcopy(self.values[n.id])
            for x in ast.walk(new):
                ast.copy_location(x, n)
            new._was_name = n.id
            return new
        return n


def inline_new_constants(cur_trees, pkg="shexer"):
    """Literal extraction: a module-level name that the reference does not know anywhere, bound once to a scalar literal (or a
    tuple of them), is replaced by its value at every use - in its module and in modules that import it.  The rules then see the
    literal the reference had.  Returns the list of inlined names."""
    ref_trees = _load_reference(pkg)
    if ref_trees is None:
        return []
    ref_names = set()
    for t in ref_trees.values():
        for n in ast.walk(t):
            if isinstance(n, ast.Name):
                ref_names.add(n.id)
            elif isinstance(n, ast.alias):
                ref_names.add(n.asname or n.name)
    done = []
    per_module = {}
    for m, tree in cur_trees.items():
        count = Counter()
        globs = set()
        for n in ast.walk(tree):
            if isinstance(n, ast.Global):
                globs.update(n.names)
        for st in tree.body:
            if isinstance(st, ast.Assign):
                for t in st.targets:
                    for x in ast.walk(t):
                        if isinstance(x, ast.Name):
                            count[x.id] += 1
        vals = {}
        for st in tree.body:
            if isinstance(st, ast.Assign) and len(st.targets) == 1 and isinstance(st.targets[0], ast.Name):
                name = st.targets[0].id
                if name not in ref_names and count[name] == 1 and name not in globs and _scalar_literal(st.value):
                    vals[name] = st.value
                elif name not in ref_names and count[name] == 1 and name not in globs and _membership_table(st.value):
                    # every use in the package must be `x in NAME` / `for x in NAME`
                    uses_ok = True
                    for t2 in cur_trees.values():
                        pm = {}
                        for p_ in ast.walk(t2):
                            for c_ in ast.iter_child_nodes(p_):
                                pm[c_] = p_
                        for n2 in ast.walk(t2):
                            if isinstance(n2, ast.Name) and n2.id == name and isinstance(n2.ctx, ast.Load):
                                par = pm.get(n2)
                                ok2 = (isinstance(par, ast.Compare) and len(par.ops) == 1 and isinstance(par.ops[0], (ast.In, ast.NotIn))
                                       and par.comparators[0] is n2) or (isinstance(par, (ast.For, ast.comprehension)) and par.iter is n2)
                                uses_ok = uses_ok and ok2
                    if uses_ok:
                        vals[name] = st.value
        if vals:
            per_module[m] = vals
    for m, vals in per_module.items():
        tree = cur_trees[m]
        keep = [st for st in tree.body]
        tr = _Inline(vals)
        for i, st in enumerate(tree.body):
            if isinstance(st, ast.Assign) and len(st.targets) == 1 and isinstance(st.targets[0], ast.Name) and st.targets[0].id in vals:
                continue
            tree.body[i] = tr.visit(st)
        done += ["%s:%s" % (m, k) for k in sorted(vals)]
    for m2, tree2 in cur_trees.items():
        imported = {}
        for st in tree2.body:
            if isinstance(st, ast.ImportFrom) and st.module in per_module:
                for al in st.names:
                    if al.name in per_module[st.module]:
                        imported[al.asname or al.name] = per_module[st.module][al.name]
        if imported:
            # the names a table mentions come along (they are bound in the module the table was written in)
            bound_here = set()
            for st in tree2.body:
                if isinstance(st, (ast.FunctionDef, ast.ClassDef)):
                    bound_here.add(st.name)
                elif isinstance(st, ast.Assign):
                    bound_here.update(x.id for t in st.targets for x in ast.walk(t) if isinstance(x, ast.Name))
                elif isinstance(st, (ast.Import, ast.ImportFrom)):
                    bound_here.update((al.asname or al.name).split(".")[0] for al in st.names)
            need = {}
            for st in tree2.body:
                if isinstance(st, ast.ImportFrom) and st.module in per_module:
                    for al in st.names:
                        if al.name in per_module[st.module]:
                            for x in ast.walk(per_module[st.module][al.name]):
                                if isinstance(x, ast.Name) and x.id not in bound_here:
                                    need.setdefault(st.module, set()).add(x.id)
            for mod_, names_ in need.items():
                imp = ast.ImportFrom(module=mod_, names=[ast.alias(name=n_, asname=None) for n_ in sorted(names_)], level=0)
                imp.lineno = imp.col_offset = 0
                tree2.body.insert(0, imp)
            tr = _Inline(imported)
            for i, st in enumerate(tree2.body):
                if not isinstance(st, (ast.Import, ast.ImportFrom)):
                    tree2.body[i] = tr.visit(st)
            ast.fix_missing_locations(tree2)
    return done


def _pure_path(e):
    while isinstance(e, (ast.Attribute, ast.Subscript)):
        if isinstance(e, ast.Subscript) and not _pure_path(e.slice) and not isinstance(e.slice, ast.Constant):
            return False
        e = e.value
    return isinstance(e, (ast.Name, ast.Constant))


class _Lower(ast.NodeTransformer):
    """`for k, v in X.items(): B` reads the same table as `for k in X: v = X[k]; B`: the rules that follow a value to the
    table entry it was read from (counts, figures) see one form."""
    def visit_For(self, n):
        self.generic_visit(n)
        it = n.iter
        if isinstance(it, ast.Call) and isinstance(it.func, ast.Attribute) and it.func.attr == "items" and not it.args and not it.keywords \
                and isinstance(n.target, ast.Tuple) and len(n.target.elts) == 2 and all(isinstance(x, ast.Name) for x in n.target.elts) \
                and _pure_path(it.func.value) and not n.orelse:
            k, v = n.target.elts
            import copy
            read = ast.Assign(targets=[ast.Name(v.id, ast.Store())],
                              value=ast.Subscript(value=copy.deepcopy(it.func.value), slice=ast.Name(k.id, ast.Load()), ctx=ast.Load()))
            ast.copy_location(read, n)
            for x in ast.walk(read):
                ast.copy_location(x, n.target)
            n.target = ast.Name(k.id, ast.Store())
            ast.copy_location(n.target, k)
            n.iter = it.func.value
            n.body = [read] + n.body
        elif isinstance(it, ast.Call) and isinstance(it.func, ast.Attribute) and it.func.attr == "values" and not it.args and not it.keywords \
                and isinstance(n.target, ast.Name) and _pure_path(it.func.value) and not n.orelse:
            # `for v in D.values()` reads the same entries: `for k in D: v = D[k]` with a key nobody else uses
            import copy
            key = "_key_of_%s_%d" % (n.target.id, n.lineno)
            read = ast.Assign(targets=[ast.Name(n.target.id, ast.Store())],
                              value=ast.Subscript(value=copy.deepcopy(it.func.value), slice=ast.Name(key, ast.Load()), ctx=ast.Load()))
            ast.copy_location(read, n)
            for x in ast.walk(read):
                ast.copy_location(x, n.target)
            new_t = ast.Name(key, ast.Store())
            ast.copy_location(new_t, n.target)
            n.target = new_t
            n.iter = it.func.value
            n.body = [read] + n.body
        return n


class _SplitTupleAssign(ast.NodeTransformer):
    """`a, b = E1, E2` (none of the E's reads a or b) is `a = E1; b = E2`."""
    def visit_Assign(self, n):
        if len(n.targets) == 1 and isinstance(n.targets[0], ast.Tuple) and isinstance(n.value, ast.Tuple) \
                and len(n.targets[0].elts) == len(n.value.elts) and all(isinstance(t, ast.Name) for t in n.targets[0].elts) \
                and not any(isinstance(e, ast.Starred) for e in n.value.elts):
            names = {t.id for t in n.targets[0].elts}
            if not any(isinstance(x, ast.Name) and x.id in names for e in n.value.elts for x in ast.walk(e)):
                out = []
                for t, e in zip(n.targets[0].elts, n.value.elts):
                    a = ast.Assign(targets=[ast.Name(t.id, ast.Store())], value=e)
                    ast.copy_location(a, n)
                    out.append(a)
                return out
        return n


def _expand_kwargs_dicts(fn):
    """`common = dict(a=x, b=y)` ... `f(**common)` ... `g(**common)`: the keyword arguments are written out at the calls (the local
    is only ever splatted, its values are plain names / attributes / constants)."""
    import copy
    for _ in range(4):
        cands = {}
        for n in ast.walk(fn):
            if isinstance(n, ast.Assign) and len(n.targets) == 1 and isinstance(n.targets[0], ast.Name):
                v, pairs = n.value, None
                if isinstance(v, ast.Call) and isinstance(v.func, ast.Name) and v.func.id == "dict" and not v.args and v.keywords \
                        and all(k.arg is not None for k in v.keywords):
                    pairs = [(k.arg, k.value) for k in v.keywords]
                elif isinstance(v, ast.Dict) and v.keys and all(isinstance(k, ast.Constant) and isinstance(k.value, str) and k.value.isidentifier()
                                                                 for k in v.keys):
                    pairs = [(k.value, val) for k, val in zip(v.keys, v.values)]
                if pairs and all(isinstance(val, (ast.Name, ast.Attribute, ast.Constant)) for _, val in pairs):
                    cands.setdefault(n.targets[0].id, []).append((n, pairs))
        done = False
        for name, defs in cands.items():
            if len(defs) != 1:
                continue
            node, pairs = defs[0]
            uses = [x for x in ast.walk(fn) if isinstance(x, ast.Name) and x.id == name and x is not node.targets[0]]
            splats = [k for c in ast.walk(fn) if isinstance(c, ast.Call) for k in c.keywords if k.arg is None and isinstance(k.value, ast.Name)
                      and k.value.id == name]
            if not splats or len(uses) != len(splats):
                continue
            for c in ast.walk(fn):
                if isinstance(c, ast.Call) and any(k.arg is None and isinstance(k.value, ast.Name) and k.value.id == name for k in c.keywords):
                    new = []
                    for k in c.keywords:
                        if k.arg is None and isinstance(k.value, ast.Name) and k.value.id == name:
                            new.extend(ast.keyword(arg=a, value=copy.deepcopy(v)) for a, v in pairs)
                        else:
                            new.append(k)
                    c.keywords = new
            for x in ast.walk(fn):
                for fld in ("body", "orelse", "finalbody"):
                    blk = getattr(x, fld, None)
                    if isinstance(blk, list) and any(s_ is node for s_ in blk):
                        setattr(x, fld, [s_ for s_ in blk if s_ is not node] or [ast.Pass()])
            done = True
            break
        if not done:
            break
    return fn


class _LoopGuards(ast.NodeTransformer):
    """In a loop body, `if c: continue` followed by REST is `if not c: REST` (the structured form the code base uses and the
    loop rules read: "nothing leaves the loop early" is about items that are skipped without being looked at)."""
    def _body(self, stmts):
        from .canon import negate
        out = []
        for i, st in enumerate(stmts):
            if isinstance(st, ast.If) and not st.orelse and st.body and isinstance(st.body[-1], ast.Continue) and stmts[i + 1:]:
                rest = self._body(stmts[i + 1:])
                if len(st.body) == 1:
                    new = ast.If(test=negate(st.test), body=rest, orelse=[])
                else:
                    # `if c: A; continue` + REST  ->  `if c: A else: REST`
                    new = ast.If(test=st.test, body=st.body[:-1], orelse=rest)
                    from .canon import _is_negated
                    if _is_negated(new.test):
                        new = ast.If(test=negate(new.test), body=new.orelse, orelse=new.body)
                ast.copy_location(new, st)
                out.append(new)
                return out
            out.append(st)
        return out

    def visit_For(self, n):
        self.generic_visit(n)
        n.body = self._body(n.body)
        return n

    visit_While = visit_For


def lower_idioms(cur_trees):
    for t in cur_trees.values():
        _Lower().visit(t)
        _SplitTupleAssign().visit(t)
        for n_ in ast.walk(t):
            if isinstance(n_, ast.FunctionDef):
                _expand_kwargs_dicts(n_)
        _LoopGuards().visit(t)
        ast.fix_missing_locations(t)


def reference_identifiers(pkg="shexer"):
    """Every identifier the reference tree uses (definitions, attributes, names, imports); None without a reference."""
    ref_trees = _load_reference(pkg)
    if ref_trees is None:
        return None
    out = set()
    for t in ref_trees.values():
        for n in ast.walk(t):
            if isinstance(n, (ast.FunctionDef, ast.AsyncFunctionDef, ast.ClassDef)):
                out.add(n.name)
            elif isinstance(n, ast.Attribute):
                out.add(n.attr)
            elif isinstance(n, ast.Name):
                out.add(n.id)
            elif isinstance(n, ast.alias):
                out.add(n.asname or n.name)
            elif isinstance(n, ast.arg):
                out.add(n.arg)
    return out
