"""CLI:  python -m sa check <ID> [--tier quick|thorough]   |   python -m sa replay <path>   |   python -m sa stats"""
import importlib
import json
import os
import sys
import time
import traceback
import warnings

warnings.filterwarnings("ignore", category=SyntaxWarning)

from .core import AnalysisError, Program            # noqa: E402
from .ctx import Ctx                                # noqa: E402
from . import report                                # noqa: E402


def run_check(prop, tier):
    t0 = time.time()
    ctx = Ctx()
    mod = importlib.import_module("sa.props." + prop.lower())
    res = mod.check(ctx, tier)
    obs, floors = res["obs"], res.get("floors", [])
    for o in obs:
        o.prop = prop
    info = dict(ctx.p.totals())
    info.update({"repo": ctx.p.repo, "resolved_intra_package_calls": ctx.r.stats()["intra_package_resolved"],
                 "api_reachable_functions": len(ctx.r.reachable)})
    pg = ctx.p
    info["normalisation_front_end"] = {
        "reference": "sources the rule anchors were confirmed on (/verif/reference); consulted only to tell which names are new",
        "names_mapped_back": list(getattr(pg.renames, "log", []))[:60], "constants_inlined": list(pg.inlined_constants)[:60],
        "helpers_inlined": list(pg.unextracted[0])[:60], "reference_helpers_put_back": list(pg.reextracted)[:60],
        "locals_written_out": list(pg.unhoisted)[:60], "stages_switched_off": list(pg.frontend_disabled)}
    f = ctx.floors()
    selfval = None
    if tier == "thorough":
        from . import selftest
        selfval = selftest.run(prop)
    from .props.clauses2 import extra, trusted
    return report.finish(prop, tier, obs, floors + f, info, t0, res["explanation"] + extra(prop), list(res["trusted"]) + trusted(prop),
                         selfval=selfval, extra_cov=res.get("coverage"), deferred=ctx.deferred)


def main(argv):
    if len(argv) >= 2 and argv[0] == "check":
        prop = argv[1].upper()
        tier = os.environ.get("VERIF_TIER", "quick")
        if "--tier" in argv:
            tier = argv[argv.index("--tier") + 1]
        try:
            return run_check(prop, tier)
        except AnalysisError as e:
            print("ANALYSIS-ERROR property=%s %s" % (prop, e))
            return 2
        except Exception:
            traceback.print_exc()
            print("ANALYSIS-ERROR property=%s internal error in the checker (see traceback)" % prop)
            return 2
    if len(argv) >= 2 and argv[0] == "replay":
        with open(argv[1]) as fh:
            rp = json.load(fh)
        prop = rp["property"]
        try:
            ctx = Ctx()
            mod = importlib.import_module("sa.props." + prop.lower())
            res = mod.check(ctx, "quick")
        except AnalysisError as e:
            print("ANALYSIS-ERROR property=%s %s" % (prop, e))
            return 2
        hit = [o for o in res["obs"] if o.key == rp["key"]]
        if not hit:
            print("replay: obligation %s no longer exists in the current tree" % rp["key"])
            return 0
        bad = [o for o in hit if not o.ok]
        for o in hit:
            print("replay: %s %s %s -> %s :: %s" % (o.loc, o.clause, o.rule, "discharged" if o.ok else "FAILED", o.msg))
        if bad:
            print("VIOLATION property=%s replay=%s" % (prop, argv[1]))
            return 1
        return 0
    if argv and argv[0] == "stats":
        ctx = Ctx()
        print(json.dumps({"totals": ctx.p.totals(), "resolver": ctx.r.stats()}, indent=1))
        return 0
    print(__doc__)
    return 2


if __name__ == "__main__":
    sys.exit(main(sys.argv[1:]))
