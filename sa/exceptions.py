"""Frozen exceptions: one construct + one reason each (DESIGN section 6).

An exception turns a failing obligation into a discharged one and prints its reason in
the evidence.  Keys are the obligation keys (rule | construct | normalised expression)."""

EXCEPTIONS = {
    # ------------------------------------------------------------------ R-NULL
    "R-NULL|Shaper._launch_instance_tracker|self._instance_tracker|self._instance_tracker.track_instances":
        "get_instance_tracker returns None only when there are neither selectors nor class targets; "
        "Shaper._check_target_classes rejects that configuration (decision table checked under C20 D-a)",
    "R-NULL|_query_endpoint_json_result|<local>|$1.msg":
        "the retry loop body runs at least once: max_retries is a positive constant at every call site "
        "(5 or 10), so last_error is assigned before the loop can end without returning",
    # ------------------------------------------------------------------- R-RET
    "R-RET|_query_endpoint_json_result":
        "falls off its end only after every retry failed with HTTPError/EndPointInternalError: an endpoint "
        "fault, outside the quantifier of C04/C15 (valid input, endpoint serves G)",
    # ----------------------------------------------------------------- R-RAISE
    "R-RAISE|ShaclSerializer._generate_shape_uri|raise ValueError('Unknown error, having trouble with a shape":
        "shape names on API paths come from build_shapes_name_for_class_uri / build_shape_name_for_qualifier_prop_uri, "
        "which always produce %<...> (checked under C05 D-a: label producers)",
    "R-RAISE|remove_corners|raise ValueError(\"Wrong parameter of function: '\" + a_uri + ":
        "reached from the serialisers only through prefixize_shape_name_if_possible(name[1:]) on %<...> labels, "
        "whose remainder is always <...>",
    "R-RAISE|AbstractShexingStrategy._statement_for_a_group_with_a_useless_positive_closure|raise ValueError('The received group does not contain any st":
        "only called under _is_a_group_of_statements_with_useless_positive_closure, which holds for a group of exactly "
        "two statements of which exactly one has cardinality '+': the loop returns the other one",
    "R-RAISE|FixedPropChoiceStatement.st_type|raise TypeError('Choice statements doesnt have a single type":
        "audited per reader instead of at the raise: every read of .st_type in a post-merge stage is an R-TS obligation",
    # -------------------------------------------------------------------- R-TS
    "R-TS|choice-read|ShaclSerializer._add_in_instance|statement.st_type":
        "reached only for statements of the instantiation property (_add_constraint dispatches on it); "
        "_group_node_constraints passes those through unmerged, so they are never choice statements",
    # ------------------------------------------------------------------- R-DET
    "R-DET|set|RdflibSgraph.yield_classes_with_instances|*":      # any set built in this method (the reason is about the method)
        "called only from produce_shape_map_according_to_input under all_classes_mode=True, which only "
        "_yielder_for_url_endpoint passes - together with an EndpointSGraph; for an RdflibSgraph the method is "
        "unreachable from the API (argument correlation the context-insensitive call graph cannot see)",
    # ------------------------------------------------------------------ R-SENT
    "R-SENT|BigTtlTriplesYielder._next_line_token|a_line.find('>', start_index)":
        "the token starts with '<': a valid Turtle statement always closes an IRI reference with '>' on the same line (dialect of C07)",
    "R-SENT|NtTriplesYielder._look_for_last_index_of_uri_token|*":            # however the substring is named or written
        "the token starts with '<': every IRIREF of a valid N-Triples statement is closed by '>'",
    "R-SENT|decide_literal_type|a_literal.rfind('\"')":
        "for a bare token (no quote) the slice from -1 is its last character, which cannot contain the type mark: the "
        "decision is xsd:string, as for the whole bare token before",
    "R-SENT|parse_literal|an_elem.find('\"', 1)":
        "parse_literal is only called (tune_token) on tokens that start with a quote, produced by scanners that located the closing quote",
    "R-SENT|NodeSelectorParser._parse_single_variable_select_query|string_query.find('{')":
        "runs after rdflib's prepareQuery accepted the text as a query: a SELECT/ASK/CONSTRUCT query always contains '{'",
    "R-SENT|NodeSelectorParser._parse_variable_in_single_variable_query|string_query.find('?')":
        "`find('?') + 1` - callers hand in either a query checked to contain exactly one '?' or the internally built `SELECT ?f ...`",
    # ------------------------------------------------------------------ R-PLUMB (untyped numbers)
    "R-PLUMB|infer_numeric_types_for_untyped_literals|NtTriplesYielder.yield_triples->tune_token":
        "the call without the flag is the subject position (a subject is never a bare number); the object position passes the flag",
    "R-PLUMB|infer_numeric_types_for_untyped_literals|TsvNtTriplesYielder.yield_triples->tune_token":
        "subject position relies on the default like the NT reader; the object position hard-codes True - the TSV reader types bare "
        "numbers whatever the user configured (a deviation between delivery formats, C08 territory, which static analysis does not claim; "
        "typed numbers still conform to their shapes)",
    "R-PLUMB|infer_numeric_types_for_untyped_literals|RdflibSgraph.add_triple->tune_token":
        "the local SGraph only serves shape-map node selection (query_single_variable / class membership); datatypes of its literals "
        "never reach a shape",
}


def apply(obs):
    n = 0
    wild = {k[:-1]: v for k, v in EXCEPTIONS.items() if k.endswith("|*")}
    for o in obs:
        why = EXCEPTIONS.get(o.key)
        if why is None:
            why = next((v for k, v in wild.items() if o.key.startswith(k)), None)
        if not o.ok and why is not None:
            o.ok = True
            o.msg = "frozen exception: " + why + " [was: " + o.msg + "]"
            n += 1
    return n
