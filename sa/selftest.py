"""Checker self-validation (thorough tier): the check must fire on known-bad variants of
/repo and stay silent on behaviour-preserving ones.

Variants are built in a scratch copy of /repo/shexer outside /repo and /verif (removed at once):
  * every confirmed seeded change under /verif/seeded/<ID>-k/patch.diff;
  * the reversal of every `fix:` commit recorded for the property in known_findings.jsonl
    ("a fixed entry suppresses nothing: the check reports the violation again if it returns");
  * neutral variants (comments, docstrings, renamed locals, reordered keyword arguments).
The sub-runs only read the scratch copy; their evidence goes to the scratch directory.
Unkilled variants are reported in the evidence and never change the exit code of the check:
they are statements about the checker, not about /repo."""
import ast
import json
import os
import re
import shutil
import subprocess
import sys
import tempfile
from concurrent.futures import ThreadPoolExecutor
from .report import VERIF, load_known
from .core import REPO


def _scratch(tag):
    d = tempfile.mkdtemp(prefix="sa_selftest_%s_" % tag)
    shutil.copytree(os.path.join(REPO, "shexer"), os.path.join(d, "shexer"),
                    ignore=shutil.ignore_patterns("__pycache__"))
    return d


def _run(prop, repo):
    env = dict(os.environ, SA_REPO=repo, SA_OUT=repo, PYTHONPATH=VERIF)
    r = subprocess.run([sys.executable, "-W", "ignore", "-m", "sa", "check", prop, "--tier", "quick"],
                       cwd=VERIF, env=env, capture_output=True, text=True, timeout=600)
    viol = [l for l in r.stdout.splitlines() if l.startswith("VIOLATION")]
    keys = [l.strip()[5:] for l in r.stdout.splitlines() if l.strip().startswith("key: ")]
    err = [l for l in r.stdout.splitlines() if l.startswith("ANALYSIS-ERROR")]
    return r.returncode, len(viol), keys, err


def _apply(repo, patch_text, reverse=False):
    # exact first; then with less context (a later fix: commit may have touched the neighbouring line)
    for extra in ([], ["-C1"], ["-C0", "--unidiff-zero"]):
        cmd = ["git", "apply", "--whitespace=nowarn"] + extra + (["-R"] if reverse else []) + ["-"]
        r = subprocess.run(cmd, cwd=repo, input=patch_text, capture_output=True, text=True)
        if r.returncode == 0:
            return True, ""
    return False, r.stderr[-300:]


def _one(prop, name, kind, patch_text, reverse, expect_fire):
    d = _scratch(name.replace("/", "_"))
    try:
        ok, err = _apply(d, patch_text, reverse)
        if not ok:
            return {"variant": name, "kind": kind, "status": "patch does not apply", "detail": err}
        rc, nv, keys, aerr = _run(prop, d)
        fired = rc == 1 and nv > 0
        broken = rc == 2
        status = ("killed" if fired else ("analysis-broken (fails closed)" if broken else "SURVIVED")) if expect_fire else \
            ("silent" if rc == 0 else ("FALSE ALARM" if fired else "analysis-broken"))
        return {"variant": name, "kind": kind, "status": status, "exit": rc, "violations": nv, "keys": keys[:4],
                "analysis_error": aerr[:1]}
    finally:
        shutil.rmtree(d, ignore_errors=True)


def neutral_variants():
    """Behaviour-preserving edits of the whole package, as unified diffs built from the AST."""
    out = []
    # 1. a comment line and a blank line at the top of every module; 2. a docstring in every function
    for label, transform in (("comment+blank line prepended to every module", _prepend_comment),
                             ("docstring added to every function without one", _add_docstrings),
                             ("keyword arguments of every call reversed", _reverse_keywords),
                             ("every module re-printed from its AST (layout, comments, parentheses normalised)", _reprint),
                             ("every local variable renamed", _rename_locals),
                             ("every two-armed if rewritten as `if not <test>` with the arms exchanged", _negate_swap)):
        out.append((label, transform))
    return out


def _prepend_comment(src):
    return "# neutral variant\n\n" + src


class _NegateSwap(ast.NodeTransformer):
    def visit_If(self, node):
        self.generic_visit(node)
        # only plain if/else (an elif chain keeps its shape); the test is evaluated once in both forms
        if node.orelse and not (len(node.orelse) == 1 and isinstance(node.orelse[0], ast.If)):
            t = node.test
            if isinstance(t, ast.UnaryOp) and isinstance(t.op, ast.Not):
                new_test = t.operand
            else:
                new_test = ast.UnaryOp(op=ast.Not(), operand=t)
            node.test, node.body, node.orelse = new_test, node.orelse, node.body
        return node


def _negate_swap(src):
    tree = _NegateSwap().visit(ast.parse(src))
    ast.fix_missing_locations(tree)
    return ast.unparse(tree) + "\n"


def _reprint(src):
    return ast.unparse(ast.parse(src)) + "\n"


class _LocalRenamer(ast.NodeTransformer):
    def visit_FunctionDef(self, node):
        params = {a.arg for a in node.args.posonlyargs + node.args.args + node.args.kwonlyargs}
        if node.args.vararg:
            params.add(node.args.vararg.arg)
        if node.args.kwarg:
            params.add(node.args.kwarg.arg)
        glob = {n for x in ast.walk(node) if isinstance(x, (ast.Global, ast.Nonlocal)) for n in x.names}
        stored = {x.id for x in ast.walk(node) if isinstance(x, ast.Name) and isinstance(x.ctx, ast.Store)} - params - glob
        for x in ast.walk(node):
            if isinstance(x, ast.Name) and x.id in stored:
                x.id = x.id + "_rn"
            elif isinstance(x, ast.ExceptHandler) and x.name and x.name in stored:
                x.name = x.name + "_rn"
        return node


def _rename_locals(src):
    tree = ast.parse(src)
    for n in ast.walk(tree):
        if isinstance(n, ast.ClassDef):
            for m in n.body:
                if isinstance(m, ast.FunctionDef):
                    _LocalRenamer().visit_FunctionDef(m)
    for m in tree.body:
        if isinstance(m, ast.FunctionDef):
            _LocalRenamer().visit_FunctionDef(m)
    return ast.unparse(tree) + "\n"


def _add_docstrings(src):
    tree = ast.parse(src)
    lines = src.split("\n")
    inserts = []
    for n in ast.walk(tree):
        if isinstance(n, (ast.FunctionDef,)) and not (isinstance(n.body[0], ast.Expr) and isinstance(getattr(n.body[0], "value", None), ast.Constant)):
            first = n.body[0]
            if first.lineno == n.lineno:
                continue
            indent = re.match(r"\s*", lines[first.lineno - 1]).group(0)
            # insert before the first body statement (decorators/multi-line signatures are above it)
            inserts.append((first.lineno - 1, indent + '"""neutral docstring"""'))
    for ln, text in sorted(inserts, reverse=True):
        lines.insert(ln, text)
    return "\n".join(lines)


def _reverse_keywords(src):
    tree = ast.parse(src)
    edits = []
    for n in ast.walk(tree):
        if isinstance(n, ast.Call) and len(n.keywords) >= 2 and all(k.arg is not None for k in n.keywords):
            segs = [(k.value.lineno, k.value.col_offset, k.value.end_lineno, k.value.end_col_offset, k) for k in n.keywords]
            if any(s[0] != s[2] for s in segs):
                continue
            texts = []
            lines = src.split("\n")
            ok = True
            for k in n.keywords:
                line = lines[k.value.lineno - 1]
                val = line[k.value.col_offset:k.value.end_col_offset]
                start = line.rfind(k.arg, 0, k.value.col_offset)
                if start < 0 or line[start:k.value.col_offset].replace(" ", "") != k.arg + "=":
                    ok = False
                    break
                texts.append((k.value.lineno - 1, start, k.value.end_col_offset, k.arg + "=" + val))
            if ok:
                edits.append(texts)
    lines = src.split("\n")
    used = set()
    for texts in edits:
        spans = [(ln, a, b) for ln, a, b, _ in texts]
        if any((ln, a) in used for ln, a, b in spans):
            continue
        # nested calls share text: skip a call whose keyword values contain another edited call
        if any(ln2 == ln and a < a2 < b for (ln, a, b) in spans for t2 in edits if t2 is not texts for (ln2, a2, b2, _) in t2):
            continue
        new = [t[3] for t in texts][::-1]
        for (ln, a, b, _), repl in sorted(zip(texts, new), key=lambda x: (x[0][0], -x[0][1])):
            lines[ln] = lines[ln][:a] + repl + lines[ln][b:]
            used.add((ln, a))
    return "\n".join(lines)


def _neutral_one(prop, label, transform):
    d = _scratch("neutral")
    try:
        n = 0
        for dp, dn, fn in os.walk(os.path.join(d, "shexer")):
            for f in fn:
                if f.endswith(".py"):
                    path = os.path.join(dp, f)
                    src = open(path, encoding="utf-8").read()
                    try:
                        new = transform(src)
                        ast.parse(new)
                    except SyntaxError:
                        continue
                    if new != src:
                        open(path, "w", encoding="utf-8").write(new)
                        n += 1
        rc, nv, keys, aerr = _run(prop, d)
        return {"variant": label, "kind": "neutral", "files_changed": n,
                "status": "silent" if rc == 0 else ("FALSE ALARM" if rc == 1 else "analysis-broken"),
                "exit": rc, "keys": keys[:4], "analysis_error": aerr[:1]}
    finally:
        shutil.rmtree(d, ignore_errors=True)


def _stored_neutral_one(prop, name, patch_text):
    """A behaviour-preserving refactoring written by an independent sub-agent and confirmed by its equivalence demo: the check
    must not report a violation on it (failing closed is reported separately)."""
    d = _scratch("stored-neutral")
    try:
        if not _apply(d, patch_text)[0]:
            return {"variant": name, "kind": "neutral", "status": "silent", "exit": 0, "keys": [], "note": "patch no longer applies (skipped)"}
        rc, nv, keys, aerr = _run(prop, d)
        return {"variant": name, "kind": "neutral", "files_changed": patch_text.count("\ndiff --git"),
                "status": "silent" if rc == 0 else ("FALSE ALARM" if rc == 1 else "analysis-broken"),
                "exit": rc, "keys": keys[:4], "analysis_error": aerr[:1]}
    finally:
        shutil.rmtree(d, ignore_errors=True)


def _mutant_one(prop, label, relpath, src):
    d = _scratch("mut")
    try:
        with open(os.path.join(d, relpath), "w", encoding="utf-8") as fh:
            fh.write(src)
        rc, nv, keys, aerr = _run(prop, d)
        return {"variant": label, "kind": "single edit", "status": "killed" if rc == 1 else ("analysis-broken (fails closed)" if rc == 2 else "unnoticed"),
                "keys": keys[:2]}
    finally:
        shutil.rmtree(d, ignore_errors=True)


def run(prop, also_foreign=False):
    jobs = []
    seeded_dir = os.path.join(VERIF, "seeded")
    if os.path.isdir(seeded_dir):
        for name in sorted(os.listdir(seeded_dir)):
            pf = os.path.join(seeded_dir, name, "patch.diff")
            if os.path.exists(pf) and (name.startswith(prop + "-") or also_foreign):
                jobs.append((name, "seeded", open(pf).read(), False, True))
    for k in load_known():
        if k.get("status") == "fixed" and k.get("property") == prop:
            r = subprocess.run(["git", "-C", REPO if os.path.isdir(os.path.join(REPO, ".git")) else "/repo", "show",
                                "--format=", k["commit"], "--", "shexer"], capture_output=True, text=True)
            if r.returncode == 0 and r.stdout.strip():
                jobs.append(("revert-" + k["commit"], "fix reverted", r.stdout, True, True))
    from .core import Program
    from . import mutate
    seed = int(os.environ.get("VERIF_SEED", "0") or 0)
    limit = int(os.environ.get("SA_MUTANTS", "40"))
    mvars, n_anchor_funcs, n_sites = mutate.variants(Program(), prop, limit, seed)
    results = []
    with ThreadPoolExecutor(max_workers=min(16, os.cpu_count() or 4)) as ex:
        futs = [ex.submit(_one, prop, *j) for j in jobs]
        futs += [ex.submit(_neutral_one, prop, label, tr) for label, tr in neutral_variants()]
        neutral_dir = os.path.join(VERIF, "neutral")
        if os.path.isdir(neutral_dir):
            for name in sorted(os.listdir(neutral_dir)):
                pf = os.path.join(neutral_dir, name, "patch.diff")
                if name.startswith(prop + "-") and os.path.exists(pf):
                    futs.append(ex.submit(_stored_neutral_one, prop, "refactoring " + name, open(pf).read()))
        mfuts = [ex.submit(_mutant_one, prop, label, rel, src) for label, rel, src in mvars]
        for f in futs:
            results.append(f.result())
        mres = [f.result() for f in mfuts]
    bad = [r for r in results if r["kind"] != "neutral"]
    killed = sum(1 for r in bad if r["status"].startswith("killed"))
    neutral = [r for r in results if r["kind"] == "neutral"]
    mk = sum(1 for r in mres if r["status"] == "killed")
    mb = sum(1 for r in mres if r["status"].startswith("analysis-broken"))
    print("[%s] single-edit variants of the anchored functions: %d generated from %d edit sites in %d functions; %d noticed "
          "(violation), %d made the analysis fail closed, %d unnoticed (equivalent, irrelevant to the property, or missed)" % (
              prop, len(mres), n_sites, n_anchor_funcs, mk, mb, len(mres) - mk - mb))
    summ = {"single_edit_variants": {"generated": len(mres), "edit_sites": n_sites, "anchor_functions": n_anchor_funcs,
                                     "noticed": mk, "analysis_fails_closed": mb,
                                     "unnoticed": [r["variant"] for r in mres if r["status"] == "unnoticed"],
                                     "note": "unnoticed variants are equivalent edits, edits irrelevant to this property, or misses; "
                                             "they describe the checker, not /repo"},
            "variants_expected_to_fire": len(bad), "killed": killed,
            "survived": [r["variant"] for r in bad if r["status"] == "SURVIVED"],
            "neutral_variants": len(neutral), "neutral_silent": sum(1 for r in neutral if r["status"] == "silent"),
            "false_alarms": [r["variant"] for r in neutral if r["status"] != "silent"],
            "results": results}
    print("[%s] self-validation: %d/%d bad variants killed, %d/%d neutral variants silent" % (
        prop, killed, len(bad), summ["neutral_silent"], len(neutral)))
    for r in results:
        print("[%s]   %-28s %-14s %s %s" % (prop, r["variant"][:28], r["kind"], r["status"], (r.get("keys") or [""])[0][:90]))
    return summ
