"""Re-extraction: helpers of the reference tree that a refactoring inlined into their callers are put back.

"Inline method" is the inverse of "extract method" and just as behaviour-neutral, but the function the rules anchor on is gone.
For every function F of the reference tree that no longer exists in the tree under analysis (after rename alignment), the bodies
of the functions that called F in the reference are searched for a copy of F's body:

  * F's parameters are pattern variables (bound to arbitrary expressions, consistently), F's locals are pattern variables bound
    to local names (consistently, one-to-one); everything else must be the same syntax tree (after the idiom-independent
    canonical form of sa/canon.py for each statement);
  * a procedure body must match a run of consecutive statements; a `return E` body must match a sub-expression;
  * every match is replaced by the call `self.F(param=binding, ...)` / `F(...)`, and F itself - the *reference* definition,
    which by construction is exactly what the matched code does - is added back to its class / module.

If no caller contains a copy, nothing happens (F stays vanished and the rules that need it fail closed).  Two module-level moves
are undone first: a vanished method whose name reappears as a function of the same module with the same parameters (minus self)
is put back into the class as a static method, and its plain calls become `Class.name(...)` calls."""
import ast
import copy

from .canon import canonical, _block


class _Fail(Exception):
    pass


def _unify(pat, tgt, pvars, lvars, bind):
    """Match pattern node against target node, extending bind (name -> ast node for params, name -> str for locals)."""
    if isinstance(pat, ast.Name):
        if pat.id in pvars:
            if not isinstance(pat.ctx, ast.Load):
                raise _Fail()
            if not isinstance(tgt, ast.expr):
                raise _Fail()
            prev = bind.get(pat.id)
            if prev is None:
                bind[pat.id] = tgt
            elif ast.dump(prev) != ast.dump(tgt):
                raise _Fail()
            return
        if pat.id in lvars:
            if not isinstance(tgt, ast.Name) or type(pat.ctx) is not type(tgt.ctx):
                raise _Fail()
            prev = bind.get(pat.id)
            if prev is None:
                if tgt.id in [v for k, v in bind.items() if k in lvars and isinstance(v, str)]:
                    raise _Fail()
                bind[pat.id] = tgt.id
            elif prev != tgt.id:
                raise _Fail()
            return
    if type(pat) is not type(tgt):
        raise _Fail()
    if isinstance(pat, ast.AST):
        for field in pat._fields:
            if field in ("ctx", "lineno", "col_offset", "end_lineno", "end_col_offset", "type_comment", "kind"):
                continue
            _unify(getattr(pat, field, None), getattr(tgt, field, None), pvars, lvars, bind)
        return
    if isinstance(pat, list):
        if len(pat) != len(tgt):
            raise _Fail()
        for a, b in zip(pat, tgt):
            _unify(a, b, pvars, lvars, bind)
        return
    if pat != tgt:
        raise _Fail()


def _body_of(fn):
    b = fn.body
    if b and isinstance(b[0], ast.Expr) and isinstance(b[0].value, ast.Constant) and isinstance(b[0].value.value, str):
        b = b[1:]
    return b


class _Pattern:
    def __init__(self, fn, is_method):
        self.fn = fn
        decos = [ast.unparse(d) for d in fn.decorator_list]
        self.static = decos == ["staticmethod"]
        self.ok = (not decos or self.static) and not fn.args.vararg and not fn.args.kwarg
        params = [a.arg for a in fn.args.posonlyargs + fn.args.args + fn.args.kwonlyargs]
        self.uses_self = is_method and not self.static
        if self.uses_self:
            params = params[1:]
        self.params = params
        n_def = len(fn.args.defaults)
        pos = [a.arg for a in fn.args.args]
        self.defaults = set(pos[len(pos) - n_def:]) | {a.arg for a, d in zip(fn.args.kwonlyargs, fn.args.kw_defaults) if d is not None}
        cfn = canonical(fn)
        body = _body_of(cfn)
        while body and isinstance(body[-1], ast.Return) and body[-1].value is None:
            body = body[:-1]
        self.body = body
        inner = [n for s in body for n in ast.walk(s)]
        self.locals = {n.id for n in inner if isinstance(n, ast.Name) and isinstance(n.ctx, (ast.Store, ast.Del))} - set(params)
        rets = [n for n in inner if isinstance(n, ast.Return)]
        ys = [n for n in inner if isinstance(n, (ast.Yield, ast.YieldFrom))]
        self.kind = None
        if ys or not body:
            self.ok = False
        elif not rets:
            self.kind = "proc"
        elif len(rets) == 1 and len(body) == 1 and body[0] is rets[0] and rets[0].value is not None:
            self.kind = "expr"
        else:
            self.ok = False
        if any(isinstance(n, ast.Name) and n.id in params and not isinstance(n.ctx, ast.Load) for n in inner):
            self.ok = False
        # a body that mentions none of its parameters and is a single trivial statement would match too much
        self.size = len(inner)

    def call(self, name, bind, cls_name, at, caller_cls=None):
        kws = []
        for p in self.params:
            if p in bind:
                kws.append(ast.keyword(arg=p, value=copy.deepcopy(bind[p])))
            elif p not in self.defaults:
                return None
        if cls_name is None:
            func = ast.Name(name, ast.Load())
        elif caller_cls is not None and caller_cls != cls_name:
            # the copy sits in another class: only a static helper can be called from there, as Class.f(...)
            if not self.static:
                return None
            func = ast.Attribute(value=ast.Name(cls_name, ast.Load()), attr=name, ctx=ast.Load())
        else:
            func = ast.Attribute(value=ast.Name("self", ast.Load()), attr=name, ctx=ast.Load())
        c = ast.Call(func=func, args=[], keywords=kws)
        ast.copy_location(c, at)
        ast.fix_missing_locations(c)
        return c


def _canon_stmts(stmts):
    wrap = ast.FunctionDef(name="w", args=ast.arguments(posonlyargs=[], args=[], kwonlyargs=[], kw_defaults=[], defaults=[]),
                           body=[copy.deepcopy(s) for s in stmts] or [ast.Pass()], decorator_list=[], lineno=0, col_offset=0)
    ast.fix_missing_locations(wrap)
    return canonical(wrap).body


def _replace_in_block(stmts, pat, name, cls_name, counter, caller_cls=None):
    """Replace runs of statements that are a copy of the pattern body (proc) - returns the new list."""
    n = len(pat.body)
    out, i = [], 0
    while i < len(stmts):
        done = False
        for k in (n, n + 1, n + 2):              # the copy may be written with a few more statements than its canonical form
            if done or i + k > len(stmts):
                break
            window = stmts[i:i + k]
            try:
                cw = _canon_stmts(window)
                if len(cw) == n:
                    bind = {}
                    _unify(pat.body, cw, set(pat.params), pat.locals, bind)
                    # the locals of the copy must not be used outside the copy
                    used_out = {x.id for s in stmts[:i] + stmts[i + n:] for x in ast.walk(s) if isinstance(x, ast.Name)}
                    if not any(isinstance(v, str) and v in used_out for k, v in bind.items() if k in pat.locals):
                        c = pat.call(name, bind, cls_name, window[0], caller_cls)
                        if c is not None:
                            e = ast.Expr(value=c)
                            ast.copy_location(e, window[0])
                            out.append(e)
                            counter.append(name)
                            i += k
                            done = True
            except _Fail:
                pass
        if not done:
            st = stmts[i]
            for field in ("body", "orelse", "finalbody"):
                blk = getattr(st, field, None)
                if isinstance(blk, list) and blk and isinstance(blk[0], ast.stmt):
                    setattr(st, field, _replace_in_block(blk, pat, name, cls_name, counter, caller_cls))
            for h in getattr(st, "handlers", []) or []:
                h.body = _replace_in_block(h.body, pat, name, cls_name, counter, caller_cls)
            out.append(st)
            i += 1
    return out


class _ReplaceExpr(ast.NodeTransformer):
    def __init__(self, pat, name, cls_name, counter, caller_cls=None):
        self.pat, self.name, self.cls_name, self.counter, self.caller_cls = pat, name, cls_name, counter, caller_cls
        self.target = pat.body[0].value

    def generic_visit(self, node):
        node = super().generic_visit(node)
        if isinstance(node, ast.expr) and type(node) is type(self.target):
            try:
                bind = {}
                _unify(self.target, node, set(self.pat.params), set(), bind)
                c = self.pat.call(self.name, bind, self.cls_name, node, self.caller_cls)
                if c is not None:
                    self.counter.append(self.name)
                    return c
            except _Fail:
                pass
        return node


def _functions(tree):
    """{(class or None, name): FunctionDef} of a module tree (first definition wins)."""
    out = {}
    for st in tree.body:
        if isinstance(st, ast.FunctionDef):
            out.setdefault((None, st.name), st)
        elif isinstance(st, ast.ClassDef):
            for x in st.body:
                if isinstance(x, ast.FunctionDef):
                    out.setdefault((st.name, x.name), x)
    return out


def unmove(cur_trees, ref_trees):
    """A method of the reference that is now a function of the same module (same parameters without self) goes back into its
    class as a static method; plain calls in that module become Class.name(...) calls."""
    done = []
    for m, rt in ref_trees.items():
        ct = cur_trees.get(m)
        if ct is None:
            continue
        rf, cf = _functions(rt), _functions(ct)
        for (c, name), rdef in rf.items():
            if c is None or (c, name) in cf or (None, name) not in cf or (None, name) in rf:
                continue
            cdef = cf[(None, name)]
            rparams = [a.arg for a in rdef.args.args]
            static_ref = any(ast.unparse(d) == "staticmethod" for d in rdef.decorator_list)
            if not static_ref:
                rparams = rparams[1:]
            if len(rparams) != len(cdef.args.args) or cdef.decorator_list:
                continue
            cls = next((st for st in ct.body if isinstance(st, ast.ClassDef) and st.name == c), None)
            if cls is None:
                continue
            ct.body.remove(cdef)
            cdef.decorator_list = [ast.Name("staticmethod", ast.Load())]
            cls.body.append(cdef)
            class _Ref(ast.NodeTransformer):
                def visit_Name(self, n):
                    if n.id == name and isinstance(n.ctx, ast.Load):
                        return ast.copy_location(ast.Attribute(value=ast.Name(c, ast.Load()), attr=name, ctx=ast.Load()), n)
                    return n
            _Ref().visit(ct)
            ast.fix_missing_locations(ct)
            done.append("%s:%s.%s" % (m, c, name))
    return done


def reextract(cur_trees, ref_trees, max_size=400):
    """Put inlined reference helpers back.  Returns the list of re-created functions."""
    done = []
    for m, rt in ref_trees.items():
        ct = cur_trees.get(m)
        if ct is None:
            continue
        rf, cf = _functions(rt), _functions(ct)
        vanished = [(k, d) for k, d in rf.items() if k not in cf and (k[0] is None or any(
            isinstance(st, ast.ClassDef) and st.name == k[0] for st in ct.body))]
        # innermost helpers first would need a dependency order; two rounds are enough for helper-of-helper
        for _round in range(2):
            for (c, name), rdef in vanished:
                if (c, name) in _functions(ct):
                    continue
                pat = _Pattern(rdef, c is not None)
                if not pat.ok or pat.size > max_size:
                    continue
                # callers in the reference (same module; by attribute / name use)
                callers = []
                for (c2, n2), d2 in rf.items():
                    if d2 is rdef:
                        continue
                    for x in ast.walk(d2):
                        if (isinstance(x, ast.Attribute) and x.attr == name) or (isinstance(x, ast.Name) and x.id == name):
                            callers.append((c2, n2))
                            break
                # a caller that vanished as well was inlined into *its* callers: look there (two levels up at most)
                vanished_keys = {k for k, _ in vanished}
                for _lvl in range(2):
                    more = []
                    for key in callers:
                        if key in vanished_keys and key not in _functions(ct):
                            for (c3, n3), d3 in rf.items():
                                if any((isinstance(x, ast.Attribute) and x.attr == key[1]) or (isinstance(x, ast.Name) and x.id == key[1])
                                       for x in ast.walk(d3)) and (c3, n3) not in callers and (c3, n3) not in more and d3 is not rf[key]:
                                    more.append((c3, n3))
                    callers += more
                counter = []
                cur = _functions(ct)
                for key in callers:
                    g = cur.get(key)
                    if g is None:
                        continue
                    if pat.kind == "proc":
                        g.body = _replace_in_block(g.body, pat, name, c, counter, key[0])
                    else:
                        rep = _ReplaceExpr(pat, name, c, counter, key[0])
                        g.body = [rep.visit(s) for s in g.body]
                if counter:
                    new = copy.deepcopy(rdef)
                    if c is None:
                        ct.body.append(new)
                    else:
                        next(st for st in ct.body if isinstance(st, ast.ClassDef) and st.name == c).body.append(new)
                    ast.fix_missing_locations(ct)
                    done.append("%s:%s%s (%d site%s)" % (m, c + "." if c else "", name, len(counter), "" if len(counter) == 1 else "s"))
    return done
