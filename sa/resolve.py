"""Types of fields / locals / parameters (flow-insensitive), call resolution,
call graph and reachability from the public API (DESIGN 2.2 items 3-7)."""
import ast
from .core import Program, Func, Class, AnalysisError, walk_own, is_self_attr

NONE = ("none",)
UNKNOWN = ("unknown",)
BUILTIN_CTORS = {"set": ("set",), "frozenset": ("set",), "list": ("list",), "dict": ("dict",), "tuple": ("tuple",),
                 "str": ("str",), "int": ("num",), "float": ("num",), "len": ("num",), "bool": ("bool",),
                 "sorted": ("list",), "range": ("list",), "abs": ("num",), "type": UNKNOWN, "isinstance": ("bool",)}
_CONTAINER_METHODS = {"sort", "append", "add", "remove", "insert", "extend", "pop", "get", "items", "keys", "values",
                      "update", "copy", "clear", "index", "count", "join", "split", "strip", "format", "replace",
                      "startswith", "endswith", "find", "rfind", "lower", "upper", "discard", "setdefault"}
API = ["shexer.shaper:Shaper.__init__", "shexer.shaper:Shaper.shex_graph", "shexer.shaper:Shaper.profile_graph"]


class CallSite:
    __slots__ = ("func", "node", "targets", "kind", "recv_types")

    def __init__(self, func, node, targets, kind, recv_types=None):
        self.func = func          # enclosing Func (or None for module level)
        self.node = node          # ast.Call
        self.targets = targets    # list[Func]
        self.kind = kind          # func ctor self super typed byname static slot ext builtin unresolved
        self.recv_types = recv_types


class Resolver:
    def __init__(self, prog: Program):
        self.p = prog
        self.field_assigns = {}      # classqual -> field -> [(Func, expr)]
        self.local_assigns = {}      # funcqual -> name -> [expr | ("iter", expr) | ("with", expr) | ("unpack", expr, idx)]
        self._collect_assignments()
        self.param_types = {}        # (funcqual, param) -> set(types)
        self._memo = {}
        self._in_progress = set()
        self.callsites = []
        self.calls_of = {}           # funcqual -> [CallSite]
        self.callers_of = {}         # funcqual -> [CallSite]
        self._fixpoint()
        self.instantiated = set()
        self.reachable = self._reach(API)

    # --------------------------------------------------------------- collect
    def _collect_assignments(self):
        for f in self.p.funcs.values():
            la = self.local_assigns.setdefault(f.qual + (".setter" if f.is_setter else ""), {})
            for n in walk_own(f.node):
                if isinstance(n, ast.Assign):
                    for t in n.targets:
                        self._record_target(f, la, t, n.value)
                elif isinstance(n, ast.AugAssign):
                    self._record_target(f, la, n.target, n.value, aug=True)
                elif isinstance(n, ast.AnnAssign) and n.value is not None:
                    self._record_target(f, la, n.target, n.value)
                elif isinstance(n, (ast.For, ast.comprehension)):
                    self._record_iter(la, n.target, n.iter)
                elif isinstance(n, ast.With):
                    for it in n.items:
                        if isinstance(it.optional_vars, ast.Name):
                            la.setdefault(it.optional_vars.id, []).append(("with", it.context_expr))
                elif isinstance(n, ast.ExceptHandler) and n.name:
                    la.setdefault(n.name, []).append(("exc", n.type))

    def _record_iter(self, la, target, it):
        if isinstance(target, ast.Name):
            la.setdefault(target.id, []).append(("iter", it))
        elif isinstance(target, (ast.Tuple, ast.List)):
            for i, e in enumerate(target.elts):
                if isinstance(e, ast.Name):
                    la.setdefault(e.id, []).append(("iterunpack", it, i))

    def _record_target(self, f, la, t, value, aug=False):
        if isinstance(t, ast.Name):
            la.setdefault(t.id, []).append(value if not aug else ("aug", value))
        elif is_self_attr(t) and f.cls is not None:
            self.field_assigns.setdefault(f.cls.qual, {}).setdefault(t.attr, []).append((f, value))
        elif isinstance(t, (ast.Tuple, ast.List)):
            for i, e in enumerate(t.elts):
                if isinstance(value, (ast.Tuple, ast.List)) and len(value.elts) == len(t.elts):
                    self._record_target(f, la, e, value.elts[i])
                elif isinstance(e, ast.Name):
                    la.setdefault(e.id, []).append(("unpack", value, i))
                elif is_self_attr(e) and f.cls is not None:
                    self.field_assigns.setdefault(f.cls.qual, {}).setdefault(e.attr, []).append((f, ("unpack", value, i)))

    # ------------------------------------------------------------ field info
    def fields_of(self, cls: Class):
        """All field names assigned anywhere in the hierarchy of cls (up and down)."""
        out = set()
        for c in cls.mro() + cls.all_subclasses():
            out.update(self.field_assigns.get(c.qual, {}))
        return out

    def field_assignments(self, cls: Class, field, down=True):
        out = []
        cs = cls.mro() + (cls.all_subclasses() if down else [])
        for c in cs:
            out.extend(self.field_assigns.get(c.qual, {}).get(field, []))
        return out

    def field_types(self, cls: Class, field):
        """Types of self.<field> when self is an instance of cls (or a subclass):
        assignments inherited from base classes are evaluated with self bound to cls."""
        key = ("F", cls.qual, field)
        if key in self._memo:
            return self._memo[key]
        if key in self._in_progress:
            return set()
        self._in_progress.add(key)
        out = set()
        mro = cls.mro()
        for f, expr in self.field_assignments(cls, field):
            if isinstance(expr, tuple):
                out.add(UNKNOWN)
            else:
                out |= self.type_of(expr, f, cls if f.cls in mro else f.cls)
        self._in_progress.discard(key)
        self._memo[key] = out
        return out

    # ------------------------------------------------------------------ types
    def type_of(self, expr, f: Func, sc: Class = None):
        """sc = the class `self` is an instance of (defaults to the class defining f)."""
        if sc is None and f is not None:
            sc = f.cls
        key = ("E", id(expr), f.qual if f else None, sc.qual if sc else None)
        if key in self._memo:
            return self._memo[key]
        if key in self._in_progress:
            return set()
        self._in_progress.add(key)
        try:
            r = self._type_of(expr, f, sc)
        finally:
            self._in_progress.discard(key)
        self._memo[key] = r
        return r

    def _type_of(self, e, f, sc):
        p = self.p
        if isinstance(e, ast.Constant):
            v = e.value
            if v is None:
                return {NONE}
            if isinstance(v, bool):
                return {("bool",)}
            if isinstance(v, str):
                return {("str",)}
            if isinstance(v, (int, float)):
                return {("num",)}
            return {UNKNOWN}
        if isinstance(e, ast.JoinedStr):
            return {("str",)}
        if isinstance(e, (ast.List, ast.ListComp)):
            return {("list",)}
        if isinstance(e, (ast.Dict, ast.DictComp)):
            return {("dict",)}
        if isinstance(e, (ast.Set, ast.SetComp)):
            return {("set",)}
        if isinstance(e, ast.Tuple):
            return {("tuple",)}
        if isinstance(e, ast.IfExp):
            return self.type_of(e.body, f, sc) | self.type_of(e.orelse, f, sc)
        if isinstance(e, ast.BoolOp):
            out = set()
            for v in e.values:
                out |= self.type_of(v, f, sc)
            return out
        if isinstance(e, ast.Compare) or (isinstance(e, ast.UnaryOp) and isinstance(e.op, ast.Not)):
            return {("bool",)}
        if isinstance(e, ast.BinOp):
            l = self.type_of(e.left, f, sc)
            if ("str",) in l or ("str",) in self.type_of(e.right, f, sc):
                return {("str",)}
            if ("list",) in l:
                return {("list",)}
            return {("num",)} if ("num",) in l else {UNKNOWN}
        if isinstance(e, ast.Lambda):
            return {("lambda",)}
        if isinstance(e, ast.Name):
            return self._type_of_name(e.id, f, sc)
        if isinstance(e, ast.Attribute):
            out = set()
            for t in self.type_of(e.value, f, sc):
                if t[0] == "inst":
                    c = p.classes[t[1]]
                    m = c.find_method(e.attr)
                    if m is None:
                        for sc in c.all_subclasses():
                            if e.attr in sc.methods:
                                m = sc.methods[e.attr]
                                break
                    ft = self.field_types(c, e.attr)
                    if ft:
                        out |= ft
                    elif m is not None:
                        if m.is_property:
                            out |= self.return_types(m, c)
                        else:
                            out.add(("meth", m.qual))
                    else:
                        out.add(UNKNOWN)
                elif t[0] == "class":
                    c = p.classes[t[1]]
                    m = c.find_method(e.attr)
                    out.add(("meth", m.qual) if m else UNKNOWN)
                else:
                    out.add(UNKNOWN)
            return out or {UNKNOWN}
        if isinstance(e, ast.Call):
            fn = e.func
            if isinstance(fn, ast.Name) and fn.id in BUILTIN_CTORS and self._is_builtin(fn.id, f):
                return {BUILTIN_CTORS[fn.id]}
            if isinstance(fn, ast.Attribute) and fn.attr in ("format", "join", "strip", "replace", "lower", "upper", "rstrip", "lstrip"):
                return {("str",)}
            if isinstance(fn, ast.Attribute) and fn.attr in ("find", "rfind", "count", "index"):
                return {("num",)}
            if isinstance(fn, ast.Attribute) and fn.attr in ("split", "keys", "values", "items"):
                return {("list",)}
            if isinstance(fn, ast.Attribute) and fn.attr in ("startswith", "endswith", "isnumeric"):
                return {("bool",)}
            targets, kind, extra = self._resolve_call(e, f, sc)
            if kind == "ctor":
                return {("inst", extra.qual)}
            if kind == "ctor_noinit":
                return {("inst", c.qual) for c in extra}
            if kind == "ext":
                return {("ext", ast.unparse(fn))}
            out = set()
            for t in targets:
                out |= self.return_types(t, self._ctx_for(t, e, f, sc))
            return out or {UNKNOWN}
        if isinstance(e, ast.Subscript):
            # a dispatch table: a subscript over a dict / list / tuple display (written in place, or bound once to a local or to
            # a module-level name) denotes one of its values
            table = e.value
            if isinstance(table, ast.Name) and f is not None:
                defs = self.local_assigns.get(f.qual, {}).get(table.id, [])
                if len(defs) == 1 and isinstance(defs[0], ast.AST):
                    table = defs[0]
                elif not defs:
                    r_ = self.p.resolve_name(f.module, table.id)
                    if r_ and r_[0] == "const" and table.id not in r_[1].multi_assigned:
                        table = r_[2]
            vals = table.values if isinstance(table, ast.Dict) else table.elts if isinstance(table, (ast.List, ast.Tuple)) else None
            if vals:
                out = set()
                for v_ in vals:
                    if v_ is not None:
                        out |= self.type_of(v_, f, sc)
                return out or {UNKNOWN}
            return {UNKNOWN}
        if isinstance(e, ast.Starred):
            return {UNKNOWN}
        return {UNKNOWN}

    def _is_builtin(self, name, f):
        if f is None:
            return True
        m = f.module
        return self.p.resolve_name(m, name) is None and name not in self.local_assigns.get(f.qual, {})

    def _ctx_for(self, target, call, f, sc):
        """Self-class context in which to evaluate `target` when reached through `call`."""
        if target.cls is None:
            return None
        fn = call.func
        if isinstance(fn, ast.Attribute):
            v = fn.value
            if (isinstance(v, ast.Name) and v.id == "self") or (isinstance(v, ast.Call) and isinstance(v.func, ast.Name)
                                                                 and v.func.id == "super"):
                if sc is not None and target.cls in sc.mro():
                    return sc
            else:
                for t in self.type_of(v, f, sc):
                    if t[0] == "inst" and target.cls in self.p.classes[t[1]].mro():
                        return self.p.classes[t[1]]
        return target.cls

    def _type_of_name(self, name, f, sc=None):
        p = self.p
        if f is not None:
            if name == "self" and f.cls is not None and not f.is_static:
                return {("inst", (sc or f.cls).qual)}
            la = self.local_assigns.get(f.qual + (".setter" if f.is_setter else ""), {})
            out = set()
            if name in f.params or name in f.kwonly:
                out |= self.param_types.get((f.qual, name), set())
                d = f.defaults.get(name)
                if d is not None:
                    out |= self.type_of(d, f, sc)
            if name in la:
                for v in la[name]:
                    if isinstance(v, tuple):
                        if v[0] == "aug":
                            continue
                        if v[0] == "exc":
                            out.add(("exc",))
                        else:
                            out.add(UNKNOWN)
                    else:
                        out |= self.type_of(v, f, sc)
            if out or name in f.params or name in la:
                return out or {UNKNOWN}
            mod = f.module
        else:
            return {UNKNOWN}
        r = p.resolve_name(mod, name)
        if r is None:
            return {UNKNOWN}
        if r[0] == "class":
            return {("class", r[1].qual)}
        if r[0] == "func":
            return {("meth", r[1].qual)}
        if r[0] == "const":
            return self.type_of(r[2], None) if not isinstance(r[2], ast.Name) else {UNKNOWN}
        if r[0] == "ext":
            return {("ext", r[1])}
        if r[0] == "module":
            return {("module", r[1])}
        return {UNKNOWN}

    def return_types(self, func: Func, sc: Class = None):
        if sc is None or func.cls is None or func.cls not in sc.mro():
            sc = func.cls
        key = ("R", func.qual, sc.qual if sc else None)
        if key in self._memo:
            return self._memo[key]
        if key in self._in_progress:
            return set()
        self._in_progress.add(key)
        out = set()
        if func.is_generator:
            out.add(("generator",))
        else:
            for n in walk_own(func.node):
                if isinstance(n, ast.Return):
                    if n.value is None:
                        out.add(NONE)
                    else:
                        out |= self.type_of(n.value, func, sc)
        self._in_progress.discard(key)
        self._memo[key] = out
        return out

    # ------------------------------------------------------------- resolution
    def _methods_named(self, name):
        out = [c.methods[name] for c in self.p.classes.values() if name in c.methods]
        for c in self.p.classes.values():
            if name in self.field_assigns.get(c.qual, {}):
                for s in self.slot_targets(c, name):
                    if s not in out:
                        out.append(s)
        return out

    def _method_targets(self, c: Class, name):
        """Class-hierarchy analysis: the definition seen from c plus overrides below."""
        out = []
        m = c.find_method(name)
        if m is not None:
            out.append(m)
        for sc in c.all_subclasses():
            if name in sc.methods and sc.methods[name] not in out:
                out.append(sc.methods[name])
        return out

    def slot_targets(self, c: Class, name):
        out = []
        for t in self.field_types(c, name):
            if t[0] == "meth" and t[1] in self.p.funcs:
                out.append(self.p.funcs[t[1]])
        return out

    def _resolve_call(self, call, f, sc=None):
        """-> (targets, kind, extra)"""
        if sc is None and f is not None:
            sc = f.cls
        p = self.p
        fn = call.func
        if isinstance(fn, ast.Name):
            name = fn.id
            if f is not None and (name in f.params or name in self.local_assigns.get(f.qual, {})):
                ts = [p.funcs[t[1]] for t in self._type_of_name(name, f, sc) if t[0] == "meth" and t[1] in p.funcs]
                return ts, ("local" if ts else "unresolved"), None
            mod = f.module if f is not None else None
            r = p.resolve_name(mod, name) if mod else None
            if r is None:
                return [], "builtin", name
            if r[0] == "func":
                return [r[1]], "func", None
            if r[0] == "class":
                init = r[1].find_method("__init__")
                if init is None:
                    return [], "ctor_noinit", [r[1]]
                return [init], "ctor", r[1]
            if r[0] == "ext":
                return [], "ext", r[1]
            return [], "unresolved", None
        if isinstance(fn, ast.Attribute):
            v = fn.value
            # super().m(...) / super(K, self).m(...)
            if isinstance(v, ast.Call) and isinstance(v.func, ast.Name) and v.func.id == "super" and f is not None and f.cls:
                own = f.cls.mro()
                full = (sc or f.cls).mro()
                mro = full[full.index(f.cls) + 1:] if f.cls in full else own[1:]
                if v.args and isinstance(v.args[0], ast.Name):
                    r = p.resolve_name(f.module, v.args[0].id)
                    if r and r[0] == "class":
                        # super(K, self): K's own mro tail; super(Base, self) skips Base too
                        mro = r[1].mro()[1:]
                for c in mro:
                    if fn.attr in c.methods:
                        return [c.methods[fn.attr]], "super", None
                return [], "super_ext", None
            types = self.type_of(v, f, sc) if f is not None else {UNKNOWN}
            targets, kinds = [], set()
            for t in types:
                if t[0] == "inst":
                    c = p.classes[t[1]]
                    slots = self.slot_targets(c, fn.attr)
                    ms = self._method_targets(c, fn.attr)
                    if slots:
                        for s in slots:
                            if s not in targets:
                                targets.append(s)
                        kinds.add("slot")
                    elif ms:
                        for m in ms:
                            if m not in targets:
                                targets.append(m)
                        kinds.add("self" if (isinstance(v, ast.Name) and v.id == "self") else "typed")
                    else:
                        kinds.add("missing:" + c.name)
                elif t[0] == "class":
                    c = p.classes[t[1]]
                    m = c.find_method(fn.attr)
                    if m is not None:
                        targets.append(m)
                        kinds.add("static")
                    else:
                        kinds.add("missing:" + c.name)
                elif t[0] == "module":
                    m = p.modules[t[1]]
                    if fn.attr in m.funcs:
                        targets.append(m.funcs[fn.attr])
                        kinds.add("func")
                elif t[0] in ("ext", "str", "list", "dict", "set", "num", "tuple", "bool", "generator", "exc"):
                    kinds.add("ext")
                elif t[0] == "none":
                    kinds.add("none")
                else:
                    kinds.add("unknown")
            if targets:
                k = "slot" if "slot" in kinds else ("self" if "self" in kinds else ("static" if "static" in kinds else "typed"))
                return targets, k, kinds
            if kinds and kinds <= {"ext", "none"}:
                return [], "ext", kinds
            if any(k.startswith("missing:") for k in kinds) and not (kinds & {"unknown", "ext"}):
                return [], "missing", kinds
            if "ext" in kinds and fn.attr in _CONTAINER_METHODS:
                return [], "ext", kinds
            # fall back: by method name over the whole package
            ms = self._methods_named(fn.attr)
            if ms:
                return ms, "byname", kinds
            return [], "ext", kinds
        if isinstance(fn, ast.Call) and isinstance(fn.func, ast.Name) and fn.func.id == "getattr" and len(fn.args) == 2 \
                and isinstance(fn.args[0], ast.Name) and fn.args[0].id == "self" and f is not None and (sc or f.cls) is not None:
            # getattr(self, name)(...): one of the methods whose name the module writes as a string constant
            cls_ = sc or f.cls
            names = {c.value for c in ast.walk(f.module.tree) if isinstance(c, ast.Constant) and isinstance(c.value, str)}
            ts = [m for nm in sorted(names) for m in self._method_targets(cls_, nm) if not m.is_property]
            if ts:
                return ts, "self", None
        return [], "unresolved", None

    def resolve(self, call, f):
        return self._resolve_call(call, f)

    # --------------------------------------------------------------- fixpoint
    def _all_calls(self):
        for f in self.p.funcs.values():
            for n in walk_own(f.node):
                if isinstance(n, ast.Call):
                    yield f, n

    def _fixpoint(self):
        prev = None
        self.converged = False
        for rnd in range(12):
            self._memo.clear()
            self._in_progress.clear()
            sites, newpt = [], {}
            for f, n in self._all_calls():
                targets, kind, extra = self._resolve_call(n, f)
                sites.append(CallSite(f, n, targets, kind, extra))
                if kind == "byname":
                    continue   # do not let name-based guesses pollute parameter types
                for t in targets:
                    b = bind_args(n, t)
                    for pname, arg in b["bound"].items():
                        if isinstance(arg, ast.AST):
                            newpt.setdefault((t.qual, pname), set()).update(self.type_of(arg, f))
            snapshot = {k: frozenset(v) for k, v in newpt.items()}
            self.param_types = newpt
            self.callsites = sites
            if snapshot == prev:
                self.converged = True
                break
            prev = snapshot
        self.rounds = rnd + 1
        self._memo.clear()
        self.calls_of, self.callers_of = {}, {}
        for cs in self.callsites:
            self.calls_of.setdefault(cs.func.qual, []).append(cs)
            for t in cs.targets:
                self.callers_of.setdefault(t.qual, []).append(cs)
        self.site_of = {id(cs.node): cs for cs in self.callsites}

    # ---------------------------------------------- constant parameters / liveness
    def param_consts(self, f: Func, name, _seen=None):
        """Set of constant values a parameter can take over all call sites in the
        package (None if some site passes a non-constant).  No call site -> empty set."""
        key = ("PC", f.qual, name)
        if key in self._memo:
            return self._memo[key]
        _seen = _seen or set()
        if key in _seen:
            return set()
        _seen = _seen | {key}
        out = set()
        for cs in self.callers_of.get(f.qual, []):
            if cs.kind == "byname":
                out = None
                break
            b = bind_args(cs.node, f)
            if b["star"]:
                out = None
                break
            if name in b["bound"]:
                arg = b["bound"][name]
                v = self._const_expr(arg, cs.func, _seen)
                if v is None:
                    out = None
                    break
                out |= v
            elif name in f.defaults:
                v = self._const_expr(f.defaults[name], f, _seen)
                if v is None:
                    out = None
                    break
                out |= v
        self._memo[key] = out
        return out

    def _const_expr(self, e, f, _seen):
        if isinstance(e, ast.Constant):
            return {("c", e.value)}
        if isinstance(e, ast.Name) and f is not None and (e.id in f.params or e.id in f.kwonly) \
                and e.id not in self.local_assigns.get(f.qual, {}):
            return self.param_consts(f, e.id, _seen)
        if isinstance(e, ast.Name) and f is not None and not (e.id in f.params or e.id in f.kwonly) \
                and e.id not in self.local_assigns.get(f.qual, {}):
            try:
                v = self.p.fold(f.module, e)
            except Exception:
                return None
            if isinstance(v, (str, int, float, bool)) or v is None:
                return {("c", v)}
            return None
        if isinstance(e, ast.UnaryOp) and isinstance(e.op, ast.Not):
            v = self._const_expr(e.operand, f, _seen)
            if v is None:
                return None
            return {("c", not x[1]) for x in v}
        return None

    def test_value(self, test, f):
        """True / False when the test is decided by constant parameters, else None."""
        if isinstance(test, ast.UnaryOp) and isinstance(test.op, ast.Not):
            v = self.test_value(test.operand, f)
            return None if v is None else (not v)
        if isinstance(test, ast.Name):
            v = self._const_expr(test, f, None)
            if v and len({bool(x[1]) for x in v}) == 1:
                return bool(next(iter(v))[1])
            return None
        if isinstance(test, ast.Compare) and len(test.ops) == 1 and isinstance(test.ops[0], (ast.Is, ast.IsNot)) \
                and isinstance(test.comparators[0], ast.Constant) and test.comparators[0].value is None:
            v = self._const_expr(test.left, f, None)
            if v:
                r = {x[1] is None for x in v}
                if len(r) == 1:
                    isnone = next(iter(r))
                    return isnone if isinstance(test.ops[0], ast.Is) else (not isnone)
        return None

    def walk_live(self, f: Func):
        """walk_own without the arms of if / conditional expressions that constant
        parameters make dead (e.g. track_hierarchies is always False)."""
        stack = list(f.node.body)
        while stack:
            n = stack.pop()
            if isinstance(n, (ast.If, ast.IfExp)):
                v = self.test_value(n.test, f)
                body = n.body if isinstance(n.body, list) else [n.body]
                orelse = n.orelse if isinstance(n.orelse, list) else [n.orelse]
                yield n
                stack.append(n.test)
                if v is not False:
                    stack.extend(body)
                if v is not True:
                    stack.extend(orelse)
                continue
            yield n
            for c in ast.iter_child_nodes(n):
                if isinstance(c, (ast.FunctionDef, ast.AsyncFunctionDef, ast.ClassDef)):
                    continue
                stack.append(c)

    def _class_live(self, c: Class, inst):
        return c.qual in inst or any(sc.qual in inst for sc in c.all_subclasses())

    def live_targets(self, cs: CallSite, inst):
        if cs.kind in ("func", "ctor", "super", "static", "local"):
            return cs.targets
        return [t for t in cs.targets if t.cls is None or self._class_live(t.cls, inst)]

    def _reach(self, roots, fixed_inst=None):
        for r in roots:
            if r not in self.p.funcs:
                raise AnalysisError("API entry point vanished: " + r)
        inst = set(fixed_inst) if fixed_inst is not None else set()
        root_classes = {self.p.funcs[r].cls.qual for r in roots if self.p.funcs[r].cls is not None}
        inst |= root_classes
        props_by_name = {}
        for c in self.p.classes.values():
            for m in c.methods.values():
                if m.is_property:
                    props_by_name.setdefault(m.name, []).append(m)
        while True:
            seen, stack = set(), list(roots)
            new_inst = set(root_classes)
            while stack:
                q = stack.pop()
                if q in seen:
                    continue
                seen.add(q)
                f = self.p.funcs[q]
                callee_exprs = set()
                for n in self.walk_live(f):
                    if isinstance(n, ast.Call):
                        callee_exprs.add(id(n.func))
                        cs = self.site_of.get(id(n))
                        if cs is None:
                            continue
                        if cs.kind == "ctor":
                            new_inst.add(cs.recv_types.qual)
                        elif cs.kind == "ctor_noinit":
                            new_inst.update(c.qual for c in cs.recv_types)
                        for t in self.live_targets(cs, inst):
                            k = t.qual + (".setter" if t.is_setter else "")
                            if k not in seen:
                                stack.append(k)
                    elif isinstance(n, ast.Attribute) and isinstance(n.ctx, ast.Load):
                        typed = False
                        for t in self.type_of(n.value, f):
                            if t[0] == "inst":
                                typed = True
                                for m in self._method_targets(self.p.classes[t[1]], n.attr):
                                    if m.is_property and self._class_live(m.cls, inst) and m.qual not in seen:
                                        stack.append(m.qual)
                        if not typed:
                            for m in props_by_name.get(n.attr, []):
                                if self._class_live(m.cls, inst) and m.qual not in seen:
                                    stack.append(m.qual)
                        if id(n) not in callee_exprs:
                            for t in self.type_of(n, f):   # bound-method values stored in slots
                                if t[0] == "meth" and t[1] in self.p.funcs and t[1] not in seen \
                                        and (self.p.funcs[t[1]].cls is None or self._class_live(self.p.funcs[t[1]].cls, inst)):
                                    stack.append(t[1])
                    elif isinstance(n, ast.Attribute) and isinstance(n.ctx, ast.Store):
                        cands = []
                        for t in self.type_of(n.value, f):
                            if t[0] == "inst":
                                st = self.p.classes[t[1]].find_setter(n.attr)
                                if st is not None:
                                    cands.append(st)
                        if not cands:
                            cands = [c.setters[n.attr] for c in self.p.classes.values()
                                     if n.attr in c.setters and self._class_live(c, inst)]
                        for st in cands:
                            k = st.qual + ".setter"
                            if k not in seen:
                                stack.append(k)
            # implicit protocol methods of live classes
            for cq in list(inst):
                for c in self.p.classes[cq].mro():
                    for m in c.methods.values():
                        if m.name.startswith("__") and m.name.endswith("__") and m.name != "__init__" and m.qual not in seen:
                            seen |= self._reach_plain(m.qual, inst, seen)
            if fixed_inst is not None:
                return seen
            if new_inst <= inst:
                self.instantiated = inst
                return seen
            inst |= new_inst

    def _reach_plain(self, root, inst, already):
        seen, stack = set(), [root]
        while stack:
            q = stack.pop()
            if q in seen or q in already:
                continue
            seen.add(q)
            f = self.p.funcs[q]
            for n in self.walk_live(f):
                if isinstance(n, ast.Call):
                    cs = self.site_of.get(id(n))
                    if cs:
                        for t in self.live_targets(cs, inst):
                            stack.append(t.qual)
        return seen

    def reach_from(self, roots):
        """Functions reachable from `roots`, with the classes instantiated on API paths as live set."""
        return self._reach(roots, fixed_inst=self.instantiated)

    def is_reachable(self, f: Func):
        return f.qual in self.reachable or (f.qual + ".setter") in self.reachable

    def stats(self):
        kinds = {}
        for cs in self.callsites:
            kinds[cs.kind] = kinds.get(cs.kind, 0) + 1
        intra = sum(v for k, v in kinds.items() if k in ("func", "ctor", "self", "super", "typed", "static", "slot", "local", "byname"))
        return {"kinds": kinds, "intra_package_resolved": intra, "rounds": self.rounds,
                "reachable_functions": len(self.reachable)}


def is_unbound_method_call(call, target):
    """`Class.method(obj, ...)` for an instance method of Class (or of one of its bases): the receiver is passed explicitly."""
    fn = call.func
    if not (isinstance(fn, ast.Attribute) and isinstance(fn.value, ast.Name)) or target.cls is None or target.is_static \
            or "classmethod" in target.decorators:
        return False
    names = {target.cls.name} | {c.name for c in target.cls.all_subclasses()}
    return fn.value.id in names


def bind_args(call: ast.Call, target: Func):
    """Bind the arguments of `call` to the parameters of `target`.
    -> {"bound": {param: expr}, "errors": [str], "star": bool}"""
    params = list(target.bound_params)
    bound, errors = {}, []
    star = any(isinstance(a, ast.Starred) for a in call.args) or any(k.arg is None for k in call.keywords)
    pos = [a for a in call.args if not isinstance(a, ast.Starred)]
    if is_unbound_method_call(call, target) and pos:
        pos = pos[1:]                   # Class.method(self, ...): the first argument is the receiver
    for i, a in enumerate(pos):
        if i < len(params):
            bound[params[i]] = a
        elif target.vararg:
            pass
        else:
            errors.append("too many positional arguments (%d given, %d accepted)" % (len(pos), len(params)))
            break
    for k in call.keywords:
        if k.arg is None:
            continue
        if k.arg in params or k.arg in target.kwonly:
            if k.arg in bound:
                errors.append("multiple values for parameter '%s'" % k.arg)
            bound[k.arg] = k.value
        elif target.kwarg:
            pass
        else:
            errors.append("unexpected keyword argument '%s'" % k.arg)
    if not star:
        for r in target.required:
            if r not in bound:
                errors.append("missing required argument '%s'" % r)
        for r in target.kwonly:
            if r not in bound and r not in target.defaults:
                errors.append("missing required keyword-only argument '%s'" % r)
    return {"bound": bound, "errors": errors, "star": star}
