"""Front end: module table, imports, constants, classes, functions.

The analysed program is every *.py under <repo>/shexer.  Names are resolved per
module through its import table (DESIGN 2.2 item 1)."""
import ast
import copy
import os
import re
import sys

REPO = os.environ.get("SA_REPO", "/repo")
PKG = "shexer"


class AnalysisError(Exception):
    """The analysis itself cannot proceed (vanished anchor, unfoldable constant,
    construct the engine does not model).  Exit code 2, never a verdict."""


class Unfoldable(Exception):
    pass


class Func:
    def __init__(self, module, node, cls=None):
        self.module = module
        self.node = node
        self.cls = cls
        self.name = node.name
        self.qual = module.name + ":" + ((cls.name + ".") if cls else "") + node.name
        self.short = ((cls.name + ".") if cls else "") + node.name
        a = node.args
        self.posonly = [x.arg for x in a.posonlyargs]
        self.params = [x.arg for x in a.posonlyargs + a.args]
        self.kwonly = [x.arg for x in a.kwonlyargs]
        self.vararg = a.vararg.arg if a.vararg else None
        self.kwarg = a.kwarg.arg if a.kwarg else None
        nd = len(a.defaults)
        self.defaults = {}
        for p, d in zip(self.params[len(self.params) - nd:], a.defaults):
            self.defaults[p] = d
        for p, d in zip(a.kwonlyargs, a.kw_defaults):
            if d is not None:
                self.defaults[p.arg] = d
        self.decorators = []
        for d in node.decorator_list:
            if isinstance(d, ast.Name):
                self.decorators.append(d.id)
            elif isinstance(d, ast.Attribute):
                self.decorators.append(d.attr)
            else:
                raise AnalysisError("unmodelled decorator at %s:%d" % (module.relpath, node.lineno))
        for d in self.decorators:
            if d not in ("property", "staticmethod", "classmethod", "setter"):
                raise AnalysisError("unmodelled decorator %s at %s:%d" % (d, module.relpath, node.lineno))
        self.is_static = "staticmethod" in self.decorators
        self.is_property = "property" in self.decorators
        self.is_setter = "setter" in self.decorators
        self.is_generator = any(isinstance(n, (ast.Yield, ast.YieldFrom)) for n in walk_own(node))

    @property
    def local_names(self):
        """Names bound inside the body (not parameters, not global/nonlocal)."""
        if getattr(self, "_locals", None) is None:
            bound, outer = set(), set()
            for n in ast.walk(self.node):
                if isinstance(n, ast.Name) and isinstance(n.ctx, (ast.Store, ast.Del)):
                    bound.add(n.id)
                elif isinstance(n, (ast.Global, ast.Nonlocal)):
                    outer.update(n.names)
                elif isinstance(n, ast.ExceptHandler) and n.name:
                    bound.add(n.name)
            a = self.node.args
            params = {x.arg for x in a.posonlyargs + a.args + a.kwonlyargs}
            if a.vararg:
                params.add(a.vararg.arg)
            if a.kwarg:
                params.add(a.kwarg.arg)
            self._locals = bound - outer - params
        return self._locals

    def key(self, node):
        """Normalised text of a construct of this function for finding keys: layout-free and independent
        of what the function's local variables are called (they print as $1, $2, ... in order of appearance)."""
        if not isinstance(node, ast.AST):
            return norm(node)
        loc = self.local_names
        prog = getattr(self.module, "program", None)
        if not loc and prog is None:
            return norm(node)
        cp = copy.deepcopy(node)
        cp = _FoldScalars(self).visit(cp) if prog is not None else cp
        names = {}
        for n in _preorder(cp):
            if isinstance(n, ast.Name) and n.id in loc:
                n.id = names.setdefault(n.id, "$%d" % (len(names) + 1))
            elif isinstance(n, ast.ExceptHandler) and n.name in loc:
                n.name = names.setdefault(n.name, "$%d" % (len(names) + 1))
        return norm(cp)

    @property
    def bound_params(self):
        """Parameters a caller supplies (without self/cls for methods)."""
        if self.cls is not None and not self.is_static:
            return self.params[1:]
        return self.params

    @property
    def required(self):
        return [p for p in self.bound_params if p not in self.defaults]

    def loc(self, node=None):
        n = node if node is not None else self.node
        return "%s:%d" % (self.module.relpath, getattr(n, "lineno", self.node.lineno))

    def __repr__(self):
        return "<Func %s>" % self.qual


def walk_own(fnode):
    """ast.walk over a function body without descending into nested defs/classes
    (lambdas and comprehensions are descended)."""
    stack = list(fnode.body)
    while stack:
        n = stack.pop()
        yield n
        for c in ast.iter_child_nodes(n):
            if isinstance(c, (ast.FunctionDef, ast.AsyncFunctionDef, ast.ClassDef)):
                continue
            stack.append(c)


class Class:
    def __init__(self, module, node):
        self.module = module
        self.node = node
        self.name = node.name
        self.qual = module.name + ":" + node.name
        self.methods = {}      # name -> Func (getter for properties)
        self.setters = {}      # name -> Func
        self.base_exprs = node.bases
        self.bases = []        # resolved Class objects
        self.ext_bases = []    # names of bases outside the package
        self.subclasses = []
        self.class_consts = {}
        for st in node.body:
            if isinstance(st, (ast.FunctionDef, ast.AsyncFunctionDef)):
                f = Func(module, st, self)
                if f.is_setter:
                    self.setters[f.name] = f
                else:
                    self.methods[f.name] = f
            elif isinstance(st, ast.Assign):
                for t in st.targets:
                    if isinstance(t, ast.Name):
                        self.class_consts[t.id] = st.value

    def mro(self):
        out, seen = [], set()

        def rec(c):
            if c.qual in seen:
                return
            seen.add(c.qual)
            out.append(c)
            for b in c.bases:
                rec(b)
        rec(self)
        return out

    def find_method(self, name):
        for c in self.mro():
            if name in c.methods:
                return c.methods[name]
        return None

    def find_setter(self, name):
        for c in self.mro():
            if name in c.setters:
                return c.setters[name]
        return None

    def all_subclasses(self):
        out, stack = [], list(self.subclasses)
        while stack:
            c = stack.pop()
            if c not in out:
                out.append(c)
                stack.extend(c.subclasses)
        return out

    def is_subclass_of(self, other):
        return other in self.mro()

    def has_external_base(self, name):
        return any(name in c.ext_bases for c in self.mro())

    def __repr__(self):
        return "<Class %s>" % self.qual


class Module:
    def __init__(self, name, path, relpath, src, tree=None):
        self.name = name
        self.path = path
        self.relpath = relpath
        self.src = src
        self.lines = src.split("\n")
        self.tree = tree if tree is not None else ast.parse(src, filename=path)
        self.funcs = {}
        self.classes = {}
        self.consts = {}       # name -> ast expr (module-level single assignment)
        self.multi_assigned = set()
        self.imports = {}      # local name -> ("mod", modname) | ("name", modname, name)
        self.star_imports = []
        self.globals_mutated = set()
        for st in self.tree.body:
            if isinstance(st, (ast.FunctionDef, ast.AsyncFunctionDef)):
                self.funcs[st.name] = Func(self, st)
            elif isinstance(st, ast.ClassDef):
                self.classes[st.name] = Class(self, st)
            elif isinstance(st, ast.Assign):
                for t in st.targets:
                    if isinstance(t, ast.Name):
                        if t.id in self.consts:
                            self.multi_assigned.add(t.id)
                        self.consts[t.id] = st.value
                    elif isinstance(t, ast.Tuple) and isinstance(st.value, ast.Tuple) and len(t.elts) == len(st.value.elts):
                        for a, b in zip(t.elts, st.value.elts):
                            if isinstance(a, ast.Name):
                                self.consts[a.id] = b
            elif isinstance(st, ast.Import):
                for al in st.names:
                    self.imports[(al.asname or al.name).split(".")[0]] = ("mod", al.name if al.asname else al.name.split(".")[0])
            elif isinstance(st, ast.ImportFrom):
                if st.level:
                    raise AnalysisError("relative import not modelled: %s" % relpath)
                for al in st.names:
                    if al.name == "*":
                        self.star_imports.append(st.module)
                    else:
                        self.imports[al.asname or al.name] = ("name", st.module, al.name)
        for n in ast.walk(self.tree):
            if isinstance(n, ast.Global):
                self.globals_mutated.update(n.names)

    def seg(self, node):
        return ast.get_source_segment(self.src, node) or ""


class Program:
    def __init__(self, repo=None):
        self.repo = repo or REPO
        self.pkgdir = os.path.join(self.repo, PKG)
        if not os.path.isdir(self.pkgdir):
            raise AnalysisError("package directory not found: " + self.pkgdir)
        self.modules = {}
        parsed = {}
        for dp, dn, fn in os.walk(self.pkgdir):
            dn[:] = sorted(d for d in dn if d != "__pycache__")
            for f in sorted(fn):
                if not f.endswith(".py"):
                    continue
                path = os.path.join(dp, f)
                rel = os.path.relpath(path, self.repo)
                mod = rel[:-3].replace(os.sep, ".")
                if mod.endswith(".__init__"):
                    mod = mod[:-9]
                with open(path, encoding="utf-8") as fh:
                    src = fh.read()
                try:
                    parsed[mod] = (path, rel, src, ast.parse(src, filename=path))
                except SyntaxError as e:
                    raise AnalysisError("syntax error in %s: %s" % (rel, e))
        # The normalisation front end (DESIGN 11.10-11.12): names a refactoring replaced are mapped back to the reference names the
        # rules' anchors use, new constants / helpers / locals are written out, inlined reference helpers are put back, a few idioms are
        # lowered.  Each stage is an identity on behaviour; a stage that fails internally is switched off and the front end starts
        # again from the sources (the check then sees the tree less normalised, never a half-rewritten one).
        from . import unrename
        self.frontend_disabled = []
        off = os.environ.get("SA_NO_UNRENAME") == "1"
        for _attempt in range(8):
            trees = {m: t[3] for m, t in parsed.items()}
            stage = None
            self.renames, self.inlined_constants, self.unextracted = unrename.Renames(), [], ([], [])
            self.reextracted, self.unhoisted = [], []
            try:
                if not off:
                    ref_trees = unrename._load_reference(PKG)
                    stage = "unrename"
                    if stage not in self.frontend_disabled:
                        self.renames = unrename.compute(trees, PKG)
                        unrename.apply(trees, self.renames)
                    stage = "constants"
                    if stage not in self.frontend_disabled:
                        self.inlined_constants = unrename.inline_new_constants(trees, PKG)
                    stage = "unextract"
                    ref_ids = unrename.reference_identifiers(PKG)
                    if stage not in self.frontend_disabled and ref_ids is not None:
                        from . import unextract
                        self.unextracted = unextract.unextract(trees, ref_ids)
                    if ref_trees is not None:
                        from . import reextract, unhoist
                        stage = "reextract"
                        if stage not in self.frontend_disabled:
                            self.reextracted = reextract.unmove(trees, ref_trees) + reextract.reextract(trees, ref_trees)
                        stage = "unhoist"
                        if stage not in self.frontend_disabled:
                            self.unhoisted = unhoist.unhoist(trees, ref_trees)
                stage = "lower"
                if stage not in self.frontend_disabled:
                    unrename.lower_idioms(trees)
                break
            except AnalysisError:
                raise
            except Exception as ex:
                self.frontend_disabled.append(stage)
                sys.stderr.write("sa: front-end stage %s failed (%s: %s) and is switched off for this run\n" % (stage, type(ex).__name__, ex))
                for mod, (path, rel, src, _t) in list(parsed.items()):
                    parsed[mod] = (path, rel, src, ast.parse(src, filename=path))
        for mod, (path, rel, src, tree) in parsed.items():
            self.modules[mod] = Module(mod, path, rel, src, tree)
            self.modules[mod].program = self
        self._link_classes()
        self.funcs = {}
        for m in self.modules.values():
            for f in m.funcs.values():
                self.funcs[f.qual] = f
            for c in m.classes.values():
                for f in list(c.methods.values()) + list(c.setters.values()):
                    self.funcs[f.qual + (".setter" if f.is_setter else "")] = f
        self.classes = {c.qual: c for m in self.modules.values() for c in m.classes.values()}
        self._check_unmodelled()
        self._annotate_literals()

    # ------------------------------------------------------------------ names
    def resolve_name(self, module, name, _depth=0):
        """Resolve a bare name used in `module` to one of
        ('class', Class) ('func', Func) ('const', Module, expr) ('module', modname)
        ('ext', dotted) or None (a local / builtin)."""
        if _depth > 8:
            return None
        if name in module.classes:
            return ("class", module.classes[name])
        if name in module.funcs:
            return ("func", module.funcs[name])
        if name in module.consts:
            return ("const", module, module.consts[name])
        if name in module.imports:
            imp = module.imports[name]
            if imp[0] == "mod":
                if imp[1] in self.modules:
                    return ("module", imp[1])
                return ("ext", imp[1])
            _, modname, orig = imp
            if modname in self.modules:
                r = self.resolve_name(self.modules[modname], orig, _depth + 1)
                if r is None:
                    sub = modname + "." + orig
                    if sub in self.modules:
                        return ("module", sub)
                    raise AnalysisError("import of unknown name %s from %s in %s" % (orig, modname, module.relpath))
                return r
            return ("ext", modname + "." + orig)
        for sm in module.star_imports:
            if sm in self.modules:
                r = self.resolve_name(self.modules[sm], name, _depth + 1)
                if r is not None:
                    return r
        return None

    def _link_classes(self):
        for m in self.modules.values():
            for c in m.classes.values():
                for b in c.base_exprs:
                    if isinstance(b, ast.Name):
                        r = self.resolve_name(m, b.id)
                        if r and r[0] == "class":
                            c.bases.append(r[1])
                            r[1].subclasses.append(c)
                        elif r and r[0] == "ext":
                            c.ext_bases.append(r[1])
                        else:
                            c.ext_bases.append(b.id)
                    elif isinstance(b, ast.Attribute):
                        c.ext_bases.append(ast.unparse(b))
                    else:
                        raise AnalysisError("unmodelled base class expression in %s" % c.qual)

    def _check_unmodelled(self):
        for m in self.modules.values():
            for n in ast.walk(m.tree):
                if isinstance(n, ast.Call) and isinstance(n.func, ast.Name) and n.func.id == "getattr" and len(n.args) == 2 \
                        and isinstance(n.args[0], ast.Name) and n.args[0].id == "self" and not n.keywords:
                    continue    # getattr(self, <name>): a method chosen by name - resolved over the method names the module writes as strings
                if isinstance(n, ast.Call) and isinstance(n.func, ast.Name) and n.func.id in (
                        "eval", "exec", "getattr", "setattr", "__import__", "globals", "locals", "vars", "delattr"):
                    raise AnalysisError("unmodelled dynamic construct %s() at %s:%d" % (n.func.id, m.relpath, n.lineno))
                if isinstance(n, (ast.AsyncFunctionDef, ast.Await, ast.Match)):
                    raise AnalysisError("unmodelled construct %s at %s:%d" % (type(n).__name__, m.relpath, n.lineno))

    # -------------------------------------------------------------- constants
    def fold(self, module, expr, _depth=0):
        """Symbolic evaluation of a constant expression.  Raises Unfoldable."""
        if _depth > 12:
            raise Unfoldable("depth")
        if isinstance(expr, ast.Constant):
            return expr.value
        if isinstance(expr, ast.Name):
            r = self.resolve_name(module, expr.id)
            if r and r[0] == "const":
                if expr.id in r[1].multi_assigned or expr.id in r[1].globals_mutated:
                    raise Unfoldable("name %s assigned more than once" % expr.id)
                return self.fold(r[1], r[2], _depth + 1)
            if r and r[0] == "ext":
                return ("ext", r[1])
            raise Unfoldable("name %s" % expr.id)
        if isinstance(expr, ast.BinOp) and isinstance(expr.op, ast.Add):
            a, b = self.fold(module, expr.left, _depth + 1), self.fold(module, expr.right, _depth + 1)
            if type(a) in (str, list, tuple, int) and type(a) == type(b):
                return a + b
            raise Unfoldable("add")
        if isinstance(expr, (ast.List, ast.Tuple, ast.Set)):
            vals = [self.fold(module, e, _depth + 1) for e in expr.elts]
            return vals if isinstance(expr, ast.List) else (tuple(vals) if isinstance(expr, ast.Tuple) else frozenset(vals))
        if isinstance(expr, ast.Dict):
            return {self.fold(module, k, _depth + 1): self.fold(module, v, _depth + 1)
                    for k, v in zip(expr.keys, expr.values)}
        if isinstance(expr, ast.UnaryOp) and isinstance(expr.op, ast.USub):
            v = self.fold(module, expr.operand, _depth + 1)
            if isinstance(v, (int, float)):
                return -v
        if isinstance(expr, ast.Call):
            fn = ast.unparse(expr.func)
            if fn == "re.compile" and expr.args:
                return ("re", self.fold(module, expr.args[0], _depth + 1))
            if isinstance(expr.func, ast.Name):
                r = self.resolve_name(module, expr.func.id)
                if r and r[0] == "ext" and len(expr.args) == 1 and not expr.keywords:
                    return (r[1].split(".")[-1], self.fold(module, expr.args[0], _depth + 1))
                if r and r[0] == "class" and r[1].name == "Property":
                    arg = expr.args[0] if expr.args else expr.keywords[0].value
                    return ("Property", self.fold(module, arg, _depth + 1))
        if isinstance(expr, ast.Attribute):
            return ("ext", ast.unparse(expr))
        raise Unfoldable(ast.dump(expr)[:60])

    def _annotate_literals(self):
        """Every name that is a use of a module-level scalar constant carries the value (`_lit`): rules that look for a literal
        ask lit(node) and so do not care whether the literal was given a name."""
        for m in self.modules.values():
            scopes = [(m.tree, set())]
            for f in list(m.funcs.values()) + [g for c in m.classes.values() for g in list(c.methods.values()) + list(c.setters.values())]:
                scopes.append((f.node, f.local_names | set(f.params) | {a.arg for a in f.node.args.kwonlyargs}))
            for root, shadow in scopes:
                it = ast.walk(root) if root is not m.tree else (n for st in m.tree.body if not isinstance(st, (ast.FunctionDef, ast.ClassDef))
                                                                for n in ast.walk(st))
                for n in it:
                    if isinstance(n, ast.Name) and isinstance(n.ctx, ast.Load) and n.id not in shadow and not hasattr(n, "_lit"):
                        v = self.lit(m, n)
                        if v is not NOLIT:
                            n._lit = v
                        else:
                            try:
                                w = self.fold(m, n)
                            except Unfoldable:
                                continue
                            if isinstance(w, (tuple, list, frozenset)) and all(isinstance(x, (str, int, float, bool)) for x in w):
                                n._litseq = tuple(w)

    def lit(self, module, node):
        """Value of a scalar literal: a Constant, or a name that resolves to a module-level str / number / bool constant
        (assigned once).  NOLIT otherwise.  Rules that look for a literal use this, so that naming the literal is not a change."""
        if isinstance(node, ast.Constant):
            return node.value
        if isinstance(node, ast.Name):
            try:
                v = self.fold(module, node)
            except Unfoldable:
                return NOLIT
            if isinstance(v, (str, int, float, bool)):
                return v
        return NOLIT

    def const(self, modname, name):
        """Folded module constant; vanished or unfoldable -> AnalysisError (fail closed)."""
        m = self.module(modname)
        if name not in m.consts:
            r = self.resolve_name(m, name)
            if not r or r[0] != "const":
                raise AnalysisError("constant %s.%s not found" % (modname, name))
            m, expr = r[1], r[2]
        else:
            expr = m.consts[name]
        try:
            return self.fold(m, expr)
        except Unfoldable as e:
            raise AnalysisError("constant %s.%s does not fold (%s)" % (modname, name, e))

    # ---------------------------------------------------------------- anchors
    def module(self, modname):
        if modname not in self.modules:
            raise AnalysisError("anchor module vanished: " + modname)
        return self.modules[modname]

    def cls(self, qual):
        if qual not in self.classes:
            raise AnalysisError("anchor class vanished: " + qual)
        return self.classes[qual]

    def func(self, qual):
        """'mod:Class.meth' or 'mod:func' -> Func; missing -> AnalysisError."""
        if qual not in self.funcs:
            raise AnalysisError("anchor function vanished: " + qual)
        return self.funcs[qual]

    def find_class(self, name):
        r = [c for c in self.classes.values() if c.name == name]
        if len(r) != 1:
            raise AnalysisError("class %s: expected exactly one definition, found %d" % (name, len(r)))
        return r[0]

    def method(self, clsname, meth):
        c = self.find_class(clsname)
        if meth not in c.methods:
            raise AnalysisError("anchor method vanished: %s.%s" % (clsname, meth))
        return c.methods[meth]

    def totals(self):
        ncalls = sum(1 for m in self.modules.values() for n in ast.walk(m.tree) if isinstance(n, ast.Call))
        return {"modules": len(self.modules), "functions": len(self.funcs), "classes": len(self.classes),
                "call_sites": ncalls}


# ----------------------------------------------------------------- utilities
NOLIT = object()


def lit(node):
    """Scalar value of a literal or of a use of a named module-level scalar constant (see Program._annotate_literals), including
    a negated number; NOLIT otherwise."""
    if isinstance(node, ast.Constant):
        return node.value
    if isinstance(node, ast.Name):
        return getattr(node, "_lit", NOLIT)
    if isinstance(node, ast.UnaryOp) and isinstance(node.op, ast.USub):
        v = lit(node.operand)
        if isinstance(v, (int, float)) and not isinstance(v, bool):
            return -v
    return NOLIT


def lits(node):
    """All scalar literal values written in (or named by) an expression, containers of scalars included."""
    out = set()
    for y in ast.walk(node):
        v = lit(y)
        if v is not NOLIT and not isinstance(y, ast.UnaryOp):
            out.add(v)
        out.update(getattr(y, "_litseq", ()))
    return out


def is_lit(node, *values):
    """node is a literal (or named scalar constant) equal to one of the values, with the same type."""
    v = lit(node)
    return v is not NOLIT and any(v == w and type(v) is type(w) for w in values)


class _FoldScalars(ast.NodeTransformer):
    """Names of module-level scalar constants print as their value in finding keys: extracting a literal into a named
    constant (or renaming one) does not change the key of a finding."""
    def __init__(self, func):
        self.f = func
        self.skip = func.local_names | set(func.params)

    def visit_Name(self, n):
        if isinstance(n.ctx, ast.Load) and n.id not in self.skip:
            v = self.f.module.program.lit(self.f.module, n)
            if v is not NOLIT:
                return ast.copy_location(ast.Constant(v), n)
        return n


def _preorder(node):
    yield node
    for c in ast.iter_child_nodes(node):
        yield from _preorder(c)


def norm(node_or_text):
    """Normalised source text of an AST node: the key of a finding never contains
    line numbers or layout."""
    if isinstance(node_or_text, ast.AST):
        t = ast.unparse(node_or_text)
    else:
        t = node_or_text
    return re.sub(r"\s+", " ", t).strip()


def is_self_attr(node, attr=None):
    return (isinstance(node, ast.Attribute) and isinstance(node.value, ast.Name) and node.value.id == "self"
            and (attr is None or node.attr == attr))


def call_name(call):
    """Trailing name of the callee expression: f(...) -> 'f', a.b.c(...) -> 'c'."""
    f = call.func
    if isinstance(f, ast.Name):
        return f.id
    if isinstance(f, ast.Attribute):
        return f.attr
    return None


def parent_map(root):
    pm = {}
    for n in ast.walk(root):
        for c in ast.iter_child_nodes(n):
            pm[c] = n
    return pm
