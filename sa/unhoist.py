"""Un-hoisting: local variables that a refactoring introduced are written out again.

"Introduce explaining variable", hoisting a repeated `self._table[k]` lookup into a local, unpacking a tuple into names instead
of indexing it, splitting a long expression into named steps: none of these changes behaviour, all of them change the shape the
rules read (`d = self._class_counts; d[k] += 1` is still an increment of the count table).  For every function that also exists
in the reference tree, the locals the reference version does not have are removed again where that is plainly an identity:

  alias        v = <call-free path>          (v bound once; the names in the path are not rebound, the attribute path is not
                                              assigned in the function)            -> every use of v reads the path
  unpacking    a, b, c = <call-free path>    (each bound once)                     -> a reads path[0], b path[1], ...
  step         v = <expression>              (v bound once and read exactly once, in a later statement of the same block, with
                                              only such steps in between)          -> the read is replaced by the expression

Locals the reference function already has are never touched, functions without a reference counterpart are left alone, and an
unchanged tree has no new locals."""
import ast
import copy


def _functions(tree):
    out = {}
    for st in tree.body:
        if isinstance(st, ast.FunctionDef):
            out.setdefault((None, st.name), st)
        elif isinstance(st, ast.ClassDef):
            for x in st.body:
                if isinstance(x, ast.FunctionDef):
                    out.setdefault((st.name, x.name), x)
    return out


def _stored(fn):
    out = {}
    for n in ast.walk(fn):
        if isinstance(n, ast.Name) and not isinstance(n.ctx, ast.Load):
            out[n.id] = out.get(n.id, 0) + 1
        elif isinstance(n, ast.ExceptHandler) and n.name:
            out[n.name] = out.get(n.name, 0) + 2
    return out


def _pure_path(e):
    if isinstance(e, (ast.Name, ast.Constant)):
        return True
    if isinstance(e, ast.Attribute):
        return _pure_path(e.value)
    if isinstance(e, ast.Subscript):
        return _pure_path(e.value) and _pure_path(e.slice)
    # value-only expressions over such paths: conversions by the pure builtins, arithmetic / comparison / boolean operators
    if isinstance(e, ast.Call) and isinstance(e.func, ast.Name) and e.func.id in _PURE_BUILTINS and not e.keywords:
        return all(_pure_path(a) for a in e.args)
    if isinstance(e, ast.BinOp):
        return _pure_path(e.left) and _pure_path(e.right)
    if isinstance(e, ast.UnaryOp):
        return _pure_path(e.operand)
    if isinstance(e, ast.Compare):
        return _pure_path(e.left) and all(_pure_path(c) for c in e.comparators)
    if isinstance(e, ast.BoolOp):
        return all(_pure_path(v) for v in e.values)
    if isinstance(e, ast.Slice):
        return all(x is None or _pure_path(x) for x in (e.lower, e.upper, e.step))
    if isinstance(e, ast.Tuple) and isinstance(e.ctx, ast.Load):
        return all(_pure_path(x) for x in e.elts)          # an immutable display of values is a value
    return False


_PURE_BUILTINS = {"str", "len", "int", "float", "bool", "abs", "repr", "tuple", "min", "max"}


def _attr_stores(fn):
    out = set()
    for n in ast.walk(fn):
        if isinstance(n, (ast.Attribute, ast.Subscript)) and not isinstance(n.ctx, ast.Load):
            base = n
            while isinstance(base, ast.Subscript):
                base = base.value
            if isinstance(base, ast.Attribute):
                out.add(ast.unparse(base))
    return out


def _params(fn):
    a = fn.args
    out = {x.arg for x in a.posonlyargs + a.args + a.kwonlyargs}
    if a.vararg:
        out.add(a.vararg.arg)
    if a.kwarg:
        out.add(a.kwarg.arg)
    return out


def _parents(fn):
    pm = {}
    for p in ast.walk(fn):
        for c in ast.iter_child_nodes(p):
            pm[c] = p
    return pm


def _loop_binder_ok(fn, pm, node, name):
    """A loop variable mentioned by an alias must be bound by a loop (or comprehension) around the alias."""
    binders = [x for x in ast.walk(fn) if isinstance(x, (ast.For, ast.comprehension)) and any(
        isinstance(y, ast.Name) and y.id == name for y in ast.walk(x.target))]
    if not binders:
        return True
    cur = node
    while cur in pm:
        cur = pm[cur]
        if any(cur is b for b in binders):
            return True
    return False


def _blocks(fn):
    for n in ast.walk(fn):
        for fld in ("body", "orelse", "finalbody"):
            blk = getattr(n, fld, None)
            if isinstance(blk, list) and blk and isinstance(blk[0], ast.stmt):
                yield n, fld, blk
        if isinstance(n, ast.Try):
            for h in n.handlers:
                yield h, "body", h.body


class _Sub(ast.NodeTransformer):
    def __init__(self, name, value):
        self.name, self.value, self.n = name, value, 0

    def visit_Name(self, x):
        if x.id == self.name and isinstance(x.ctx, ast.Load):
            self.n += 1
            return copy.deepcopy(self.value)
        return x


def _remove(fn, stmt):
    for owner, fld, blk in _blocks(fn):
        if any(s is stmt for s in blk):
            new = [s for s in blk if s is not stmt] or [ast.Pass()]
            setattr(owner, fld, new)
            return


def _rebound_elsewhere(tree):
    """Attributes of self that some method other than the constructor (re)binds: `self.x = ...` outside __init__.  A local
    that captured such an attribute is not the attribute (a call in between may have rebound it) - the stale-copy defect is
    exactly a hoisted `base = self._base`; such locals are never written out."""
    out = set()
    for st in tree.body:
        if isinstance(st, ast.ClassDef):
            for m in st.body:
                if isinstance(m, ast.FunctionDef) and m.name not in ("__init__", "__new__"):
                    for n in ast.walk(m):
                        if isinstance(n, ast.Attribute) and isinstance(n.ctx, ast.Store) and isinstance(n.value, ast.Name) and n.value.id == "self":
                            out.add(n.attr)
    return out


def unhoist_function(fn, ref_fn, rebound=frozenset()):
    """Returns the number of locals written out."""
    ref_locals = set(_stored(ref_fn)) | _params(ref_fn)
    done = 0
    for _ in range(40):
        stores = _stored(fn)
        params = _params(fn)
        new = {n for n in stores if n not in ref_locals and n not in params}
        if not new:
            break
        pm = _parents(fn)
        attr_st = _attr_stores(fn)
        changed = False
        for n in list(ast.walk(fn)):
            if not isinstance(n, ast.Assign) or len(n.targets) != 1:
                continue
            t = n.targets[0]
            # ---- unpacking a, b = path  -> a = path[0]; b = path[1]
            if isinstance(t, ast.Tuple) and all(isinstance(x, ast.Name) and x.id in new and stores.get(x.id) == 1 for x in t.elts) \
                    and _pure_path(n.value) and not isinstance(n.value, ast.Constant) and pm.get(n) is not None:
                parts = []
                for i, x in enumerate(t.elts):
                    a = ast.Assign(targets=[ast.Name(x.id, ast.Store())],
                                   value=ast.Subscript(value=copy.deepcopy(n.value), slice=ast.Constant(i), ctx=ast.Load()))
                    ast.copy_location(a, n)
                    ast.fix_missing_locations(a)
                    parts.append(a)
                for owner, fld, blk in _blocks(fn):
                    if any(s is n for s in blk):
                        i = [k for k, s in enumerate(blk) if s is n][0]
                        setattr(owner, fld, blk[:i] + parts + blk[i + 1:])
                        changed = True
                        break
                if changed:
                    break
                continue
            if not (isinstance(t, ast.Name) and t.id in new and stores.get(t.id) == 1):
                continue
            v = t.id
            val = n.value
            if isinstance(val, (ast.Yield, ast.YieldFrom, ast.Await)):
                continue
            loads = [x for x in ast.walk(fn) if isinstance(x, ast.Name) and x.id == v and isinstance(x.ctx, ast.Load)]
            if not loads:
                continue
            # ---- alias of a call-free path
            if _pure_path(val) and not isinstance(val, ast.Constant):
                names = {x.id for x in ast.walk(val) if isinstance(x, ast.Name)}
                ok = v not in names
                for nm in names:
                    if nm == "self":
                        continue
                    if stores.get(nm, 0) > 1 or (nm in params and stores.get(nm, 0) > 0):
                        ok = False
                    elif stores.get(nm, 0) == 1 and not _loop_binder_ok(fn, pm, n, nm):
                        ok = False
                # what the value reads must not be written between the binding and a use of the local: rebinding of an attribute
                # the value starts from (`self._x = ...`: an alias of the attribute itself would keep the old object) and, for a
                # value that reads *into* a table (`self._t[k]`, `self._t[k] + 1`), any store into that table
                alias_of_attr = isinstance(val, ast.Attribute)
                if any(isinstance(x, ast.Attribute) and isinstance(x.value, ast.Name) and x.value.id == "self" and x.attr in rebound
                       for x in ast.walk(val)):
                    # another method rebinds this attribute: the local may be a deliberate (or defective) snapshot - it stays,
                    # unless binding and every use sit in one straight run of simple statements (nothing can run in between)
                    same_run = False
                    for owner_, fld_, blk_ in _blocks(fn):
                        if any(s_ is n for s_ in blk_):
                            i_ = [k for k, s_ in enumerate(blk_) if s_ is n][0]
                            j_ = i_ + 1
                            seen = 0
                            while j_ < len(blk_) and isinstance(blk_[j_], (ast.Assign, ast.AugAssign, ast.Return, ast.Expr)) \
                                    and not any(isinstance(c_, ast.Call) and not (isinstance(c_.func, ast.Name) and c_.func.id in _PURE_BUILTINS)
                                                for c_ in ast.walk(blk_[j_])):
                                seen += sum(1 for u in loads if any(u is y for y in ast.walk(blk_[j_])))
                                j_ += 1
                            same_run = seen == len(loads)
                    if not same_run:
                        ok = False
                bases = set()
                for x in ast.walk(val):
                    if isinstance(x, ast.Attribute):
                        bases.add(ast.unparse(x))
                for st_ in ast.walk(fn):
                    if not (isinstance(st_, (ast.Attribute, ast.Subscript)) and not isinstance(st_.ctx, ast.Load)):
                        continue
                    b_ = st_
                    while isinstance(b_, ast.Subscript):
                        b_ = b_.value
                    if not (isinstance(b_, ast.Attribute) and ast.unparse(b_) in bases):
                        continue
                    if b_ is not st_ and alias_of_attr:
                        continue          # a store *into* the object the alias names is seen through the alias as well
                    stmt_ = st_
                    while stmt_ in pm and not isinstance(stmt_, ast.stmt):
                        stmt_ = pm[stmt_]
                    in_stmt = {id(x) for x in ast.walk(stmt_)}
                    # reads inside the assigning statement itself happen before the assignment
                    if stmt_.lineno > n.lineno and any(id(u) not in in_stmt and u.lineno > stmt_.lineno for u in loads):
                        ok = False
                    if isinstance(stmt_, ast.AugAssign) and stmt_.lineno > n.lineno and any(id(u) in in_stmt for u in loads):
                        ok = False        # `t[k] += v` with v reading t[k]: keep
                    c_ = st_
                    while c_ in pm:
                        c_ = pm[c_]
                        if isinstance(c_, (ast.For, ast.While)):
                            inside_def = any(x is n for x in ast.walk(c_))
                            inside_use = any(x is u for u in loads for x in ast.walk(c_))
                            if inside_use and not inside_def:
                                ok = False
                if ok:
                    s = _Sub(v, val)
                    s.visit(fn)
                    _remove(fn, n)
                    done += 1
                    changed = True
                    break
                continue
            # ---- a named step: read once, later in the same block, only steps in between
            if len(loads) != 1:
                continue
            for owner, fld, blk in _blocks(fn):
                if not any(s is n for s in blk):
                    continue
                i = [k for k, s in enumerate(blk) if s is n][0]
                use = None
                for j in range(i + 1, len(blk)):
                    if any(x is loads[0] for x in ast.walk(blk[j])):
                        use = j
                        break
                    if not (isinstance(blk[j], ast.Assign) and len(blk[j].targets) == 1 and isinstance(blk[j].targets[0], ast.Name)
                            and blk[j].targets[0].id in new):
                        break
                if use is None:
                    break
                target = blk[use]
                # the read must sit in the statement itself (its header for a compound statement), not inside a nested loop body
                hdr = target
                if isinstance(target, (ast.For, ast.While, ast.If, ast.With)):
                    hdr_nodes = [target.iter] if isinstance(target, ast.For) else [target.test] if isinstance(target, (ast.While, ast.If)) \
                        else [w.context_expr for w in target.items]
                    if isinstance(target, ast.While) or not any(x is loads[0] for h in hdr_nodes for x in ast.walk(h)):
                        break
                elif not isinstance(target, (ast.Assign, ast.AugAssign, ast.Return, ast.Expr, ast.Raise, ast.Assert, ast.Delete)):
                    break
                s = _Sub(v, val)
                s.visit(target)
                if s.n == 1:
                    setattr(owner, fld, [x for x in blk if x is not n])
                    done += 1
                    changed = True
                break
            if changed:
                break
        if not changed:
            break
    if done:
        ast.fix_missing_locations(fn)
    return done


def unhoist(cur_trees, ref_trees):
    total = []
    for m, rt in ref_trees.items():
        ct = cur_trees.get(m)
        if ct is None:
            continue
        rf, cf = _functions(rt), _functions(ct)
        rebound = _rebound_elsewhere(ct)
        for key, fn in cf.items():
            if key in rf:
                k = unhoist_function(fn, rf[key], rebound)
                if k:
                    total.append("%s:%s%s (%d)" % (m, key[0] + "." if key[0] else "", key[1], k))
    return total
