"""Value-flow graph (field-based, flow- and context-insensitive).

Nodes   ("v", funcqual, name)   local variable / parameter
        ("r", funcqual)         returned or yielded value
        ("f", classqual, name)  instance field (class = top-most assigner in the hierarchy)
        ("g", module, name)     module global
        ("e", id(expr))         an expression occurrence
Edges   src -> dst with a label: "copy" (same object: assignment, argument, return,
        field store/load, conditional-expression arm) or "derive" (computed from:
        operators, subscripts, container membership, formatting, builtin calls).

May-analysis: an absent path means no flow in any execution (modulo the trusted
base: third-party code is summarised as `result derives from receiver and arguments`).
Used by R-FLOW, R-EFFECT (option influence), R-DET, R-PURE (alias = copy edges only)."""
import ast
from .core import walk_own, is_self_attr, AnalysisError
from .resolve import bind_args

_MUTATORS = {"append", "add", "insert", "extend", "update", "setdefault", "appendleft"}
_COPIERS = {"dict", "list", "set", "tuple", "sorted", "frozenset", "reversed"}


class FlowGraph:
    def __init__(self, prog, res):
        self.p, self.r = prog, res
        self.succ = {}
        self.pred = {}
        self.expr_index = {}     # id(expr) -> (expr, Func)
        self.attr_loads = []     # (Attribute node, Func)
        self.tests = []          # (test expr, Func, owner stmt/expr)
        self.compares = []       # (Compare node, Func)
        self.calls = []          # (Call node, Func)
        self.subscript_loads = []
        self.ctor_edges = {}     # argument expression node -> constructor call expression node
        self.call_in = {}        # (argument node, parameter node) -> id(call)   [entering a callee]
        self.call_out = {}       # (return node, call expression node) -> id(call) [leaving a callee]
        self._props_by_name = {}
        self._fields_by_name = {}
        for c in prog.classes.values():
            for m in c.methods.values():
                if m.is_property:
                    self._props_by_name.setdefault(m.name, []).append(m)
            for name in res.field_assigns.get(c.qual, {}):
                self._fields_by_name.setdefault(name, []).append(c)
        for f in prog.funcs.values():
            self._func(f)
        for m in prog.modules.values():
            for name, e in m.consts.items():
                pass

    # ----------------------------------------------------------------- graph
    def edge(self, a, b, label):
        if a == b:
            return
        self.succ.setdefault(a, {})
        if b not in self.succ[a] or (label == "copy" and self.succ[a][b] != "copy"):
            self.succ[a][b] = label
        self.pred.setdefault(b, {})[a] = self.succ[a][b]

    def flows(self, sources, labels=("copy", "derive"), stop=None, through_ctors=False):
        """Forward closure.  `stop(node)` -> True cuts propagation through that node.
        through_ctors: an object constructed from a tainted argument is tainted."""
        seen, stack = set(), list(sources)
        while stack:
            n = stack.pop()
            if n in seen:
                continue
            seen.add(n)
            if stop is not None and stop(n) and n not in sources:
                continue
            for m, lab in self.succ.get(n, {}).items():
                if lab in labels and m not in seen:
                    stack.append(m)
            if through_ctors:
                for m in self.ctor_edges.get(n, ()):
                    if m not in seen:
                        stack.append(m)
        return seen

    def back(self, sinks, labels=("copy", "derive")):
        seen, stack = set(), list(sinks)
        while stack:
            n = stack.pop()
            if n in seen:
                continue
            seen.add(n)
            for m, lab in self.pred.get(n, {}).items():
                if lab in labels and m not in seen:
                    stack.append(m)
        return seen

    def path(self, sources, target, labels=("copy", "derive")):
        """One shortest path (list of nodes) from any source to target, for reports."""
        from collections import deque
        srcs = set(sources)
        prev, dq = {s: None for s in srcs}, deque(srcs)
        while dq:
            n = dq.popleft()
            if n == target:
                out = []
                while n is not None:
                    out.append(n)
                    n = prev[n]
                return out[::-1]
            for m, lab in self.succ.get(n, {}).items():
                if lab in labels and m not in prev:
                    prev[m] = n
                    dq.append(m)
        return None

    def describe(self, node):
        if node[0] == "e":
            e, f = self.expr_index.get(node[1], (None, None))
            if e is None:
                return "<expr>"
            return "%s `%s`" % (f.loc(e) if f else "?", ast.unparse(e)[:60])
        if node[0] == "v":
            return "%s::%s" % (node[1].split(":")[1], node[2])
        if node[0] == "r":
            return "return of %s" % node[1].split(":")[1]
        if node[0] == "f":
            return "%s.%s" % (node[1].split(":")[1], node[2])
        return str(node)

    # --------------------------------------------------------------- helpers
    def enode(self, e):
        return ("e", id(e))

    def var(self, f, name):
        return ("v", f.qual + (".setter" if f.is_setter else ""), name)

    def ret(self, f):
        return ("r", f.qual)

    def field_nodes(self, cls, name):
        """Canonical nodes of field `name` seen from class cls (up and down the hierarchy)."""
        out = []
        fa = self.r.field_assigns
        cands = [c for c in cls.mro() + cls.all_subclasses() if name in fa.get(c.qual, {})]
        for c in cands:
            top = c
            for k in c.mro():
                if name in fa.get(k.qual, {}):
                    top = k
            n = ("f", top.qual, name)
            if n not in out:
                out.append(n)
        if not out:
            out.append(("f", cls.qual, name))
        return out

    def param(self, funcqual, name):
        f = self.p.func(funcqual)
        if name not in f.params and name not in f.kwonly:
            raise AnalysisError("anchor parameter vanished: %s(%s)" % (funcqual, name))
        return self.var(f, name)

    # ------------------------------------------------------------- functions
    def _func(self, f):
        self._globals = set()
        for n in walk_own(f.node):
            if isinstance(n, ast.Global):
                self._globals.update(n.names)
        self._lambda_params = set()
        for st in f.node.body:
            self._stmt(st, f)
        # defaults flow into parameters
        for pname, d in f.defaults.items():
            self.edge(self._expr(d, f), self.var(f, pname), "copy")

    def _body(self, stmts, f):
        for st in stmts:
            self._stmt(st, f)

    def _stmt(self, st, f):
        if isinstance(st, ast.Assign):
            v = self._expr(st.value, f)
            for t in st.targets:
                self._store(t, v, f, "copy", st.value)
        elif isinstance(st, ast.AnnAssign):
            if st.value is not None:
                self._store(st.target, self._expr(st.value, f), f, "copy", st.value)
        elif isinstance(st, ast.AugAssign):
            v = self._expr(st.value, f)
            self._store(st.target, v, f, "derive", st.value)
            # the target also reads itself
            if isinstance(st.target, (ast.Subscript, ast.Attribute)):
                self._expr_load_of_target(st.target, f)
        elif isinstance(st, ast.Expr):
            self._expr(st.value, f)
        elif isinstance(st, ast.Return):
            if st.value is not None:
                self.edge(self._expr(st.value, f), self.ret(f), "copy")
        elif isinstance(st, ast.If):
            self.tests.append((st.test, f, st))
            self._expr(st.test, f)
            self._body(st.body, f)
            self._body(st.orelse, f)
        elif isinstance(st, ast.While):
            self.tests.append((st.test, f, st))
            self._expr(st.test, f)
            self._body(st.body, f)
            self._body(st.orelse, f)
        elif isinstance(st, ast.For):
            it = self._expr(st.iter, f)
            self._store(st.target, it, f, "derive", st.iter)
            self._body(st.body, f)
            self._body(st.orelse, f)
        elif isinstance(st, ast.With):
            for it in st.items:
                v = self._expr(it.context_expr, f)
                if it.optional_vars is not None:
                    self._store(it.optional_vars, v, f, "copy", it.context_expr)
            self._body(st.body, f)
        elif isinstance(st, ast.Try):
            self._body(st.body, f)
            for h in st.handlers:
                if h.type is not None:
                    self._expr(h.type, f)
                self._body(h.body, f)
            self._body(st.orelse, f)
            self._body(st.finalbody, f)
        elif isinstance(st, ast.Raise):
            if st.exc is not None:
                self._expr(st.exc, f)
        elif isinstance(st, ast.Delete):
            for t in st.targets:
                self._expr_load_of_target(t, f)
        elif isinstance(st, ast.Assert):
            self._expr(st.test, f)
        elif isinstance(st, (ast.Pass, ast.Break, ast.Continue, ast.Global, ast.Nonlocal, ast.Import, ast.ImportFrom)):
            pass
        elif isinstance(st, (ast.FunctionDef, ast.ClassDef)):
            raise AnalysisError("nested definition not modelled: %s in %s" % (st.name, f.qual))
        else:
            raise AnalysisError("statement kind %s not modelled (%s)" % (type(st).__name__, f.loc(st)))

    def _expr_load_of_target(self, t, f):
        if isinstance(t, ast.Subscript):
            self._expr(t.value, f)
            self._expr(t.slice, f)
        elif isinstance(t, ast.Attribute):
            self._expr(t.value, f)

    def _storage(self, e, f):
        """Nodes that hold the object denoted by lvalue-ish expression e."""
        if isinstance(e, ast.Name):
            if e.id in self._globals:
                return [("g", f.module.name, e.id)]
            if self._is_local(e.id, f):
                return [self.var(f, e.id)]
            r = self.p.resolve_name(f.module, e.id)
            if r and r[0] == "const":
                return [("g", r[1].name, e.id)]
            return [self.var(f, e.id)]
        if isinstance(e, ast.Attribute):
            out = []
            typed = False
            for t in self.r.type_of(e.value, f):
                if t[0] == "inst":
                    typed = True
                    out.extend(self.field_nodes(self.p.classes[t[1]], e.attr))
            if not typed:
                for c in self._fields_by_name.get(e.attr, []):
                    for n in self.field_nodes(c, e.attr):
                        if n not in out:
                            out.append(n)
            return out or [self.enode(e)]
        if isinstance(e, ast.Subscript):
            return self._storage(e.value, f)
        return [self.enode(e)]

    def _is_local(self, name, f):
        q = f.qual + (".setter" if f.is_setter else "")
        return name in f.params or name in f.kwonly or name in self.r.local_assigns.get(q, {}) \
            or name in self._lambda_params or name == f.vararg or name == f.kwarg

    def _store(self, t, v, f, label, value_expr=None):
        if isinstance(t, ast.Name):
            for s in self._storage(t, f):
                self.edge(v, s, label)
        elif isinstance(t, ast.Attribute):
            self._expr(t.value, f)
            for s in self._storage(t, f):
                self.edge(v, s, label)
            # property setters
            for tt in self.r.type_of(t.value, f):
                if tt[0] == "inst":
                    st = self.p.classes[tt[1]].find_setter(t.attr)
                    if st is not None and len(st.params) >= 2:
                        self.edge(v, self.var(st, st.params[1]), "copy")
                        self.edge(self._expr(t.value, f), self.var(st, st.params[0]), "copy")
            if not any(tt[0] == "inst" for tt in self.r.type_of(t.value, f)):
                for c in self.p.classes.values():
                    if t.attr in c.setters:
                        st = c.setters[t.attr]
                        self.edge(v, self.var(st, st.params[1]), "copy")
                        self.edge(self._expr(t.value, f), self.var(st, st.params[0]), "copy")
        elif isinstance(t, ast.Subscript):
            k = self._expr(t.slice, f)
            self._expr(t.value, f)
            for s in self._storage(t.value, f):
                self.edge(v, s, "derive")
                self.edge(k, s, "derive")
        elif isinstance(t, (ast.Tuple, ast.List)):
            for i, e in enumerate(t.elts):
                if isinstance(value_expr, (ast.Tuple, ast.List)) and len(value_expr.elts) == len(t.elts):
                    self._store(e, self.enode(value_expr.elts[i]), f, label, value_expr.elts[i])
                else:
                    self._store(e, v, f, "derive")
        elif isinstance(t, ast.Starred):
            self._store(t.value, v, f, "derive")
        else:
            raise AnalysisError("assignment target %s not modelled (%s)" % (type(t).__name__, f.loc(t)))

    # ----------------------------------------------------------- expressions
    def _expr(self, e, f):
        n = self.enode(e)
        if id(e) in self.expr_index:
            return n
        self.expr_index[id(e)] = (e, f)
        if isinstance(e, ast.Constant):
            pass
        elif isinstance(e, ast.Name):
            for s in self._storage(e, f):
                self.edge(s, n, "copy")
        elif isinstance(e, ast.Attribute):
            self.attr_loads.append((e, f))
            b = self._expr(e.value, f)
            typed = False
            for t in self.r.type_of(e.value, f):
                if t[0] == "inst":
                    typed = True
                    c = self.p.classes[t[1]]
                    for fn in self.field_nodes(c, e.attr):
                        self.edge(fn, n, "copy")
                    for m in self.r._method_targets(c, e.attr):
                        if m.is_property:
                            self.edge(b, self.var(m, m.params[0]), "copy")
                            self.edge(self.ret(m), n, "copy")
                elif t[0] == "module":
                    self.edge(("g", t[1], e.attr), n, "copy")
            if not typed:
                for c in self._fields_by_name.get(e.attr, []):
                    for fn in self.field_nodes(c, e.attr):
                        self.edge(fn, n, "copy")
                for m in self._props_by_name.get(e.attr, []):
                    self.edge(b, self.var(m, m.params[0]), "copy")
                    self.edge(self.ret(m), n, "copy")
        elif isinstance(e, ast.Call):
            self._call(e, f, n)
        elif isinstance(e, ast.Subscript):
            self.subscript_loads.append((e, f))
            self.edge(self._expr(e.value, f), n, "derive")
            self._expr(e.slice, f)
        elif isinstance(e, ast.IfExp):
            self.tests.append((e.test, f, e))
            self._expr(e.test, f)
            self.edge(self._expr(e.body, f), n, "copy")
            self.edge(self._expr(e.orelse, f), n, "copy")
        elif isinstance(e, ast.BoolOp):
            for v in e.values:
                self.edge(self._expr(v, f), n, "copy")
        elif isinstance(e, ast.Compare):
            self.compares.append((e, f))
            self.edge(self._expr(e.left, f), n, "derive")
            for c in e.comparators:
                self.edge(self._expr(c, f), n, "derive")
        elif isinstance(e, (ast.BinOp,)):
            self.edge(self._expr(e.left, f), n, "derive")
            self.edge(self._expr(e.right, f), n, "derive")
        elif isinstance(e, ast.UnaryOp):
            self.edge(self._expr(e.operand, f), n, "derive")
        elif isinstance(e, (ast.List, ast.Tuple, ast.Set)):
            for x in e.elts:
                self.edge(self._expr(x, f), n, "derive")
        elif isinstance(e, ast.Dict):
            for k, v in zip(e.keys, e.values):
                if k is not None:
                    self.edge(self._expr(k, f), n, "derive")
                self.edge(self._expr(v, f), n, "derive")
        elif isinstance(e, ast.JoinedStr):
            for v in e.values:
                self.edge(self._expr(v, f), n, "derive")
        elif isinstance(e, ast.FormattedValue):
            self.edge(self._expr(e.value, f), n, "derive")
        elif isinstance(e, (ast.ListComp, ast.SetComp, ast.GeneratorExp, ast.DictComp)):
            for g in e.generators:
                self._store(g.target, self._expr(g.iter, f), f, "derive", g.iter)
                for c in g.ifs:
                    self.tests.append((c, f, e))
                    self._expr(c, f)
            if isinstance(e, ast.DictComp):
                self.edge(self._expr(e.key, f), n, "derive")
                self.edge(self._expr(e.value, f), n, "derive")
            else:
                self.edge(self._expr(e.elt, f), n, "derive")
        elif isinstance(e, ast.Lambda):
            for a in e.args.args:
                self._lambda_params.add(a.arg)
            self.edge(self._expr(e.body, f), n, "derive")
        elif isinstance(e, ast.Starred):
            self.edge(self._expr(e.value, f), n, "copy")
        elif isinstance(e, (ast.Yield, ast.YieldFrom)):
            if e.value is not None:
                self.edge(self._expr(e.value, f), self.ret(f), "copy" if isinstance(e, ast.Yield) else "derive")
        elif isinstance(e, ast.Slice):
            for x in (e.lower, e.upper, e.step):
                if x is not None:
                    self._expr(x, f)
        else:
            raise AnalysisError("expression kind %s not modelled (%s)" % (type(e).__name__, f.loc(e)))
        return n

    def _call(self, e, f, n):
        self.calls.append((e, f))
        cs = self.r.site_of.get(id(e))
        recv = None
        if isinstance(e.func, ast.Attribute):
            recv = self._expr(e.func.value, f)
        elif not isinstance(e.func, ast.Name):
            self._expr(e.func, f)
        args = [(a, self._expr(a.value if isinstance(a, ast.Starred) else a, f)) for a in e.args]
        kws = [(k, self._expr(k.value, f)) for k in e.keywords]
        amap = {id(a): node for a, node in args}
        amap.update({id(k.value): node for k, node in kws})
        targets = cs.targets if cs is not None else []
        kind = cs.kind if cs is not None else "unresolved"
        if targets:
            for t in targets:
                b = bind_args(e, t)
                for pname, arg in b["bound"].items():
                    if id(arg) in amap:
                        self.edge(amap[id(arg)], self.var(t, pname), "copy")
                        self.call_in[(amap[id(arg)], self.var(t, pname))] = id(e)
                if b["star"]:
                    for a, node in args:
                        if isinstance(a, ast.Starred):
                            for pn in t.bound_params:
                                self.edge(node, self.var(t, pn), "derive")
                    for k, node in kws:
                        if k.arg is None:
                            for pn in t.bound_params:
                                self.edge(node, self.var(t, pn), "derive")
                if t.cls is not None and not t.is_static and t.params:
                    if kind == "ctor":
                        for _, node in args:
                            self.ctor_edges.setdefault(node, set()).add(n)
                        for _, node in kws:
                            self.ctor_edges.setdefault(node, set()).add(n)
                        self.edge(n, self.var(t, t.params[0]), "copy")
                    elif recv is not None:
                        self.edge(recv, self.var(t, t.params[0]), "copy")
                        self.call_in[(recv, self.var(t, t.params[0]))] = id(e)
                    elif kind == "super":
                        pass
                if kind == "super" and f.cls is not None and f.params and t.params:
                    self.edge(self.var(f, f.params[0]), self.var(t, t.params[0]), "copy")
                if kind != "ctor":
                    self.edge(self.ret(t), n, "copy")
                    self.call_out[(self.ret(t), n)] = id(e)
            return
        name = e.func.attr if isinstance(e.func, ast.Attribute) else (e.func.id if isinstance(e.func, ast.Name) else None)
        if recv is not None and name in _MUTATORS:
            for s in self._storage(e.func.value, f):
                for _, node in args:
                    self.edge(node, s, "derive")
                for _, node in kws:
                    self.edge(node, s, "derive")
            for _, node in args:
                self.edge(node, recv, "derive")
            return
        if recv is not None:
            self.edge(recv, n, "derive")
        for _, node in args:
            self.edge(node, n, "derive")
        for _, node in kws:
            self.edge(node, n, "derive")

    # ------------------------------------------------- context-sensitive slice
    def provenance(self, target, sources, labels=("copy", "derive"), max_stack=6, limit=200000):
        """Backward walk from `target` with matched call/return edges (a value that entered a
        function through call site C leaves it backwards only to the arguments of C).
        -> (set of sources reached, set of transformer names crossed, visited nodes)
        A transformer is a package function whose *return value* lies on the way, or a
        builtin / third-party call, subscript, operator producing a derived value."""
        sources = set(sources)
        start = (target, ())
        seen = {start}
        stack = [start]
        reached, transformers, visited = set(), set(), set()
        # transformers are attributed per path: carry them in the state would explode; instead
        # record per node and rebuild by a second forward-restricted pass
        parents = {start: None}
        while stack:
            st = stack.pop()
            node, cstack = st
            visited.add(node)
            if node in sources:
                reached.add(st)
                continue
            if len(seen) > limit:
                raise AnalysisError("provenance walk explodes from %s" % self.describe(target))
            for m, lab in self.pred.get(node, {}).items():
                if lab not in labels:
                    continue
                ns = cstack
                if (m, node) in self.call_out:           # stepping back into a callee through its return
                    if len(cstack) >= max_stack:
                        continue
                    ns = cstack + (self.call_out[(m, node)],)
                elif (m, node) in self.call_in:          # stepping back out of a callee to an argument
                    site = self.call_in[(m, node)]
                    if cstack:
                        if cstack[-1] != site:
                            continue
                        ns = cstack[:-1]
                nxt = (m, ns)
                if nxt not in seen:
                    seen.add(nxt)
                    parents[nxt] = st
                    stack.append(nxt)
        for st in reached:
            cur = st
            while cur is not None:
                node = cur[0]
                par = parents[cur]     # parent is closer to the target
                if par is not None:
                    lab = self.pred.get(par[0], {}).get(node)
                    if (node, par[0]) in self.call_out:
                        transformers.add(node[1].split(":")[1])
                    elif lab == "derive" and par[0][0] == "e":
                        e, f = self.expr_index.get(par[0][1], (None, None))
                        if isinstance(e, ast.Call):
                            nm = e.func.attr if isinstance(e.func, ast.Attribute) else (e.func.id if isinstance(e.func, ast.Name) else "?")
                            transformers.add(nm)
                        elif e is not None:
                            transformers.add(type(e).__name__)
                cur = par
        return {s[0] for s in reached}, transformers, visited

    # ----------------------------------------------------------------- query
    def tainted_exprs(self, tset):
        """(expr, Func) for every expression occurrence whose node is in tset."""
        for k, (e, f) in self.expr_index.items():
            if ("e", k) in tset:
                yield e, f

    def expr_tainted(self, e, tset, deep=True):
        if ("e", id(e)) in tset:
            return True
        if deep:
            for s in ast.walk(e):
                if ("e", id(s)) in tset:
                    return True
        return False
