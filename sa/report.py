"""Obligations, known findings, evidence files, replay files, exit codes."""
import hashlib
import json
import os
import time

VERIF = os.path.dirname(os.path.dirname(os.path.abspath(__file__)))
KNOWN_FILE = os.path.join(VERIF, "known_findings.jsonl")
OUT = os.environ.get("SA_OUT", VERIF)     # self-validation sub-runs write their evidence/replay elsewhere


class Ob:
    """One proof obligation of a rule instance at a program construct."""
    __slots__ = ("prop", "clause", "rule", "key", "loc", "ok", "msg", "detail", "note")

    def __init__(self, clause, rule, key, loc, ok, msg, detail=None, note=False):
        self.prop = None
        self.clause = clause      # e.g. "D-a"
        self.rule = rule          # e.g. "R-NULL"
        self.key = key            # stable identity: rule | construct | normalised expression (no line numbers)
        self.loc = loc            # file:line (diagnostic only)
        self.ok = bool(ok)
        self.msg = msg
        self.detail = detail or {}
        self.note = note          # failing but outside the API-reachable program: reported as NOTE, never alarms

    def as_dict(self):
        return {"clause": self.clause, "rule": self.rule, "key": self.key, "loc": self.loc,
                "verdict": "discharged" if self.ok else ("note" if self.note else "FAILED"), "msg": self.msg,
                **({"detail": self.detail} if self.detail else {})}


class Floor:
    """A rule must match at least `minimum` constructs (confirmed by reading the pinned
    tree); fewer means the rule lost its anchors: analysis-broken, exit 2."""
    def __init__(self, name, count, minimum):
        self.name, self.count, self.minimum = name, count, minimum


def load_known():
    out = []
    if os.path.exists(KNOWN_FILE):
        with open(KNOWN_FILE) as fh:
            for line in fh:
                line = line.strip()
                if line:
                    out.append(json.loads(line))
    return out


def key_hash(key):
    return hashlib.sha1(key.encode()).hexdigest()[:12]


def finish(prop, tier, obs, floors, info, t0, explanation, trusted, selfval=None, extra_cov=None, deferred=()):
    """Print the report, write evidence, return the exit code."""
    from .core import AnalysisError
    broken = list(deferred)
    for f in floors:
        if f.count < f.minimum:
            broken.append("rule instance floor not met: %s matched %d constructs, expected at least %d "
                          "(anchors moved or rule no longer recognises the idiom)" % (f.name, f.count, f.minimum))
    known = [k for k in load_known() if k.get("property") == prop and k.get("status") == "known"]
    known_keys = {k["key"]: k for k in known}
    failed = [o for o in obs if not o.ok and not o.note]
    notes = [o for o in obs if not o.ok and o.note]
    viol, kf = [], []
    for o in failed:
        (kf if o.key in known_keys else viol).append(o)
    by_rule = {}
    for o in obs:
        r = by_rule.setdefault(o.clause + " " + o.rule, [0, 0])
        r[0] += 1
        r[1] += 1 if o.ok else 0
    print("[%s] tier=%s analysed %s" % (prop, tier, json.dumps(info, sort_keys=True)))
    for r in sorted(by_rule):
        print("[%s] %-22s obligations=%-4d discharged=%d" % (prop, r, by_rule[r][0], by_rule[r][1]))
    for f in floors:
        print("[%s] floor %-40s %d >= %d" % (prop, f.name, f.count, f.minimum))
    for o in notes:
        print("NOTE: property=%s %s %s :: %s [%s]" % (prop, o.rule, o.loc, o.msg, o.key))
    seen = set()
    for o in kf:
        if o.key in seen:
            continue
        seen.add(o.key)
        print("KNOWN-FINDING: property=%s %s :: %s (%s at %s)" % (prop, o.key, known_keys[o.key].get("what", o.msg), o.rule, o.loc))
    replay_dir = os.path.join(OUT, "replay", prop)
    for o in viol:
        os.makedirs(replay_dir, exist_ok=True)
        path = os.path.join(replay_dir, key_hash(o.key) + ".json")
        with open(path, "w") as fh:
            json.dump({"property": prop, "tier": tier, **o.as_dict()}, fh, indent=1)
        print("VIOLATION property=%s replay=%s" % (prop, path))
        print("    %s  %s %s: %s" % (o.loc, o.clause, o.rule, o.msg))
        print("    key: %s" % o.key)
    distinct = len({o.key for o in obs})
    samples = [o.as_dict() for o in (viol + kf + notes)][:12]
    okobs = [o for o in obs if o.ok]
    step = max(1, len(okobs) // 14)
    samples += [o.as_dict() for o in okobs[::step]][:14]
    cov = {"explanation": explanation, "evaluations": len(obs), "distinct_nontrivial": distinct,
           "rule": "one evaluation = one proof obligation of a repository-specific rule at a program construct "
                   "(call site, dereference, comparison, table row, twin pair ...); distinct = distinct "
                   "(rule, construct, normalised expression) keys; every obligation is non-vacuous by "
                   "construction because it is attached to a construct found in the current source",
           "samples": samples, "obligations": len(obs), "discharged": len(okobs),
           "per_rule": {k: {"obligations": v[0], "discharged": v[1]} for k, v in by_rule.items()},
           "floors": {f.name: {"matched": f.count, "minimum": f.minimum} for f in floors},
           "analysed": info, "trusted_base": trusted,
           "known_findings_printed": sorted(seen), "notes_unreachable": len(notes), "analysis_errors": broken,
           "exhaustive": True}
    if selfval is not None:
        cov["self_validation"] = selfval
    if extra_cov:
        cov.update(extra_cov)
    ev = {"property_id": prop, "tier": tier, "seed": int(os.environ.get("VERIF_SEED", "0") or 0), "level": "other",
          "coverage": cov, "assumptions": trusted, "wall_s": round(time.time() - t0, 3), "violations": len(viol)}
    os.makedirs(os.path.join(OUT, "evidence"), exist_ok=True)
    with open(os.path.join(OUT, "evidence", prop + ".json"), "w") as fh:
        json.dump(ev, fh, indent=1, default=str)
    print("[%s] %d obligations, %d discharged, %d known findings, %d notes, %d violations (%.2fs)" % (
        prop, len(obs), len(okobs), len(seen), len(notes), len(viol), time.time() - t0))
    for b in broken:
        print("ANALYSIS-ERROR property=%s %s" % (prop, b))
    if viol:
        return 1          # a violation found by a working rule stands even if another rule lost its anchors
    return 2 if broken else 0
