"""R-TABLE engine: abstract evaluation of small decision functions over a finite
abstract domain, producing decision tables  abstract input -> outcome.

Values are Python constants or abstract tokens:
  OBJ      some non-None object of unknown truthiness and unknown equality
  Distinct a string different from every constant of the program ("bogus" enum value)
  Sym      a symbolic integer/float with known ordering facts (k > 1; threshold classes)
  Cat      symbolic string concatenation
The evaluator understands constants, names, attribute paths bound in the environment,
comparisons, boolean operators, membership in constant lists, conditional expressions,
if/elif/else, loops over concrete tuples, integer counters, return, raise, and calls to
package functions (inlined, depth-limited).  Anything else raises AnalysisError: a table
that cannot be extracted is analysis-broken (exit 2), never a silent pass.
Unknown truth values fork: a row may have several outcomes."""
import ast
import copy
from .core import AnalysisError, Unfoldable


class Opaque:
    def __deepcopy__(self, memo):
        return self           # immutable token

    def __init__(self, name):
        self.name = name

    def __repr__(self):
        return "OBJ(%s)" % self.name


class Distinct:
    def __deepcopy__(self, memo):
        return self           # immutable token

    """A string constant different from every constant appearing in the program."""
    def __init__(self, name="bogus"):
        self.name = name

    def __repr__(self):
        return "<%s>" % self.name


class Sym:
    def __deepcopy__(self, memo):
        return self           # immutable token

    """Symbolic number. facts: dict const -> relation in {'<','>','=='}; kind: int|float."""
    def __init__(self, name, kind, facts):
        self.name, self.kind, self.facts = name, kind, facts

    def __repr__(self):
        return self.name

    def cmp(self, op, c):
        rel = self.facts.get(c)
        if rel is None:
            return None
        table = {"<": {"Lt": True, "LtE": True, "Gt": False, "GtE": False, "Eq": False, "NotEq": True},
                 ">": {"Lt": False, "LtE": False, "Gt": True, "GtE": True, "Eq": False, "NotEq": True},
                 "==": {"Lt": False, "LtE": True, "Gt": False, "GtE": True, "Eq": True, "NotEq": False}}
        return table[rel].get(op)


class Cat:
    def __init__(self, parts):
        self.parts = parts

    def __repr__(self):
        return "".join(p if isinstance(p, str) else "{%r}" % p for p in self.parts)

    def __eq__(self, o):
        return isinstance(o, Cat) and repr(self) == repr(o)

    def __hash__(self):
        return hash(repr(self))


class AbsObj:
    """An object of a package class whose methods are interpreted: the class (for method / property lookup) and its
    fields.  Aliases share the AbsObj, so mutation through one reference is seen through the others."""
    def __init__(self, cls):
        self.cls = cls
        self.fields = {}

    def __deepcopy__(self, memo):
        import copy
        o = AbsObj(self.cls)
        memo[id(self)] = o
        o.fields = copy.deepcopy(self.fields, memo)
        return o

    def __repr__(self):
        return "<%s %s>" % (self.cls.name, {k: v for k, v in self.fields.items() if not isinstance(v, AbsObj)})


class Closure:
    """A lambda with the environment it was created in."""
    def __init__(self, node, env, f):
        self.node, self.env, self.f = node, env, f

    def __deepcopy__(self, memo):
        return self


_SELF = object()        # the receiver itself, where a function is interpreted over "self.<field>" entries of its environment


class OneShot(list):
    """What a generator expression evaluates to: its elements, readable once.  Iterating it (a loop, a comprehension, a
    consuming builtin) empties it, so a second consumer sees nothing - as with the real object."""
    def drain(self):
        items = list(self)
        del self[:]
        return items

    def __deepcopy__(self, memo):
        return OneShot(copy.deepcopy(list(self), memo))


class OneShotT(tuple):
    """What calling a generator function evaluates to: the values it yields (computed eagerly), readable once by the
    interpreted program.  The driver of a table sees a plain tuple."""
    def __new__(cls, items):
        o = super().__new__(cls, items)
        o.used = False
        return o

    def drain(self):
        if self.used:
            return ()
        self.used = True
        return tuple(self)

    def __deepcopy__(self, memo):
        return OneShotT(copy.deepcopy(tuple(self), memo))


def _drained(v):
    return v.drain() if isinstance(v, (OneShot, OneShotT)) else v


class AbsFile:
    """Abstract file handle: writes append to the evaluator's per-path content list; mode 'w' truncated it at open."""
    def __init__(self, key, mode):
        self.key, self.mode = key, mode


class Raised(Exception):
    def __init__(self, exc):
        self.exc = exc


class Returned(Exception):
    def __init__(self, value):
        self.value = value


class _Break(Exception):
    pass


class _Continue(Exception):
    pass


class Fork(Exception):
    """Truth value unknown: the driver re-runs with the decision forced both ways."""
    def __init__(self, site):
        self.site = site


UNKNOWN = object()


class Evaluator:
    def __init__(self, ctx, max_depth=8, watch=()):
        self.ctx = ctx
        self.max_depth = max_depth
        self.watch = set(watch)      # method names of external receivers whose calls are logged as effects
        self.effects = []
        self._yields = []
        self.unknown_attrs = set()
        self.concrete_classes = set()   # names of package classes whose constructor builds an AbsObj (methods interpreted)
        self.ctor_hooks = {}         # class name -> callable(args, kwargs) -> abstract value built instead of ("new", ...)
        self.stubs = {}              # name of a package function -> value it returns (the callee is not interpreted)
        self.symbolic = set()        # names of package functions kept symbolic: ("call", name, args, kwargs) instead of inlining
        self.visited = set()         # functions entered by the evaluation
        self.files = {}              # abstract file system: frozen path -> list of written values
        self.opens = []              # (frozen path, mode) in order
        self.int_override = {}       # constant -> constant (buffer thresholds scaled down for protocol tables)

    # ------------------------------------------------------------------ driver
    def outcomes(self, func, args, selfenv=None):
        """All outcomes of calling func with abstract args: list of ('return', v) / ('raise', name)."""
        import copy
        results = []
        self.finals = []      # per outcome: the (mutated) copies of args and self-environment
        pending = [()]
        while pending:
            decisions = pending.pop()
            self._decisions = list(decisions)
            self._taken = []
            self.effects = []
            self._yields = []
            self.files, self.opens = {k_: list(v_) for k_, v_ in getattr(self, "initial_files", {}).items()}, []
            a_copy, s_copy = copy.deepcopy(dict(args)), copy.deepcopy(dict(selfenv or {}))
            try:
                v = self.call(func, a_copy, s_copy, 0)
                out = ("return", v, tuple(self.effects)) if self.watch else ("return", v)
            except Raised as r:
                out = ("raise", r.exc, tuple(self.effects)) if self.watch else ("raise", r.exc)
            except Fork:
                n = len(self._taken)
                pending.append(tuple(self._taken) + (True,))
                pending.append(tuple(self._taken) + (False,))
                continue
            if out not in results:
                results.append(out)
                self.finals.append((a_copy, s_copy))
            if len(results) > 16:
                raise AnalysisError("decision table of %s explodes" % func.qual)
        return results

    def _bind(self, t, args, kws, site_desc):
        params = t.bound_params
        bound, star = {}, []
        for i, a in enumerate(args):
            if i < len(params):
                bound[params[i]] = a
            else:
                star.append(a)
        bound.update(kws)
        if t.vararg:
            bound["*"] = tuple(star)
        return bound

    def invoke(self, obj, name, args, kws, depth, site=None):
        """Call method `name` of the abstract object."""
        slot = obj.fields.get(name)
        if isinstance(slot, tuple) and len(slot) == 3 and slot[0] == "bound" and isinstance(slot[1], AbsObj):
            # an instance attribute shadows the method of the class (`self.annotate_class = self._variant` in the constructor)
            obj, m = slot[1], slot[2]
            if name in self.watch:
                self.effects.append((name,) + tuple(freeze(a) for a in args) + tuple(sorted((k, freeze(x)) for k, x in kws.items())))
            return self.call(m, self._bind(m, args, kws, name), None, depth + 1, selfobj=(None if m.is_static else obj))
        m = obj.cls.find_method(name)
        if m is None:
            raise Raised("AttributeError")
        if name in self.watch:
            self.effects.append((name,) + tuple(freeze(a) for a in args) + tuple(sorted((k, freeze(x)) for k, x in kws.items())))
        return self.call(m, self._bind(m, args, kws, name), None, depth + 1, selfobj=(None if m.is_static else obj))

    def getattr_obj(self, obj, attr, depth, site_desc=""):
        if attr in obj.fields:
            return obj.fields[attr]
        m = obj.cls.find_method(attr)
        if m is not None and m.is_property:
            return self.call(m, {}, None, depth + 1, selfobj=obj)
        if m is not None:
            return ("bound", obj, m)
        for c in obj.cls.mro():
            if attr in c.class_consts:                   # a class-level constant read through the instance
                host = next(iter(c.methods.values()), None)
                if host is not None:
                    return self.expr(c.class_consts[attr], {}, host, depth + 1)
        raise Raised("AttributeError")

    def new(self, cls, **kws):
        """Build an abstract object of an interpreted class from the driver (runs __init__)."""
        obj = AbsObj(cls)
        init = cls.find_method("__init__")
        self._decisions, self._taken = [], []
        self._yields = self._yields or []
        if init is not None:
            self.call(init, dict(kws), None, 1, selfobj=obj)
        return obj

    def decide(self, site):
        if self._decisions:
            d = self._decisions.pop(0)
            self._taken.append(d)
            return d
        raise Fork(site)

    # -------------------------------------------------------------------- call
    def call(self, func, args, selfenv, depth, selfobj=None):
        if depth > self.max_depth:
            raise AnalysisError("abstract evaluation too deep at " + func.qual)
        self.visited.add(func.qual)
        env = dict(selfenv or {})
        if selfobj is not None:
            env["self"] = selfobj
        params = func.bound_params
        for p in params:
            if p in args:
                env[p] = args[p]
            elif p in func.defaults:
                env[p] = self.expr(func.defaults[p], {}, func, depth)
            else:
                raise AnalysisError("abstract call of %s misses argument %s" % (func.qual, p))
        if func.vararg:
            env[func.vararg] = args.get("*", ())
        self._yields.append([])
        try:
            self.block(func.node.body, env, func, depth)
        except Returned as r:
            ys = self._yields.pop()
            return OneShotT(ys) if func.is_generator else r.value
        finally:
            # state of the receiver object written by the callee is visible to the caller (and to the driver)
            if selfenv is not None:
                selfenv.update({k: v for k, v in env.items() if k.startswith("self.")})
        ys = self._yields.pop()
        return OneShotT(ys) if func.is_generator else None

    # -------------------------------------------------------------- statements
    def block(self, stmts, env, f, depth):
        for st in stmts:
            self.stmt(st, env, f, depth)

    def stmt(self, st, env, f, depth):
        if isinstance(st, ast.Expr):
            if isinstance(st.value, ast.Constant):
                return
            self.expr(st.value, env, f, depth)
        elif isinstance(st, ast.Return):
            raise Returned(self.expr(st.value, env, f, depth) if st.value is not None else None)
        elif isinstance(st, ast.Raise):
            name = "Exception"
            if isinstance(st.exc, ast.Call):
                name = ast.unparse(st.exc.func)
            elif st.exc is not None:
                name = ast.unparse(st.exc)
            raise Raised(name)
        elif isinstance(st, ast.If):
            if self.truth(self.expr(st.test, env, f, depth), st):
                self.block(st.body, env, f, depth)
            else:
                self.block(st.orelse, env, f, depth)
        elif isinstance(st, ast.Assign):
            v = self.expr(st.value, env, f, depth)
            for t in st.targets:
                self.assign(t, v, env, f)
        elif isinstance(st, ast.AugAssign):
            cur = self.expr(st.target, env, f, depth)
            v = self.expr(st.value, env, f, depth)
            if isinstance(st.op, ast.Add) and type(cur) is list and isinstance(v, (list, tuple)):
                cur.extend(v)          # in place, like Python: aliases of the list see the new elements
                return
            self.assign(st.target, self.binop(st.op, cur, v, st), env, f)
        elif isinstance(st, ast.Delete):
            for t in st.targets:
                if isinstance(t, ast.Subscript):
                    base = self.expr(t.value, env, f, depth)
                    idx = self.expr(t.slice, env, f, depth)
                    if type(base) in (dict, list) and not isinstance(idx, (Opaque, Sym)):
                        try:
                            del base[idx]
                        except KeyError:
                            raise Raised("KeyError")
                        except (IndexError, TypeError) as ex_:
                            raise Raised(type(ex_).__name__)
                        if "del" in self.watch:
                            self.effects.append(("del", freeze(idx)))
                        continue
                raise AnalysisError("statement Delete not supported by the table extractor (%s)" % f.loc(st))
        elif isinstance(st, ast.For):
            it = _drained(self.expr(st.iter, env, f, depth))
            if isinstance(it, AbsFile):
                it = self._file_lines(it, f.loc(st))
            if isinstance(it, str):
                it = list(it)
            if isinstance(it, dict):
                it = tuple(it)
            if isinstance(it, (set, frozenset)) and all(isinstance(x, (str, int, float, bool)) for x in it):
                # a set of plain values is walked in one fixed order (sorted): whether the order can matter at all is the
                # business of R-DET, not of a decision table
                it = tuple(sorted(it, key=lambda x: (type(x).__name__, x)))
            if not isinstance(it, (tuple, list)):
                raise AnalysisError("loop over a non-concrete sequence in %s" % f.loc(st))
            broke = False
            for x in it:
                self.assign(st.target, x, env, f)
                try:
                    self.block(st.body, env, f, depth)
                except _Continue:
                    continue
                except _Break:
                    broke = True
                    break
            if not broke:
                self.block(st.orelse, env, f, depth)
        elif isinstance(st, ast.While):
            rounds = 0
            broke = False
            while self.truth(self.expr(st.test, env, f, depth), st.test):
                rounds += 1
                if rounds > 20000:
                    raise AnalysisError("while loop does not terminate within 20000 abstract iterations (%s)" % f.loc(st))
                try:
                    self.block(st.body, env, f, depth)
                except _Continue:
                    continue
                except _Break:
                    broke = True
                    break
            if not broke:
                self.block(st.orelse, env, f, depth)
        elif isinstance(st, ast.Break):
            raise _Break()
        elif isinstance(st, ast.Continue):
            raise _Continue()
        elif isinstance(st, ast.Pass):
            pass
        elif isinstance(st, ast.Try):
            try:
                try:
                    self.block(st.body, env, f, depth)
                except Raised as r:
                    for h in st.handlers:
                        names = [] if h.type is None else [ast.unparse(x) for x in (h.type.elts if isinstance(h.type, ast.Tuple) else [h.type])]
                        if h.type is None or "Exception" in names or "BaseException" in names or r.exc.split(".")[-1] in [n.split(".")[-1] for n in names]:
                            if h.name:
                                env[h.name] = Opaque("exception " + r.exc)
                            self.block(h.body, env, f, depth)
                            break
                    else:
                        raise
                else:
                    self.block(st.orelse, env, f, depth)
            finally:
                if st.finalbody:
                    self.block(st.finalbody, env, f, depth)
        elif isinstance(st, ast.With):
            for it in st.items:
                v = self.expr(it.context_expr, env, f, depth)
                if it.optional_vars is not None:
                    self.assign(it.optional_vars, v, env, f)
            self.block(st.body, env, f, depth)
        else:
            raise AnalysisError("statement %s not supported by the table extractor (%s)" % (type(st).__name__, f.loc(st)))

    def _file_lines(self, fh, where):
        """What iterating a file opened for reading gives: the lines of the content the table put there, line ends kept."""
        if not fh.mode.startswith("r"):
            raise Raised("io.UnsupportedOperation")
        content = self.files.get(fh.key, [])
        if not all(isinstance(x, str) for x in content):
            raise AnalysisError("reading a file whose content is not concrete text (%s)" % where)
        return "".join(content).splitlines(True)

    def assign(self, t, v, env, f):
        if isinstance(t, ast.Name):
            env[t.id] = v
        elif isinstance(t, ast.Attribute) and isinstance(t.value, ast.Name) and isinstance(env.get(t.value.id), AbsObj):
            obj = env[t.value.id]
            st_ = obj.cls.find_setter(t.attr)
            if st_ is not None:
                self.call(st_, {st_.bound_params[0]: v}, None, 1, selfobj=obj)
            else:
                obj.fields[t.attr] = v
        elif isinstance(t, ast.Attribute):
            if isinstance(t.value, ast.Name) and isinstance(env.get(t.value.id), dict):
                env[t.value.id][t.attr] = v       # abstract object: the caller inspects it afterwards
            else:
                env[ast.unparse(t)] = v
        elif isinstance(t, ast.Subscript):
            base = self.expr(t.value, env, f, 0)
            idx = self.expr(t.slice, env, f, 0)
            if isinstance(base, (dict, list)) and not isinstance(idx, (Opaque, Sym)):
                base[idx] = v
            else:
                raise AnalysisError("subscript store on an abstract container (%s)" % f.loc(t))
        elif isinstance(t, ast.Tuple) and isinstance(v, (tuple, list)) and len(v) == len(t.elts):
            for a, b in zip(t.elts, v):
                self.assign(a, b, env, f)
        else:
            raise AnalysisError("assignment target not supported (%s)" % f.loc(t))

    # ------------------------------------------------------------- expressions
    def truth(self, v, site):
        if isinstance(v, Opaque) or v is UNKNOWN:
            return self.decide(site)
        if isinstance(v, (Distinct, Cat)):
            return True
        if isinstance(v, Sym):
            r = v.cmp("NotEq", 0)
            return self.decide(site) if r is None else r
        return bool(v)

    def expr(self, e, env, f, depth):
        if isinstance(e, ast.Constant):
            if type(e.value) is int and e.value in self.int_override:
                return self.int_override[e.value]
            return e.value
        if isinstance(e, ast.Name):
            if e.id in env:
                return env[e.id]
            if e.id in ("int", "str", "float", "bool", "list", "dict", "tuple", "set") and self.ctx.p.resolve_name(f.module, e.id) is None:
                return {"int": int, "str": str, "float": float, "bool": bool, "list": list, "dict": dict, "tuple": tuple, "set": set}[e.id]
            try:
                r0_ = self.ctx.p.resolve_name(f.module, e.id)
                if r0_ is not None and r0_[0] == "const" and isinstance(r0_[2], (ast.Dict, ast.List, ast.Tuple)) \
                        and any(isinstance(x, ast.Attribute) or (isinstance(x, ast.Name) and (self.ctx.p.resolve_name(r0_[1], x.id) or ("",))[0] in ("func", "class"))
                                for x in ast.walk(r0_[2])):
                    raise Unfoldable("table of callables")        # evaluated below, in its module
                v = self.ctx.p.fold(f.module, e)
                return self.int_override.get(v, v) if type(v) is int else v
            except Unfoldable:
                r_ = self.ctx.p.resolve_name(f.module, e.id)
                if r_ is not None and r_[0] == "class":
                    return ("class", r_[1])        # a class used as a value (passed on, called later)
                if r_ is not None and r_[0] == "func":
                    return ("func", r_[1])         # a function of the package used as a value (dispatch tables)
                if r_ is not None and r_[0] == "const" and e.id not in r_[1].multi_assigned and e.id not in r_[1].globals_mutated:
                    # a module constant given by an expression (len(OTHER), A + str(B), ...): evaluate it in its module
                    m_ = r_[1]
                    host = next(iter(m_.funcs.values()), None) or next((g for c in m_.classes.values() for g in c.methods.values()), None)
                    if host is not None:
                        return self.expr(r_[2], {}, host, depth + 1)
                raise AnalysisError("name %s is not bound for the table extractor (%s)" % (e.id, f.loc(e)))
        if isinstance(e, ast.Attribute):
            k = ast.unparse(e)
            if k in env:
                return env[k]
            base = self.expr(e.value, env, f, depth) if not isinstance(e.value, ast.Name) or e.value.id in env else None
            if base is None and isinstance(e.value, ast.Name):
                rc_ = self.ctx.p.resolve_name(f.module, e.value.id)
                if rc_ is not None and rc_[0] == "class":
                    m_ = rc_[1].find_method(e.attr)
                    if m_ is not None and m_.is_static:
                        return ("func", m_)            # Class.static_method used as a value
            if isinstance(base, AbsObj):
                return self.getattr_obj(base, e.attr, depth)
            if isinstance(base, dict) and e.attr in base:
                return base[e.attr]
            if isinstance(base, dict) and any(k.endswith("()") or k in ("cardinality", "st_type", "name") for k in base):
                # an attribute of a model object that the reference domain does not know: its value is unknown,
                # so a decision that consults it forks and cannot equal the reference row
                self.unknown_attrs.add(k)
                return Opaque("unknown attribute " + k)
            if isinstance(e.value, ast.Name) and e.value.id == "self" and "self" not in env and f.cls is not None:
                m_ = f.cls.find_method(e.attr)
                if m_ is not None and not m_.is_property:
                    return ("selfmethod", m_)          # a method of the object used as a value (stored, passed on, called later)
            if isinstance(e.value, ast.Name) and e.value.id not in env:
                try:
                    return self.ctx.p.fold(f.module, e)
                except Unfoldable:
                    pass
            raise AnalysisError("attribute %s is not bound for the table extractor (%s)" % (k, f.loc(e)))
        if isinstance(e, (ast.List, ast.Tuple)):
            vals = [self.expr(x, env, f, depth) for x in e.elts]
            return vals if isinstance(e, ast.List) else tuple(vals)
        if isinstance(e, ast.UnaryOp):
            v = self.expr(e.operand, env, f, depth)
            if isinstance(e.op, ast.Not):
                return not self.truth(v, e)
            if isinstance(e.op, ast.USub) and isinstance(v, (int, float)):
                return -v
            raise AnalysisError("unary operator not supported (%s)" % f.loc(e))
        if isinstance(e, ast.BoolOp):
            last = None
            for x in e.values:
                last = self.expr(x, env, f, depth)
                t = self.truth(last, x)
                if isinstance(e.op, ast.And) and not t:
                    return last if not isinstance(last, (Opaque,)) else False
                if isinstance(e.op, ast.Or) and t:
                    return last if not isinstance(last, (Opaque,)) else True
            return last
        if isinstance(e, ast.IfExp):
            if self.truth(self.expr(e.test, env, f, depth), e.test):
                return self.expr(e.body, env, f, depth)
            return self.expr(e.orelse, env, f, depth)
        if isinstance(e, ast.Compare):
            left = self.expr(e.left, env, f, depth)
            res = True
            for op, c in zip(e.ops, e.comparators):
                right = self.expr(c, env, f, depth)
                r = self.compare(op, left, right, e)
                if not r:
                    return False
                left = right
            return res
        if isinstance(e, ast.BinOp):
            return self.binop(e.op, self.expr(e.left, env, f, depth), self.expr(e.right, env, f, depth), e)
        if isinstance(e, ast.Subscript) and isinstance(e.slice, ast.Slice):
            base = self.expr(e.value, env, f, depth)
            lo = self.expr(e.slice.lower, env, f, depth) if e.slice.lower is not None else None
            hi = self.expr(e.slice.upper, env, f, depth) if e.slice.upper is not None else None
            st = self.expr(e.slice.step, env, f, depth) if e.slice.step is not None else None
            if isinstance(base, (str, list, tuple)) and all(x is None or isinstance(x, int) for x in (lo, hi, st)):
                return base[lo:hi:st]
            if base is None or isinstance(base, (bool, int, float)):
                raise Raised("TypeError")        # None / a number is not subscriptable
            raise AnalysisError("slice of an abstract value not supported (%s)" % f.loc(e))
        if isinstance(e, ast.Subscript):
            base = self.expr(e.value, env, f, depth)
            idx = self.expr(e.slice, env, f, depth)
            if isinstance(base, (tuple, list, dict, str)) and not isinstance(idx, (Opaque, Sym)):
                try:
                    return base[idx]
                except KeyError:
                    raise Raised("KeyError")
                except IndexError:
                    raise Raised("IndexError")
                except TypeError:
                    raise Raised("TypeError")
            raise AnalysisError("subscript not supported (%s)" % f.loc(e))
        if isinstance(e, ast.JoinedStr):
            # f"a{x}b{y!s}": the concatenation of the pieces; a concrete piece is formatted as Python would, an abstract string
            # piece stays a piece of the concatenation (as for `"a" + x + "b"`)
            acc = ""
            for part in e.values:
                if isinstance(part, ast.Constant):
                    piece = str(part.value)
                else:
                    v = self.expr(part.value, env, f, depth)
                    spec = self.expr(part.format_spec, env, f, depth) if part.format_spec is not None else ""
                    if isinstance(v, (str, int, float, bool)) or v is None:
                        if not isinstance(spec, str):
                            return Opaque("fstring")
                        conv = {115: str, 114: repr, 97: ascii}.get(part.conversion)
                        piece = format(conv(v) if conv else v, spec)
                    elif isinstance(v, (Cat, Sym, Distinct)) and spec == "" and part.conversion in (-1, 115):
                        piece = v
                    else:
                        return Opaque("fstring")
                acc = self.binop(ast.Add(), acc, piece, e) if acc != "" else piece
                if isinstance(acc, Opaque):
                    return acc
            return acc
        if isinstance(e, ast.YieldFrom):
            v = _drained(self.expr(e.value, env, f, depth))
            if isinstance(v, (list, tuple)):
                self._yields[-1].extend(v)
                return None
            raise AnalysisError("yield from an abstract iterable not supported by the table extractor (%s)" % f.loc(e))
        if isinstance(e, ast.Call):
            return self.callexpr(e, env, f, depth)
        if isinstance(e, ast.Dict):
            return {self.expr(k, env, f, depth): self.expr(v, env, f, depth) for k, v in zip(e.keys, e.values)}
        if isinstance(e, ast.Yield):
            self._yields[-1].append(self.expr(e.value, env, f, depth) if e.value is not None else None)
            return None
        if isinstance(e, ast.Lambda):
            return Closure(e, env, f)
        if isinstance(e, (ast.ListComp, ast.GeneratorExp, ast.SetComp, ast.DictComp)):
            out = []

            def rec(i, sub):
                if i == len(e.generators):
                    if isinstance(e, ast.DictComp):
                        out.append((self.expr(e.key, sub, f, depth), self.expr(e.value, sub, f, depth)))
                    else:
                        out.append(self.expr(e.elt, sub, f, depth))
                    return
                gen = e.generators[i]
                it = _drained(self.expr(gen.iter, sub, f, depth))
                if isinstance(it, AbsFile):
                    it = self._file_lines(it, f.loc(e))
                if isinstance(it, str):
                    it = list(it)
                if isinstance(it, dict):
                    it = tuple(it)
                if isinstance(it, set):
                    it = tuple(it)
                if not isinstance(it, (tuple, list)):
                    raise AnalysisError("comprehension over a non-concrete sequence (%s)" % f.loc(e))
                for x in it:
                    sub2 = dict(sub)
                    self.assign(gen.target, x, sub2, f)
                    if all(self.truth(self.expr(c, sub2, f, depth), c) for c in gen.ifs):
                        rec(i + 1, sub2)
            rec(0, dict(env))
            if isinstance(e, ast.SetComp):
                try:
                    return set(out)
                except TypeError:
                    raise AnalysisError("set comprehension over unhashable abstract values (%s)" % f.loc(e))
            if isinstance(e, ast.DictComp):
                return dict(out)
            return OneShot(out) if isinstance(e, ast.GeneratorExp) else out
        raise AnalysisError("expression %s not supported by the table extractor (%s)" % (type(e).__name__, f.loc(e)))

    def compare(self, op, a, b, site):
        opn = type(op).__name__
        if opn in ("Is", "IsNot"):
            if b is None or a is None:
                other = a if b is None else b
                isnone = other is None
                return isnone if opn == "Is" else not isnone
            r = a is b
            return r if opn == "Is" else not r
        if opn in ("In", "NotIn"):
            if not isinstance(b, (list, tuple, set, frozenset, dict, str)):
                raise AnalysisError("membership in a non-constant container")
            if isinstance(a, Distinct):
                r = any(x is a for x in b)        # the very same token may have been put there; it equals nothing else
            elif isinstance(a, (Sym, Cat)):
                r = False
            elif isinstance(a, Opaque):
                r = self.decide(site)
            else:
                r = a in b
            return r if opn == "In" else not r
        if isinstance(a, Sym) or isinstance(b, Sym):
            s, c, flip = (a, b, False) if isinstance(a, Sym) else (b, a, True)
            if isinstance(c, Sym):
                if opn in ("Eq", "NotEq"):
                    same = s is c
                    if same:
                        return opn == "Eq"
                    return self.decide(site)       # two symbolic numbers may or may not be equal
                raise AnalysisError("ordering comparison of two symbolic numbers")
            if not isinstance(c, (int, float)) or isinstance(c, bool):
                return {"Eq": False, "NotEq": True}.get(opn, False)
            if flip:
                opn = {"Lt": "Gt", "Gt": "Lt", "LtE": "GtE", "GtE": "LtE"}.get(opn, opn)
            r = s.cmp(opn, c)
            if r is None:
                return self.decide(site)
            return r
        if isinstance(a, (Distinct, Cat)) or isinstance(b, (Distinct, Cat)):
            if opn == "Eq":
                return a == b if isinstance(a, Cat) and isinstance(b, Cat) else (a is b)
            if opn == "NotEq":
                return not (a == b) if isinstance(a, Cat) and isinstance(b, Cat) else (a is not b)
            raise AnalysisError("ordering comparison on an abstract string")
        if isinstance(a, Opaque) or isinstance(b, Opaque) or a is UNKNOWN or b is UNKNOWN:
            return self.decide(site)
        try:
            return {"Eq": lambda: a == b, "NotEq": lambda: a != b, "Lt": lambda: a < b, "LtE": lambda: a <= b,
                    "Gt": lambda: a > b, "GtE": lambda: a >= b}[opn]()
        except TypeError:
            raise Raised("TypeError")

    def binop(self, op, a, b, site):
        if isinstance(op, ast.Add):
            if isinstance(a, (str, Cat, Distinct)) and isinstance(b, (str, Cat, Sym, Distinct)) \
                    or isinstance(b, (str, Cat, Distinct)) and isinstance(a, (Cat, Sym, Distinct)):
                parts = []
                for x in (a, b):
                    parts.extend(x.parts if isinstance(x, Cat) else [x])
                parts = [x for x in parts if x != ""]
                if not parts:
                    return ""
                merged = []
                for x in parts:
                    if isinstance(x, str) and merged and isinstance(merged[-1], str):
                        merged[-1] += x
                    else:
                        merged.append(x)
                return merged[0] if len(merged) == 1 and isinstance(merged[0], str) else Cat(merged)
            if isinstance(a, (int, float)) and isinstance(b, (int, float)):
                return a + b
            if isinstance(a, list) and isinstance(b, list):
                return a + b
        if isinstance(op, ast.Sub) and isinstance(a, (int, float)) and isinstance(b, (int, float)):
            return a - b
        if isinstance(op, ast.Mult) and isinstance(a, (int, float)) and isinstance(b, (int, float)):
            return a * b
        if isinstance(op, ast.Mod) and isinstance(a, (int, float)) and isinstance(b, (int, float)) and not isinstance(a, bool) and b != 0:
            return a % b
        if isinstance(op, ast.FloorDiv) and type(a) is int and type(b) is int and b != 0:
            return a // b
        if isinstance(op, ast.Div) and type(a) in (int, float) and type(b) in (int, float):
            if b == 0:
                raise Raised("ZeroDivisionError")
            return a / b
        if isinstance(op, ast.Mult) and isinstance(a, str) and type(b) is int or isinstance(b, str) and type(a) is int:
            return a * b
        if isinstance(op, ast.Mod) and isinstance(a, str) and (isinstance(b, (str, int, float)) or isinstance(b, tuple)
                                                               and all(isinstance(x, (str, int, float)) for x in b)):
            try:
                return a % b
            except (TypeError, ValueError) as ex_:
                raise Raised(type(ex_).__name__)
        return Opaque("arith")

    def callexpr(self, e, env, f, depth):
        fn = e.func
        args = []
        for a in e.args:
            if isinstance(a, ast.Name) and a.id == "self" and "self" not in env and a is e.args[0]:
                args.append(_SELF)          # Class.method(self, ...) in a function interpreted over its field environment
                continue
            if isinstance(a, ast.Starred):
                sv_ = self.expr(a.value, env, f, depth)
                if not isinstance(sv_, (list, tuple)):
                    raise AnalysisError("*argument is not a concrete sequence (%s)" % f.loc(e))
                args.extend(sv_)
            else:
                args.append(self.expr(a, env, f, depth))
        kws = {}
        for k in e.keywords:
            kv_ = self.expr(k.value, env, f, depth)
            if k.arg is None:
                if not (isinstance(kv_, dict) and all(isinstance(x, str) for x in kv_)):
                    raise AnalysisError("**argument is not a concrete dictionary (%s)" % f.loc(e))
                kws.update(kv_)
            else:
                kws[k.arg] = kv_
        if any(isinstance(a, (OneShot, OneShotT)) for a in args):
            cs0 = self.ctx.r.site_of.get(id(e))
            pkg = cs0 is not None and cs0.targets and cs0.kind in ("func", "self", "static", "typed", "super", "slot", "ctor", "ctor_noinit", "local")
            if not pkg and not (isinstance(fn, ast.Name) and isinstance(env.get(fn.id), (tuple, Closure))):
                args = [_drained(a) for a in args]          # list(g), sorted(g), ", ".join(g), x.extend(g): the consumer uses it up
        if isinstance(fn, ast.Call) and isinstance(fn.func, ast.Name) and fn.func.id == "getattr" and len(fn.args) == 2 \
                and isinstance(fn.args[0], ast.Name) and fn.args[0].id == "self" and "self" not in env and f.cls is not None:
            nm_ = self.expr(fn.args[1], env, f, depth)
            m_ = f.cls.find_method(nm_) if isinstance(nm_, str) else None
            if m_ is None:
                raise AnalysisError("getattr(self, %r) does not name a method for the table extractor (%s)" % (nm_, f.loc(e)))
            selfenv = {k: x for k, x in env.items() if k.startswith("self.")}
            try:
                return self.call(m_, self._bind(m_, args, kws, m_.name), selfenv, depth + 1)
            finally:
                env.update(selfenv)
        if isinstance(fn, (ast.Subscript, ast.IfExp)) or (isinstance(fn, ast.Name) and fn.id in env):
            # a local variable (or a table entry: TABLE[key](...)) that holds a callable of the package: a function, a method
            # of the object, a bound method, a lambda
            v = env[fn.id] if isinstance(fn, ast.Name) else self.expr(fn, env, f, depth)
            if isinstance(v, tuple) and len(v) == 2 and v[0] == "selfmethod":
                selfenv = {k: x for k, x in env.items() if k.startswith("self.")}
                try:
                    return self.call(v[1], self._bind(v[1], args, kws, v[1].name), selfenv, depth + 1)
                finally:
                    env.update(selfenv)
            if isinstance(v, tuple) and len(v) == 3 and v[0] == "bound":
                return self.call(v[2], self._bind(v[2], args, kws, v[2].name), None, depth + 1, selfobj=(None if v[2].is_static else v[1]))
            if isinstance(v, tuple) and len(v) == 2 and v[0] == "func":
                return self.call(v[1], self._bind(v[1], args, kws, v[1].name), {}, depth + 1)
            if isinstance(v, Closure) and not kws:
                lam = v.node
                names = [a.arg for a in lam.args.args]
                if len(names) == len(args):
                    sub = dict(v.env)
                    sub.update(zip(names, args))
                    return self.expr(lam.body, sub, v.f, depth + 1)
        if isinstance(fn, ast.Name):
            if fn.id == "len" and args and isinstance(args[0], (list, tuple, str, dict, set)):
                return len(args[0])
            if fn.id == "len" and args and isinstance(args[0], AbsObj):
                return self.invoke(args[0], "__len__", [], {}, depth)
            if fn.id == "abs" and args and isinstance(args[0], (int, float)):
                return abs(args[0])
            if fn.id in ("max", "min") and len(args) >= 2 and all(type(a) in (int, float) for a in args) and not kws:
                return max(args) if fn.id == "max" else min(args)
            if fn.id in ("max", "min") and len(args) == 1 and isinstance(args[0], (list, tuple)) and args[0] \
                    and all(type(a) in (int, float) for a in args[0]) and not kws:
                return max(args[0]) if fn.id == "max" else min(args[0])
            if fn.id == "sum" and args and isinstance(args[0], (list, tuple)) and all(isinstance(x, (int, bool)) for x in args[0]):
                return sum(args[0])
            if fn.id in ("any", "all") and args and isinstance(args[0], (list, tuple)):
                vals = [self.truth(x, e) for x in args[0]]
                return any(vals) if fn.id == "any" else all(vals)
            if fn.id == "range" and args and all(isinstance(a, int) for a in args):
                return list(range(*args))
            if fn.id == "zip" and args and not kws and all(isinstance(a, (list, tuple, str)) for a in args):
                return [tuple(t) for t in zip(*args)]
            if fn.id == "enumerate" and len(args) == 1 and isinstance(args[0], str):
                return [(i, x) for i, x in enumerate(args[0])]
            if fn.id == "enumerate" and len(args) == 1 and isinstance(args[0], (list, tuple)):
                return [(i, x) for i, x in enumerate(args[0])]
            if fn.id == "open" and args and self.ctx.p.resolve_name(f.module, "open") is None:
                mode = args[1] if len(args) > 1 else kws.get("mode", "r")
                if not isinstance(mode, str):
                    raise AnalysisError("open() with a non-constant mode (%s)" % f.loc(e))
                key = freeze(args[0])
                self.opens.append((key, mode, f.loc(e)))
                if mode.startswith("w"):
                    self.files[key] = []
                else:
                    self.files.setdefault(key, [])
                return AbsFile(key, mode)
            if fn.id in ("list", "tuple") and args and isinstance(args[0], (list, tuple)):
                return list(args[0]) if fn.id == "list" else tuple(args[0])
            if fn.id in ("set", "list", "dict") and not args and not kws and self.ctx.p.resolve_name(f.module, fn.id) is None:
                return {"set": set, "list": list, "dict": dict}[fn.id]()
            if fn.id == "set" and len(args) == 1 and isinstance(args[0], (list, tuple, set)):
                return set(args[0])
            if fn.id == "next" and 1 <= len(args) <= 2 and isinstance(args[0], (list, tuple)) and not kws:
                # next(<generator expression>, default): the generator was evaluated eagerly (its elements have no effects)
                if args[0]:
                    return args[0][0]
                if len(args) == 2:
                    return args[1]
                raise Raised("StopIteration")
            if fn.id == "str" and args:
                a = args[0]
                if isinstance(a, AbsObj):
                    m_ = a.cls.find_method("__str__") or a.cls.find_method("__repr__")
                    if m_ is not None:
                        return self.call(m_, {}, None, depth + 1, selfobj=a)        # str(obj) is the object's own __str__
                return str(a) if isinstance(a, (int, float, str)) else Cat([a])
            if fn.id == "type" and args:
                a = args[0]
                if isinstance(a, Sym):
                    return a.kind
                if isinstance(a, (Opaque, Distinct, Cat)):
                    return str if isinstance(a, (Distinct, Cat)) else Opaque("type")
                return type(a)
            if fn.id == "int" and len(args) == 2 and isinstance(args[0], str) and type(args[1]) is int:
                try:
                    return int(args[0], args[1])
                except ValueError:
                    raise Raised("ValueError")
            if fn.id == "chr" and len(args) == 1 and type(args[0]) is int:
                try:
                    return chr(args[0])
                except (ValueError, OverflowError):
                    raise Raised("ValueError")
            if fn.id == "ord" and len(args) == 1 and isinstance(args[0], str) and len(args[0]) == 1:
                return ord(args[0])
            if fn.id in ("int", "float", "bool") and len(args) == 1 and isinstance(args[0], (int, float, bool, str)):
                try:
                    return {"int": int, "float": float, "bool": bool}[fn.id](args[0])
                except ValueError:
                    raise Raised("ValueError")
            if fn.id in ("int", "str", "float"):
                return {"int": int, "str": str, "float": float}[fn.id] if not args else Opaque(fn.id)
            if fn.id == "isinstance":
                if len(args) == 2:
                    _is_cls = lambda k: isinstance(k, tuple) and len(k) == 2 and k[0] == "class"
                    kinds = [args[1]] if _is_cls(args[1]) or not isinstance(args[1], (tuple, list)) else list(args[1])
                    v0 = args[0]
                    cname = v0.cls if isinstance(v0, AbsObj) else (self.ctx.p.find_class(v0[1]) if isinstance(v0, tuple) and len(v0) == 4
                                                                     and v0[0] == "new" and isinstance(v0[1], str) else None)
                    if cname is not None and all(isinstance(k, tuple) and len(k) == 2 and k[0] == "class" for k in kinds):
                        return any(k[1] in cname.mro() for k in kinds)          # an object of an interpreted class against package classes
                    if cname is not None and all(isinstance(k, type) for k in kinds):
                        return False
                    if type(v0) in (str, int, float, bool, list, dict, tuple, set) and not (isinstance(v0, tuple) and v0 and v0[0] in ("new", "class", "func", "bound"))  \
                            and all(isinstance(k, type) or (isinstance(k, tuple) and len(k) == 2 and k[0] == "class") for k in kinds):
                        return any(isinstance(k, type) and isinstance(v0, k) for k in kinds)
                return self.decide(e)
        if isinstance(fn, ast.Attribute):
            recv_name = fn.value.id if isinstance(fn.value, ast.Name) else ast.unparse(fn.value)
            # ---- receivers that are abstract objects of interpreted classes, and in-place sorting with a key
            rv0 = env.get(recv_name, UNKNOWN)
            if rv0 is UNKNOWN and (isinstance(env.get("self"), AbsObj) or not isinstance(fn.value, ast.Name)):
                try:
                    rv0 = self.expr(fn.value, env, f, depth)
                except (AnalysisError, Raised):
                    rv0 = UNKNOWN
            if isinstance(rv0, AbsObj):
                return self.invoke(rv0, fn.attr, args, kws, depth, e)
            if isinstance(rv0, dict) and (fn.attr + "()") in rv0 and callable(rv0[fn.attr + "()"]) and getattr(rv0[fn.attr + "()"], "wants_args", False):
                if fn.attr in self.watch:
                    self.effects.append((fn.attr,) + tuple(freeze(a) for a in args) + tuple(sorted((k, freeze(x)) for k, x in kws.items())))
                return rv0[fn.attr + "()"](rv0, args, kws)
            if recv_name not in env and type(rv0) is list and fn.attr in ("append", "extend", "insert", "remove", "clear", "pop", "index", "count") and not kws:
                try:
                    return getattr(rv0, fn.attr)(*args)
                except ValueError:
                    raise Raised("ValueError")
                except IndexError:
                    raise Raised("IndexError")
            if recv_name not in env and type(rv0) is set and fn.attr in ("add", "discard", "remove") and len(args) == 1:
                try:
                    return getattr(rv0, fn.attr)(args[0])
                except KeyError:
                    raise Raised("KeyError")
            if type(rv0) is list and fn.attr == "sort" and not args and set(kws) <= {"key", "reverse"}:
                keyf = kws.get("key")
                def _k(x):
                    if keyf is None:
                        return x
                    if not isinstance(keyf, Closure):
                        raise AnalysisError("sort key is not a lambda (%s)" % f.loc(e))
                    sub = dict(keyf.env)
                    sub[keyf.node.args.args[0].arg] = x
                    v = self.expr(keyf.node.body, sub, keyf.f, depth)
                    if not isinstance(v, (int, float, str)) or isinstance(v, bool):
                        raise AnalysisError("sort key is not a concrete number/string (%s)" % f.loc(e))
                    return v
                rv0.sort(key=_k, reverse=bool(kws.get("reverse", False)))
                return None
            if isinstance(env.get(recv_name), AbsFile):
                fh = env[recv_name]
                if fn.attr == "write" and len(args) == 1:
                    if not fh.mode.startswith(("w", "a")):
                        raise Raised("io.UnsupportedOperation")
                    self.files[fh.key].append(args[0])
                    return None
                if fn.attr == "writelines" and len(args) == 1 and isinstance(args[0], (list, tuple)):
                    self.files[fh.key].extend(args[0])
                    return None
                if fn.attr in ("close", "flush"):
                    return None
                if fn.attr == "read" and not args and not kws:
                    return "".join(self._file_lines(fh, f.loc(e)))
                if fn.attr == "readlines" and not args and not kws:
                    return self._file_lines(fh, f.loc(e))
                raise AnalysisError("file operation %s not modelled (%s)" % (fn.attr, f.loc(e)))
            if fn.attr == "from_iterable" and len(args) == 1 and isinstance(args[0], (list, tuple)) \
                    and all(isinstance(x, (list, tuple)) for x in args[0]):
                return [y for x in args[0] for y in x]          # itertools.chain.from_iterable over concrete sequences
            if fn.attr == "join" and len(args) == 1 and isinstance(args[0], (list, tuple)) and not kws:
                sep = self.expr(fn.value, env, f, depth)
                if isinstance(sep, str) and all(isinstance(x, (str, Cat, Distinct)) for x in args[0]):
                    acc = ""
                    for i, x in enumerate(args[0]):
                        if i and sep:
                            acc = self.binop(ast.Add(), acc, sep, e)
                        acc = self.binop(ast.Add(), acc, x, e)
                    return acc
            if recv_name in env and type(env[recv_name]) is dict and not any(isinstance(k, str) and k.endswith("()") for k in env[recv_name]) \
                    and fn.attr in ("get", "keys", "values", "items", "pop", "setdefault") \
                    and all(not isinstance(a, (Opaque, Sym)) for a in args):
                d = env[recv_name]
                try:
                    if fn.attr == "get" and 1 <= len(args) <= 2:
                        return d.get(*args)
                    if fn.attr == "keys" and not args:
                        return list(d.keys())
                    if fn.attr == "values" and not args:
                        return list(d.values())
                    if fn.attr == "items" and not args:
                        return [(k, v) for k, v in d.items()]
                    if fn.attr == "pop" and 1 <= len(args) <= 2:
                        return d.pop(*args)
                    if fn.attr == "setdefault" and len(args) == 2:
                        return d.setdefault(*args)
                except KeyError:
                    raise Raised("KeyError")
                except TypeError:
                    pass
            if recv_name in env and type(env[recv_name]) is set and fn.attr in ("add", "discard") and len(args) == 1:
                (env[recv_name].add if fn.attr == "add" else env[recv_name].discard)(args[0])
                if fn.attr in self.watch:
                    self.effects.append((fn.attr,) + tuple(freeze(a) for a in args))
                return None
            if recv_name in env and type(env[recv_name]) is list and fn.attr in ("clear", "copy") and not args:
                if fn.attr == "clear":
                    del env[recv_name][:]
                    return None
                return list(env[recv_name])
            if recv_name in env and isinstance(env[recv_name], dict) and (fn.attr + "()") in env[recv_name]:
                v = env[recv_name][fn.attr + "()"]
                if fn.attr in self.watch:
                    self.effects.append((fn.attr,) + tuple(freeze(a) for a in args) + tuple(sorted((k, freeze(x)) for k, x in kws.items())))
                if callable(v) and getattr(v, "wants_args", False):
                    return v(env[recv_name], args, kws)
                return v(env[recv_name]) if callable(v) else v
            if recv_name in env and hasattr(env[recv_name], "items_") and fn.attr == "get" and args and isinstance(args[0], int):
                return env[recv_name].items_[args[0]]
            if fn.attr in self.watch:
                self.effects.append((fn.attr,) + tuple(freeze(a) for a in args))
                return None
            if recv_name not in env and isinstance(fn.value, ast.Subscript):
                try:
                    rv = self.expr(fn.value, env, f, depth)
                except (AnalysisError, Raised):
                    rv = None
                if isinstance(rv, dict) and (fn.attr + "()") in rv:
                    if fn.attr in self.watch:
                        self.effects.append((fn.attr,) + tuple(freeze(a) for a in args))
                    v = rv[fn.attr + "()"]
                    return v(rv) if callable(v) else v
                if type(rv) is list and fn.attr in ("append", "extend", "insert", "remove", "clear") and not kws:
                    try:
                        getattr(rv, fn.attr)(*args)
                    except ValueError:
                        raise Raised("ValueError")
                    return None
                if type(rv) is set and fn.attr in ("add", "discard") and len(args) == 1:
                    getattr(rv, fn.attr)(args[0])
                    return None
            if recv_name in env and type(env[recv_name]) is list and fn.attr in ("append", "insert", "extend"):
                if fn.attr == "append":
                    env[recv_name].append(args[0])
                elif fn.attr == "insert":
                    env[recv_name].insert(args[0], args[1])
                else:
                    env[recv_name].extend(args[0])
                return None
        if isinstance(fn, ast.Name) and isinstance(env.get(fn.id), tuple) and len(env[fn.id]) == 2 and env[fn.id][0] == "class":
            c = env[fn.id][1]
            if c.name in self.ctor_hooks:
                return self.ctor_hooks[c.name](args, kws)
            if c.name in self.concrete_classes:
                obj = AbsObj(c)
                init = c.find_method("__init__")
                if init is not None:
                    self.call(init, self._bind(init, args, kws, c.name), None, depth + 1, selfobj=obj)
                return obj
            return ("new", c.name, tuple(freeze(a) for a in args), tuple(sorted((k, freeze(v)) for k, v in kws.items())))
        cs = self.ctx.r.site_of.get(id(e))
        if cs is not None and cs.targets and cs.kind in ("func", "self", "static", "typed") and any(t.name in self.stubs for t in cs.targets):
            import copy as _copy
            return _copy.deepcopy(self.stubs[[t.name for t in cs.targets if t.name in self.stubs][0]])
        if cs is not None and cs.targets and cs.kind in ("func", "self", "static", "typed") and any(t.name in self.symbolic for t in cs.targets):
            return ("call", cs.targets[0].name, tuple(freeze(a) for a in args), tuple(sorted((k, freeze(v)) for k, v in kws.items())))
        if cs is not None and cs.kind in ("self", "super") and isinstance(env.get("self"), AbsObj) and isinstance(fn, ast.Attribute) \
                and isinstance(fn.value, ast.Name) and fn.value.id == "self":
            return self.invoke(env["self"], fn.attr, args, kws, depth, e)
        if cs is not None and cs.kind == "super" and isinstance(env.get("self"), AbsObj) and len(cs.targets or []) == 1:
            t = cs.targets[0]
            return self.call(t, self._bind(t, args, kws, t.name), None, depth + 1, selfobj=env["self"])
        if cs is None and isinstance(fn, ast.Name) and fn.id not in env:
            # a call outside every function body (the value of a module constant): resolved by name in its module
            r_ = self.ctx.p.resolve_name(f.module, fn.id)
            if r_ is not None and r_[0] == "func" and not r_[1].vararg:
                t = r_[1]
                bound = dict(zip(t.bound_params, args))
                bound.update(kws)
                return self.call(t, bound, {}, depth + 1)
        if cs is not None and cs.targets and cs.kind == "static" and len(cs.targets) == 1 and args:
            from .resolve import is_unbound_method_call
            if is_unbound_method_call(e, cs.targets[0]):
                recv_, args = args[0], args[1:]
                t = cs.targets[0]
                if isinstance(recv_, AbsObj):
                    return self.call(t, self._bind(t, args, kws, t.name), None, depth + 1, selfobj=recv_)
                if recv_ is not _SELF and recv_ is not env.get("self"):
                    raise AnalysisError("unbound method call on a receiver the table does not model (%s)" % f.loc(e))
                selfenv = {k: v for k, v in env.items() if k.startswith("self.")}
                try:
                    return self.call(t, self._bind(t, args, kws, t.name), selfenv, depth + 1)
                finally:
                    env.update(selfenv)
        if cs is not None and cs.targets and cs.kind in ("func", "self", "static", "typed"):
            if len(cs.targets) != 1:
                raise AnalysisError("table extractor: call %s has several targets" % ast.unparse(e)[:50])
            t = cs.targets[0]
            params = t.bound_params
            bound = {}
            star = []
            for i, a in enumerate(args):
                if i < len(params):
                    bound[params[i]] = a
                else:
                    star.append(a)
            bound.update(kws)
            if t.vararg:
                bound["*"] = tuple(star)
            selfenv = {k: v for k, v in env.items() if k.startswith("self.")}
            if cs.kind == "self" and "self" in env and not isinstance(env["self"], AbsObj):
                selfenv["self"] = env["self"]          # the object itself, when the driver named it (passed on as a value)
            try:
                return self.call(t, bound, selfenv, depth + 1)
            finally:
                if isinstance(fn, ast.Attribute) and isinstance(fn.value, ast.Name) and fn.value.id == "self":
                    env.update(selfenv)        # the callee ran on the same object
        if isinstance(fn, ast.Attribute) and fn.attr in ("find", "rfind", "replace", "split", "strip", "rstrip", "lstrip", "lower", "upper",
                                                         "count", "index", "isnumeric", "isdigit", "isdecimal", "isalpha", "isalnum",
                                                         "isspace", "isupper", "islower", "title", "capitalize", "zfill", "rjust", "ljust",
                                                         "center", "partition", "rpartition", "rsplit", "splitlines", "removeprefix",
                                                         "removesuffix", "casefold", "swapcase", "format", "startswith", "endswith") \
                and all(isinstance(a, (str, int, float, bool)) or a is None or (isinstance(a, tuple) and all(isinstance(x, str) for x in a))
                        for a in list(args) + list(kws.values())) and (not kws or fn.attr == "format"):
            try:
                base = self.expr(fn.value, env, f, depth)
            except AnalysisError:
                base = None
            if isinstance(base, str):
                try:
                    out_ = getattr(base, fn.attr)(*args, **kws)      # builtin string operation on constants
                except ValueError:
                    raise Raised("ValueError")
                except (IndexError, KeyError) as ex_:
                    raise Raised(type(ex_).__name__)
                except TypeError:
                    raise Raised("TypeError")
                return list(out_) if fn.attr in ("partition", "rpartition") and False else out_
        if isinstance(fn, ast.Attribute) and fn.attr == "finditer" and args and all(isinstance(a, (str, int)) for a in args) and not kws:
            try:
                rx = self.expr(fn.value, env, f, depth)
            except AnalysisError:
                rx = None
            if isinstance(rx, tuple) and len(rx) == 2 and rx[0] == "re" and isinstance(rx[1], str):
                import re as _re
                return [{"start()": m.start(), "end()": m.end(), "group()": m.group()} for m in _re.compile(rx[1]).finditer(*args)]
        if isinstance(fn, ast.Attribute) and fn.attr == "sub" and len(args) >= 2 and isinstance(args[0], Closure) and isinstance(args[1], str) and not kws:
            try:
                rx = self.expr(fn.value, env, f, depth)
            except AnalysisError:
                rx = None
            if isinstance(rx, tuple) and len(rx) == 2 and rx[0] == "re" and isinstance(rx[1], str):
                import re as _re
                clo = args[0]

                def _repl(m):
                    def grp(rec, a, k):
                        return m.group(*a)
                    grp.wants_args = True
                    sub = dict(clo.env)
                    sub[clo.node.args.args[0].arg] = {"group()": grp, "start()": m.start(), "end()": m.end()}
                    v = self.expr(clo.node.body, sub, clo.f, depth)
                    if not isinstance(v, str):
                        raise AnalysisError("regex replacement function does not evaluate to a string (%s)" % f.loc(e))
                    return v
                return _re.compile(rx[1]).sub(_repl, *args[1:])
        if isinstance(fn, ast.Attribute) and fn.attr in ("sub", "split", "findall") and args and all(isinstance(a, (str, int)) for a in args) and not kws:
            try:
                rx = self.expr(fn.value, env, f, depth)
            except AnalysisError:
                rx = None
            if isinstance(rx, tuple) and len(rx) == 2 and rx[0] == "re" and isinstance(rx[1], str):
                import re as _re
                return getattr(_re.compile(rx[1]), fn.attr)(*args)
        if isinstance(fn, ast.Attribute) and fn.attr in ("search", "match", "fullmatch") and args and isinstance(args[0], str) \
                and all(type(a) is int for a in args[1:]):
            rx = self.expr(fn.value, env, f, depth)
            if isinstance(rx, tuple) and len(rx) == 2 and rx[0] == "re" and isinstance(rx[1], str):
                import re as _re
                m = getattr(_re.compile(rx[1]), fn.attr)(*args)
                return None if m is None else {"start()": m.start(), "end()": m.end(), "group()": m.group()}
        if isinstance(fn, ast.Attribute) and fn.attr == "format":
            # "a{}b{name}".format(x, name=y) with abstract string arguments: the concatenation of the pieces
            try:
                tmpl = self.expr(fn.value, env, f, depth)
            except AnalysisError:
                tmpl = None
            if isinstance(tmpl, str):
                import string as _string
                acc, auto, good = "", 0, True
                try:
                    fields = list(_string.Formatter().parse(tmpl))
                except ValueError:
                    fields, good = [], False
                for lit_, name_, spec_, conv_ in fields:
                    if lit_:
                        acc = self.binop(ast.Add(), acc, lit_, e) if acc != "" else lit_
                    if name_ is None:
                        continue
                    if name_ == "":
                        key_, auto = auto, auto + 1
                    elif name_.isdigit():
                        key_ = int(name_)
                    else:
                        key_ = name_
                    if isinstance(key_, int) and key_ < len(args):
                        v = args[key_]
                    elif isinstance(key_, str) and key_ in kws:
                        v = kws[key_]
                    else:
                        good = False
                        break
                    if spec_ or conv_ not in (None, "s"):
                        if isinstance(v, (str, int, float, bool)) or v is None:
                            v = format({"r": repr, "a": ascii}.get(conv_, lambda z: z)(v), spec_ or "")
                        else:
                            good = False
                            break
                    elif isinstance(v, (int, float, bool)) or v is None:
                        v = str(v)
                    elif not isinstance(v, (str, Cat, Sym, Distinct)):
                        good = False
                        break
                    acc = self.binop(ast.Add(), acc, v, e) if acc != "" else (Cat([v]) if isinstance(v, (Sym, Distinct)) else v)
                if good and not isinstance(acc, Opaque):
                    return acc
            return Opaque("str")
        if isinstance(fn, ast.Attribute) and fn.attr in ("join", "upper", "lower", "strip"):
            return Opaque("str")
        if isinstance(fn, ast.Attribute) and fn.attr in ("startswith", "endswith") and args:
            base = self.expr(fn.value, env, f, depth)
            if isinstance(base, str) and isinstance(args[0], str):
                return base.startswith(args[0]) if fn.attr == "startswith" else base.endswith(args[0])
            return self.decide(e)
        if cs is not None and cs.kind == "ext" and isinstance(fn, ast.Name) and fn.id == "islice" and not kws and 2 <= len(args) <= 4 \
                and isinstance(args[0], (list, tuple)) and all(a is None or type(a) is int for a in args[1:]):
            import itertools as _it
            return list(_it.islice(args[0], *args[1:]))
        if cs is not None and cs.kind == "ext" and isinstance(fn, ast.Name):
            if len(args) == 1 and not kws:
                return (fn.id, freeze(args[0]))
            return ("call", fn.id, tuple(freeze(a) for a in args), tuple(sorted((k, freeze(v)) for k, v in kws.items())))
        if cs is not None and cs.kind in ("ctor", "ctor_noinit"):
            cname = cs.recv_types.name if cs.kind == "ctor" else cs.recv_types[0].name
            if cname in self.ctor_hooks:
                return self.ctor_hooks[cname](args, kws)
            if cname in self.concrete_classes:
                c = cs.recv_types if cs.kind == "ctor" else cs.recv_types[0]
                obj = AbsObj(c)
                init = c.find_method("__init__")
                if init is not None:
                    self.call(init, self._bind(init, args, kws, cname), None, depth + 1, selfobj=obj)
                return obj
            return ("new", cname, tuple(freeze(a) for a in args), tuple(sorted((k, freeze(v)) for k, v in kws.items())))
        if isinstance(fn, ast.Attribute):
            # a method of a concrete container / string that the extractor has no model for must not be skipped silently
            # (an unmodelled `.update()` would leave the table with the old content and a wrong verdict)
            try:
                rv_ = self.expr(fn.value, env, f, depth)
            except (AnalysisError, Raised, Fork):
                rv_ = None
            if type(rv_) in (set, frozenset) and fn.attr in ("update", "union", "intersection", "difference", "copy", "issubset", "issuperset",
                                                              "isdisjoint", "clear", "pop", "remove", "discard", "add") \
                    and all(isinstance(a, (set, frozenset, list, tuple, dict, str)) or fn.attr in ("remove", "discard", "add") for a in args) and not kws:
                try:
                    out_ = getattr(rv_, fn.attr)(*[set(a) if isinstance(a, (list, tuple)) and fn.attr not in ("update",) else a for a in args])
                except KeyError:
                    raise Raised("KeyError")
                return out_
            if type(rv_) is dict and fn.attr in ("update", "copy", "clear", "popitem") and not kws and all(isinstance(a, dict) for a in args):
                return getattr(rv_, fn.attr)(*args)
            if type(rv_) is dict and fn.attr in ("pop", "get", "setdefault") and 1 <= len(args) <= 2 and not kws \
                    and not isinstance(args[0], (Opaque, Sym)):
                try:
                    return getattr(rv_, fn.attr)(*args)
                except KeyError:
                    raise Raised("KeyError")
                except TypeError:
                    raise Raised("TypeError")
            if type(rv_) is dict and fn.attr in ("keys", "values", "items") and not args and not kws:
                return list(getattr(rv_, fn.attr)())
            if type(rv_) is list and fn.attr in ("copy", "reverse", "count", "index") and not kws:
                try:
                    return getattr(rv_, fn.attr)(*args)
                except ValueError:
                    raise Raised("ValueError")
            if type(rv_) in (set, frozenset, dict, list, str):
                raise AnalysisError("method .%s() of a concrete %s is not modelled by the table extractor (%s)" % (
                    fn.attr, type(rv_).__name__, f.loc(e)))
        if cs is not None and cs.kind in ("ext", "builtin", "byname", "unresolved"):
            return Opaque("call")
        raise AnalysisError("call %s not supported by the table extractor (%s)" % (ast.unparse(e)[:40], f.loc(e)))


def freeze(v):
    if isinstance(v, list):
        return tuple(freeze(x) for x in v)
    if isinstance(v, tuple):
        return tuple(freeze(x) for x in v)
    if isinstance(v, dict):
        return tuple(sorted((repr(k), freeze(x)) for k, x in v.items()))
    return v
