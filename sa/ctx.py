"""Shared analysis context: the parsed program plus lazily built analyses."""
from .core import Program, AnalysisError
from .resolve import Resolver
from .report import Floor

# confirmed on the pinned tree (143 modules / 750 functions / 86 classes / 1726 call sites);
# the floors leave room for ordinary refactoring but catch a tree that was not parsed.
FLOOR_MODULES, FLOOR_FUNCS, FLOOR_CLASSES, FLOOR_CALLS = 120, 600, 70, 1400


class Ctx:
    def __init__(self, repo=None):
        self.p = Program(repo)
        self.r = Resolver(self.p)
        if not self.r.converged:
            raise AnalysisError("parameter-type fixpoint did not converge")
        self._flow = None
        self.deferred = []      # AnalysisErrors of single rules: reported after the other rules had their say

    @property
    def ref(self):
        """The same model built on the reference tree (/verif/reference: the sources on which the rule instances were
        confirmed), or None.  A rule may ask it what the confirmed instance looked like - e.g. under which conditions a loop
        accumulated - and report what the tree under analysis adds to that; it never replaces the analysis of the current tree."""
        if not hasattr(self, "_ref"):
            import os
            from . import unrename
            self._ref = None
            if os.path.isdir(os.path.join(unrename.REFERENCE, "shexer")) and os.path.realpath(unrename.REFERENCE) != os.path.realpath(self.p.repo):
                try:
                    self._ref = Ctx(unrename.REFERENCE)
                except AnalysisError:
                    self._ref = None
        return self._ref

    def attempt(self, fn, *args, default=None, **kw):
        """Run one rule; a vanished anchor breaks that rule only.  The run still ends as analysis-broken
        (exit 2) unless another rule found a violation, which is reported first (exit 1)."""
        try:
            return fn(*args, **kw)
        except AnalysisError as e:
            self.deferred.append(str(e))
            return default

    @property
    def flow(self):
        if self._flow is None:
            from .flow import FlowGraph
            self._flow = FlowGraph(self.p, self.r)
        return self._flow

    def floors(self):
        t = self.p.totals()
        st = self.r.stats()
        return [Floor("modules parsed", t["modules"], FLOOR_MODULES), Floor("functions", t["functions"], FLOOR_FUNCS),
                Floor("classes", t["classes"], FLOOR_CLASSES), Floor("call sites", t["call_sites"], FLOOR_CALLS),
                Floor("intra-package calls resolved", st["intra_package_resolved"], 850),
                Floor("API-reachable functions", st["reachable_functions"], 500)]

    def reachable(self, f):
        return self.r.is_reachable(f)
