"""R-ENUM: accepted  is a subset of  handled, by finite-domain propagation.

A validated configuration enum (input_format, compression_mode, examples_mode,
output_format) has the finite domain its validation site accepts.  The value is
followed along copy edges of the value-flow graph; inside every function that
sees it, a syntax-directed walk restricts the domain along `==`, `!=`, `in`,
`not in`, `is None` tests (if/elif/else chains, conditional expressions, guard
clauses) and carries the restricted domain into callees.  Obligation: no `raise`
is reachable with a non-empty restricted domain, i.e. no accepted value is
dispatched into a rejection."""
import ast
from ..core import walk_own, norm, is_self_attr, AnalysisError, Unfoldable
from ..report import Ob


def accepted_set(ctx, funcqual, param):
    """The list in `if <param> not in [..]: raise` of a validation function."""
    f = ctx.p.func(funcqual)

    def notin(t):
        return isinstance(t, ast.Compare) and len(t.ops) == 1 and isinstance(t.ops[0], ast.NotIn) and isinstance(t.left, ast.Name) \
            and t.left.id == param

    def notnone(t):
        return isinstance(t, ast.Compare) and len(t.ops) == 1 and isinstance(t.ops[0], (ast.IsNot, ast.NotEq)) and isinstance(t.left, ast.Name) \
            and t.left.id == param and isinstance(t.comparators[0], ast.Constant) and t.comparators[0].value is None

    for n in walk_own(f.node):
        if not (isinstance(n, ast.If) and any(isinstance(s, ast.Raise) for s in n.body)):
            continue
        t = n.test
        extra = set()
        if isinstance(t, ast.BoolOp) and isinstance(t.op, ast.And) and sum(1 for v in t.values if notin(v)) == 1 \
                and all(notin(v) or notnone(v) for v in t.values):
            extra = {None}                    # `p is not None and p not in X`: None is accepted as well
            t = [v for v in t.values if notin(v)][0]
        if notin(t):
            try:
                return frozenset(ctx.p.fold(f.module, t.comparators[0])) | extra, n
            except Unfoldable as e:
                raise AnalysisError("validation list in %s does not fold: %s" % (funcqual, e))
    raise AnalysisError("validation idiom `if %s not in [...]: raise` not found in %s" % (param, funcqual))


class EnumDomain:
    def __init__(self, ctx, name, src_func, src_param, domain, skip_funcs=()):
        self.ctx, self.name = ctx, name
        self.g = ctx.flow
        self.domain = frozenset(domain)
        self.skip = set(skip_funcs)
        src = self.g.param(src_func, src_param)
        self.V = self.g.flows([src], labels=("copy",))
        self.entry = {}          # (funcqual, key) -> set
        self.raises = {}         # (funcqual, raise key) -> (node, func, set of values)
        self.dispatch_sites = 0
        self.funcs = {}
        for n in self.V:
            if n[0] == "v":
                q = n[1][:-7] if n[1].endswith(".setter") else n[1]
                if q in ctx.p.funcs:
                    self.funcs.setdefault(q, set()).add(n[2])
        self.fields = {(n[1], n[2]) for n in self.V if n[0] == "f"}
        # functions that read a tainted field
        for e, f in self.g.tainted_exprs(self.V):
            self.funcs.setdefault(f.qual, set())
        self.entry[(src_func, src_param)] = set(self.domain)
        self._run()

    def key_of(self, e, f):
        if isinstance(e, ast.Name) and self.g.var(f, e.id) in self.V:
            return e.id
        if isinstance(e, ast.Attribute) and ("e", id(e)) in self.V and isinstance(e.value, ast.Name):
            return e.value.id + "." + e.attr
        return None

    def _run(self):
        for _ in range(10):
            self.changed = False
            for q in sorted(self.funcs):
                f = self.ctx.p.funcs[q]
                if q in self.skip:
                    continue
                env = {}
                for (fq, k), d in self.entry.items():
                    if fq == q:
                        env[k] = set(d)
                self._entry_env = dict(env)
                self._block(f.node.body, env, f, restricted=frozenset())
            if not self.changed:
                break

    def dom(self, key, env):
        return env.get(key, set(self.domain)) if key is not None else None

    # ------------------------------------------------------------- conditions
    def split(self, test, env, f):
        """-> (env_true, env_false, keys restricted)"""
        t, fl = dict(env), dict(env)
        keys = set()
        if isinstance(test, ast.UnaryOp) and isinstance(test.op, ast.Not):
            a, b, k = self.split(test.operand, env, f)
            return b, a, k
        if isinstance(test, ast.BoolOp):
            if isinstance(test.op, ast.And):
                cur = dict(env)
                fl_any = None
                for v in test.values:
                    a, b, k = self.split(v, cur, f)
                    keys |= k
                    cur = a
                return cur, dict(env), keys
            else:
                cur = dict(env)
                for v in test.values:
                    a, b, k = self.split(v, cur, f)
                    keys |= k
                    cur = b
                return dict(env), cur, keys
        if isinstance(test, ast.Compare) and len(test.ops) == 1:
            key = self.key_of(test.left, f)
            if key is not None:
                op = test.ops[0]
                try:
                    val = self.ctx.p.fold(f.module, test.comparators[0])
                except Unfoldable:
                    return t, fl, keys
                d = self.dom(key, env)
                if isinstance(op, (ast.Eq, ast.Is)):
                    vs = {val}
                elif isinstance(op, (ast.NotEq, ast.IsNot)):
                    vs = d - {val}
                elif isinstance(op, ast.In) and isinstance(val, (list, tuple, frozenset)):
                    vs = set(val)
                elif isinstance(op, ast.NotIn) and isinstance(val, (list, tuple, frozenset)):
                    vs = d - set(val)
                else:
                    return t, fl, keys
                t[key] = d & vs
                fl[key] = d - vs
                keys.add(key)
                self.dispatch_sites += 1
                return t, fl, keys
        key = self.key_of(test, f)
        if key is not None:      # truthiness: None is falsy, the string constants are truthy
            d = self.dom(key, env)
            t[key] = {v for v in d if v}
            fl[key] = {v for v in d if not v}
            keys.add(key)
        return t, fl, keys

    # -------------------------------------------------------------- traversal
    def _calls_in(self, node, env, f):
        for n in ast.walk(node):
            if isinstance(n, ast.IfExp):
                continue
            if isinstance(n, ast.Call):
                cs = self.ctx.r.site_of.get(id(n))
                if cs is None or not cs.targets:
                    continue
                from ..resolve import bind_args
                for t in cs.targets:
                    if t.qual in self.skip:
                        continue
                    b = bind_args(n, t)
                    for pname, arg in b["bound"].items():
                        if not isinstance(arg, ast.AST):
                            continue
                        k = self.key_of(arg, f)
                        if k is not None and self.g.var(t, pname) in self.V:
                            self._merge((t.qual, pname), self.dom(k, env))
                    # restricted fields travel with self into methods of the same object
                    if isinstance(n.func, ast.Attribute) and isinstance(n.func.value, ast.Name) \
                            and n.func.value.id == "self" and t.cls is not None:
                        for k, d in env.items():
                            if k.startswith("self."):
                                self._merge((t.qual, k), d)

    def _merge(self, ek, d):
        cur = self.entry.get(ek)
        if cur is None:
            self.entry[ek] = set(d)
            self.changed = True
        elif not set(d) <= cur:
            cur |= set(d)
            self.changed = True

    def _expr(self, e, env, f, restricted):
        if e is None:
            return
        for n in ast.walk(e):
            if isinstance(n, ast.IfExp):
                a, b, k = self.split(n.test, env, f)
                self._expr(n.body, a, f, restricted | frozenset(k))
                self._expr(n.orelse, b, f, restricted | frozenset(k))
        self._calls_in(e, env, f)

    def _block(self, stmts, env, f, restricted):
        """Returns the environment after the block, or None when every path exits."""
        for st in stmts:
            env = self._stmt(st, env, f, restricted)
            if env is None:
                return None
        return env

    def _join(self, a, b):
        if a is None:
            return b
        if b is None:
            return a
        out = {}
        for k in set(a) | set(b):
            out[k] = set(a.get(k, self.domain)) | set(b.get(k, self.domain))
        return out

    def _stmt(self, st, env, f, restricted):
        if isinstance(st, ast.If):
            self._expr(st.test, env, f, restricted)
            a, b, k = self.split(st.test, env, f)
            r2 = restricted | frozenset(k)
            dead_a = any(not a.get(x, self.domain) for x in k)
            dead_b = any(not b.get(x, self.domain) for x in k)
            ea = None if dead_a else self._block(st.body, a, f, r2)
            eb = None if dead_b else self._block(st.orelse, b, f, r2)
            for dead, branch in ((dead_a, st.body), (dead_b, st.orelse)):
                if dead:
                    for s2 in branch:
                        for n2 in ast.walk(s2):
                            if isinstance(n2, ast.Raise):
                                self.raises.setdefault((f.qual, norm(n2)[:80]), (n2, f, {x: [] for x in k}))
            if dead_a and dead_b:
                return None
            out = self._join(ea, eb)
            return out
        if isinstance(st, ast.Raise):
            self._expr(st.exc, env, f, restricted)
            if restricted:
                vals = {k: sorted(map(repr, env.get(k, self.domain))) for k in restricted}
                rk = (f.qual, norm(st)[:80])
                prev = self.raises.get(rk)
                merged = {k: sorted(set(v) | set((prev[2].get(k, []) if prev else []))) for k, v in vals.items()}
                self.raises[rk] = (st, f, merged)
            return None
        if isinstance(st, ast.Return):
            self._expr(st.value, env, f, restricted)
            return None
        if isinstance(st, (ast.For, ast.While)):
            if isinstance(st, ast.For):
                self._expr(st.iter, env, f, restricted)
            else:
                self._expr(st.test, env, f, restricted)
            self._block(st.body, dict(env), f, restricted)
            self._block(st.orelse, dict(env), f, restricted)
            return env
        if isinstance(st, ast.Try):
            a = self._block(st.body, dict(env), f, restricted)
            for h in st.handlers:
                a = self._join(a, self._block(h.body, dict(env), f, restricted))
            if st.finalbody:
                self._block(st.finalbody, dict(env), f, restricted)
            return a if a is not None else env
        if isinstance(st, ast.With):
            for it in st.items:
                self._expr(it.context_expr, env, f, restricted)
            return self._block(st.body, env, f, restricted)
        if isinstance(st, ast.Assign):
            self._expr(st.value, env, f, restricted)
            k = self.key_of(st.value, f)
            for t in st.targets:
                tk = None
                if isinstance(t, ast.Name) and self.g.var(f, t.id) in self.V:
                    tk = t.id
                elif is_self_attr(t):
                    tk = "self." + t.attr
                if tk is not None and k is not None:
                    env = dict(env)
                    env[tk] = set(self.dom(k, env))
            return env
        for n in ast.iter_child_nodes(st):
            if isinstance(n, ast.expr):
                self._expr(n, env, f, restricted)
        return env

    # ---------------------------------------------------------------- report
    def obligations(self, clause, exceptions=None):
        obs = []
        for (fq, rk), (st, f, vals) in sorted(self.raises.items()):
            live = {k: v for k, v in vals.items() if v}
            ok = not live
            key = "R-ENUM|%s|%s|%s" % (self.name, f.short, rk)
            msg = ("raise is unreachable for every accepted %s" % self.name) if ok else \
                "accepted %s value(s) %s are dispatched into `%s`" % (
                    self.name, ", ".join("%s in {%s}" % (k, ",".join(v)) for k, v in sorted(live.items())), rk)
            obs.append(Ob(clause, "R-ENUM", key, f.loc(st), ok, msg, detail={"values": vals},
                          note=not self.ctx.reachable(f)))
        return obs
