"""R-DET: nondeterminism sources and where their order/value can escape.

Sources: values constructed as set/frozenset (literal, comprehension, set(...), set algebra results);
random.*; hash(); id(); clock; directory listings.  A set is harmless while it is only used for
membership / add / len / set algebra, when it is wrapped in sorted(), or when it is iterated by a
loop whose body has only commutative effects (deletes, set adds).  Any other iteration,
list()/tuple()/join()/pop()/next(iter()) of an alias of the set is an order escape."""
import ast
from ..core import walk_own, norm, parent_map
from ..report import Ob

SET_ALGEBRA = {"difference", "union", "intersection", "symmetric_difference", "copy"}
ORDER_CALLS = {"list", "tuple", "enumerate", "iter", "next", "zip", "reversed", "min", "max"}


def set_sources(ctx):
    g, r = ctx.flow, ctx.r
    out = []
    for k, (e, f) in g.expr_index.items():
        if isinstance(e, (ast.Set, ast.SetComp)):
            out.append((e, f))
        elif isinstance(e, ast.Call):
            if isinstance(e.func, ast.Name) and e.func.id in ("set", "frozenset") and r._is_builtin(e.func.id, f):
                out.append((e, f))
            elif isinstance(e.func, ast.Attribute) and e.func.attr in SET_ALGEBRA and ("set",) in r.type_of(e.func.value, f):
                out.append((e, f))
        elif isinstance(e, ast.BinOp) and isinstance(e.op, (ast.Sub, ast.BitOr, ast.BitAnd, ast.BitXor)):
            # set algebra by operator; a dictionary view (d.keys() - s, d.items() & t) gives a set as well
            def _setlike(x):
                if isinstance(x, ast.Call) and isinstance(x.func, ast.Attribute) and x.func.attr in ("keys", "items") and not x.args:
                    return True
                try:
                    return ("set",) in r.type_of(x, f)
                except Exception:
                    return False
            if _setlike(e.left) or _setlike(e.right):
                out.append((e, f))
    return out


def _commutative_body(stmts):
    for st in stmts:
        if isinstance(st, ast.Delete):
            continue
        if isinstance(st, ast.Expr) and isinstance(st.value, ast.Call) and isinstance(st.value.func, ast.Attribute) \
                and st.value.func.attr in ("add", "discard"):
            continue
        # d.pop(k, None) as a statement is `del d[k]` for a key that may be absent: a deletion, commutative
        if isinstance(st, ast.Expr) and isinstance(st.value, ast.Call) and isinstance(st.value.func, ast.Attribute) \
                and st.value.func.attr == "pop" and len(st.value.args) == 2:
            continue
        if isinstance(st, ast.If) and _commutative_body(st.body) and _commutative_body(st.orelse):
            continue
        if isinstance(st, ast.For) and _commutative_body(st.body) and not st.orelse:
            continue
        if isinstance(st, ast.Pass):
            continue
        return False
    return True


def order_escapes(ctx, src_expr, src_func):
    """Order-sensitive uses of aliases of the set constructed at src_expr."""
    g = ctx.flow
    T = g.flows([g.enode(src_expr)], labels=("copy",))
    out = []
    for k, (e, f) in g.expr_index.items():
        if ("e", k) not in T:
            continue
        pm = getattr(f, "_pm", None)
        if pm is None:
            pm = f._pm = parent_map(f.node)
        par = pm.get(e)
        if isinstance(par, ast.For) and par.iter is e:
            if not _commutative_body(par.body):
                out.append((e, f, "iterated by a loop whose body is order-sensitive"))
        elif isinstance(par, ast.comprehension) and par.iter is e:
            comp = pm.get(par)
            if not isinstance(comp, ast.SetComp) and not (isinstance(pm.get(comp), ast.Call) and isinstance(pm.get(comp).func, ast.Name)
                                                         and pm.get(comp).func.id in ("sorted", "set", "sum", "len", "any", "all")):
                out.append((e, f, "iterated by a comprehension that builds an ordered value"))
        elif isinstance(par, ast.Call) and e in par.args:
            name = par.func.id if isinstance(par.func, ast.Name) else (par.func.attr if isinstance(par.func, ast.Attribute) else None)
            if name in ORDER_CALLS or name == "join":
                out.append((e, f, "passed to %s()" % name))
            elif name in ("extend", "writelines", "from_iterable") or (name == "update" and False):
                out.append((e, f, "consumed in iteration order by .%s()" % name))
        elif isinstance(par, ast.Attribute) and par.value is e and par.attr == "pop":
            out.append((e, f, ".pop() of a set"))
        elif isinstance(par, ast.Starred):
            out.append((e, f, "unpacked"))
        elif isinstance(par, ast.BinOp) and isinstance(par.op, ast.Add):
            out.append((e, f, "concatenated"))
        elif isinstance(par, ast.AugAssign) and par.value is e and isinstance(par.op, ast.Add):
            out.append((e, f, "appended with += (iteration order)"))
        elif isinstance(par, (ast.Yield, ast.YieldFrom)) and isinstance(par, ast.YieldFrom):
            out.append((e, f, "yield from a set"))
    return out


def check_sets(ctx, clause):
    obs, n = [], 0
    for e, f in set_sources(ctx):
        n += 1
        esc = order_escapes(ctx, e, f)
        key = "R-DET|set|%s|%s" % (f.short, f.key(e)[:50])
        if esc:
            ue, uf, how = esc[0]
            reach = ctx.reachable(f) and any(ctx.reachable(x[1]) for x in esc)
            obs.append(Ob(clause, "R-DET", key, f.loc(e), False,
                          "the set built at `%s` in %s is %s at %s (`%s`): its hash-dependent order can reach the result" % (
                              norm(e)[:40], f.short, how, uf.loc(ue), norm(ue)[:40]), note=not reach))
        else:
            obs.append(Ob(clause, "R-DET", key, f.loc(e), True,
                          "set is used for membership / commutative updates only"))
    return obs, n


NONDET_NAMES = {"random", "uuid", "time", "datetime", "secrets"}


def check_other_sources(ctx, clause):
    """random / clock / hash / id / directory listings in API-reachable code."""
    obs, n = [], 0
    g, p = ctx.flow, ctx.p
    api_returns = {g.ret(p.func("shexer.shaper:Shaper.shex_graph")), g.ret(p.func("shexer.shaper:Shaper.profile_graph"))}
    for e, f in g.calls:
        name = None
        if isinstance(e.func, ast.Attribute) and isinstance(e.func.value, ast.Name):
            r = p.resolve_name(f.module, e.func.value.id)
            if r and r[0] == "ext" and r[1].split(".")[0] in NONDET_NAMES:
                name = r[1] + "." + e.func.attr
            elif e.func.value.id == "os" and e.func.attr in ("listdir", "scandir", "walk", "urandom", "getpid"):
                name = "os." + e.func.attr
        elif isinstance(e.func, ast.Name):
            r = p.resolve_name(f.module, e.func.id)
            if r and r[0] == "ext" and r[1].split(".")[0] in NONDET_NAMES | {"glob"}:
                name = r[1]
            elif r is None and e.func.id in ("hash", "id") and ctx.r._is_builtin(e.func.id, f):
                name = e.func.id
        if name is None:
            continue
        n += 1
        T = g.flows([g.enode(e)])
        to_api = bool(T & api_returns)
        writes = [(x, xf) for x, xf in g.calls if isinstance(x.func, ast.Attribute) and x.func.attr in ("write", "writelines")
                  and any(g.expr_tainted(a, T) for a in x.args)]
        key = "R-DET|source|%s|%s" % (f.short, name)
        bad = to_api or bool(writes)
        if bad and name.startswith("random"):
            ok, why = random_is_last_resort(ctx, f, e)
            obs.append(Ob(clause, "R-DET", key, f.loc(e), ok, why, note=not ctx.reachable(f)))
        else:
            obs.append(Ob(clause, "R-DET", key, f.loc(e), not bad,
                          "%s in %s never reaches a result or a written file" % (name, f.short) if not bad else
                          "%s in %s flows into the %s" % (name, f.short, "result of the API" if to_api else "written output"),
                          note=not ctx.reachable(f)))
    return obs, n


def random_is_last_resort(ctx, f, call):
    """The property grants randomness only when all four default shape prefixes are taken: every path to the
    random generator must first fall through `for p in <the 4-entry priority list>: if p not in taken: return p`."""
    p, r = ctx.p, ctx.r
    # climb to the callers until we find the function that holds the priority loop
    todo, seen = [f], set()
    while todo:
        cur = todo.pop()
        if cur.qual in seen:
            continue
        seen.add(cur.qual)
        loops = [x for x in cur.node.body if isinstance(x, ast.For)]
        for lp in loops:
            try:
                lst = p.fold(cur.module, lp.iter)
            except Exception:
                continue
            if isinstance(lst, list) and len(lp.body) == 1 and isinstance(lp.body[0], ast.If) and not lp.body[0].orelse \
                    and len(lp.body[0].body) == 1 and isinstance(lp.body[0].body[0], ast.Return) \
                    and isinstance(lp.body[0].test, ast.Compare) and isinstance(lp.body[0].test.ops[0], ast.NotIn) \
                    and isinstance(lp.target, ast.Name) and isinstance(lp.body[0].test.left, ast.Name) \
                    and lp.body[0].test.left.id == lp.target.id and isinstance(lp.body[0].body[0].value, ast.Name) \
                    and lp.body[0].body[0].value.id == lp.target.id:
                # the random call (or the call leading to it) must come after the loop in the same body
                idx = cur.node.body.index(lp)
                after = any(any(n is call or (isinstance(n, ast.Call) and (cs := r.site_of.get(id(n))) is not None
                                              and any(t.qual in seen for t in cs.targets)) for n in ast.walk(st))
                            for st in cur.node.body[idx + 1:])
                before = any(any(isinstance(n, ast.Call) and (cs := r.site_of.get(id(n))) is not None
                                 and any(t.qual in seen for t in cs.targets) or n is call for n in ast.walk(st))
                             for st in cur.node.body[:idx])
                want = ["", "weso-s", "shapes", "w-shapes"]
                if after and not before and lst == want:
                    return True, "randomness only after all %d default shape prefixes %s were found taken" % (len(lst), lst)
                if after and not before:
                    return False, "the priority list is %s, expected the four documented defaults %s" % (lst, want)
        for cs in r.callers_of.get(cur.qual, []):
            todo.append(cs.func)
    return False, "random value reaches the output without first exhausting the four default shape prefixes " \
                  "(for p in _PRIORITY_PREFIXES_FOR_SHAPES: if p not in taken: return p)"


RDFLIB_ORDERED_BY_HASH = {"triples", "query", "subjects", "objects", "predicates", "subject_objects", "subject_predicates",
                          "predicate_objects", "triples_choices"}


def rdflib_iteration(ctx, clause):
    """rdflib's in-memory store (6.x) keeps the triples of a graph in hash-ordered containers: iterating a Graph, or the
    result of Graph.triples()/query()/..., yields them in an order that changes with PYTHONHASHSEED.  Every API-reachable
    loop or comprehension in the package that does so hands that order to the extraction (first-seen order decides the
    order of equally frequent constraints, of shapes, and which example is kept)."""
    r, g = ctx.r, ctx.flow
    obs, n = [], 0

    def graph_typed(e, f):
        try:
            return ("ext", "Graph") in r.type_of(e, f) or ("ext", "ConjunctiveGraph") in r.type_of(e, f)
        except Exception:
            return False

    for f in ctx.p.funcs.values():
        if not ctx.reachable(f):
            continue
        defs = {}
        for x in walk_own(f.node):
            if isinstance(x, ast.Assign) and len(x.targets) == 1 and isinstance(x.targets[0], ast.Name):
                defs.setdefault(x.targets[0].id, []).append(x.value)
        seen = set()
        for x in walk_own(f.node):
            its = []
            if isinstance(x, ast.For):
                its.append(x.iter)
            elif isinstance(x, (ast.ListComp, ast.GeneratorExp, ast.SetComp, ast.DictComp)):
                its += [c.iter for c in x.generators]
            for it in its:
                cands = [it] + (defs.get(it.id, []) if isinstance(it, ast.Name) else [])
                hit, whole = None, False
                for c in cands:
                    if graph_typed(c, f):
                        hit, whole = "the graph itself", True
                    elif isinstance(c, ast.Call) and isinstance(c.func, ast.Attribute) and c.func.attr in RDFLIB_ORDERED_BY_HASH \
                            and graph_typed(c.func.value, f):
                        hit = "Graph.%s()" % c.func.attr
                        # a pattern with at least one bound position is answered from the store's nested dictionaries
                        # (insertion order); only the all-wildcard pattern walks the hash-ordered set of triples
                        if c.func.attr == "triples" and c.args and isinstance(c.args[0], ast.Tuple):
                            whole = all(isinstance(el, ast.Constant) and el.value is None for el in c.args[0].elts)
                if hit is None:
                    continue
                key = "R-DET|rdflib-order|%s|%s" % (f.short, hit)
                if key in seen:
                    continue
                seen.add(key)
                n += 1
                obs.append(Ob(clause, "R-DET", key, f.loc(it), not whole,
                              "%s reads %s of an rdflib graph with a bound position (or through a query): answered from rdflib's "
                              "insertion-ordered indexes (trusted; an all-variable SPARQL pattern is not decided)" % (f.short, hit)
                              if not whole else
                              "%s iterates %s of an rdflib graph (`%s`): rdflib's memory store yields the triples of a whole graph in "
                              "hash order, so the order in which the extraction sees them - hence the order of equally frequent "
                              "constraints, of shapes, and the examples kept - changes from one process to the next" % (f.short, hit, norm(it)[:40])))
    return obs, n
