"""R-PRIO: what the user declared in namespaces_dict wins.

Every dictionary that is the user's namespaces_dict, a copy of it (`dict(x)`, `x.copy()`, `copy(x)`), or its inversion
(`reverse_keys_and_values(x)`) is followed through the value-flow graph.  A store into such a dictionary must be guarded by
the absence of the very key it writes (`if k not in d: d[k] = v`), and `d.update(other)` - where entries of `other` replace the
user's - is never allowed.  Otherwise a prefix or namespace the user declared is silently re-bound by another source (the
input's own @prefix lines, a built-in table, ...) and the classes / selectors / labels the user wrote resolve elsewhere."""
import ast
from ..core import walk_own, norm, parent_map
from ..report import Ob

WRAPPERS = {"dict", "copy", "deepcopy", "reverse_keys_and_values"}
# stores that are the documented purpose of the function (one line of reason each)
ALLOWED = {
    "Shaper._add_shapes_namespaces_to_namespaces_dict": "binds the shapes namespace to the prefix chosen for it (the value is chosen among unused prefixes)",
    "ShaclSerializer._add_shacl_namespace": "reached only after `_SHACL_NAMESPACE in self._namespaces_dict` was found false; the prefix is chosen among unused ones",
    "ShaclSerializer._add_namespace": "adds sh: / the namespaces the SHACL graph needs to the serialiser's own copy",
}


def _tainted(ctx):
    g = ctx.flow
    src = g.param("shexer.shaper:Shaper.__init__", "namespaces_dict")
    T = set(g.flows([src], labels=("copy",)))
    changed = True
    rounds = 0
    while changed and rounds < 8:
        changed = False
        rounds += 1
        for k, (e, f) in g.expr_index.items():
            if ("e", k) in T or not isinstance(e, ast.Call):
                continue
            name = e.func.id if isinstance(e.func, ast.Name) else (e.func.attr if isinstance(e.func, ast.Attribute) else None)
            args = list(e.args)
            if name == "copy" and isinstance(e.func, ast.Attribute) and not args:
                args = [e.func.value]
            if name in WRAPPERS and args and any(("e", id(a)) in T for a in args[:1]):
                new = g.flows([("e", k)], labels=("copy",))
                if not new <= T:
                    T |= new
                    changed = True
    return T


def check(ctx, clause):
    g = ctx.flow
    T = _tainted(ctx)
    obs, n = [], 0
    for f in ctx.p.funcs.values():
        if not ctx.reachable(f):
            continue
        pm = None
        for x in walk_own(f.node):
            site, d, k = None, None, None
            if isinstance(x, ast.Assign):
                for t in x.targets:
                    if isinstance(t, ast.Subscript) and ("e", id(t.value)) in T:
                        site, d, k = x, t.value, t.slice
            elif isinstance(x, ast.Call) and isinstance(x.func, ast.Attribute) and x.func.attr in ("update", "setdefault", "pop", "clear") \
                    and ("e", id(x.func.value)) in T:
                site, d, k = x, x.func.value, None
            if site is None:
                continue
            n += 1
            key = "R-PRIO|%s|%s" % (f.short, f.key(site)[:60])
            if any(o.key == key for o in obs):
                continue
            if f.short in ALLOWED:
                obs.append(Ob(clause, "R-PRIO", key, f.loc(site), True, "%s: %s" % (f.short, ALLOWED[f.short])))
                continue
            ok, why = False, ""
            if isinstance(site, ast.Call):
                if site.func.attr == "setdefault":
                    ok, why = True, "setdefault keeps an existing entry"
                else:
                    why = "`%s` lets the other source replace (or removes) the user's entries" % norm(site)[:50]
            else:
                pm = pm or parent_map(f.node)
                cur = site
                while cur in pm:
                    par = pm[cur]
                    if isinstance(par, ast.If) and any(cur is s for s in par.body):
                        for c in ast.walk(par.test):
                            if isinstance(c, ast.Compare) and len(c.ops) == 1 and isinstance(c.ops[0], ast.NotIn) \
                                    and norm(c.left) == norm(k) and norm(c.comparators[0]) == norm(d):
                                ok, why = True, "guarded by `%s`" % norm(c)
                    cur = par
                if not ok:
                    why = "`%s` is not guarded by the absence of that key in `%s`" % (norm(site)[:50], norm(d))
            obs.append(Ob(clause, "R-PRIO", key, f.loc(site), ok,
                          "%s writes the user's namespaces (or a copy) only where the key is absent (%s)" % (f.short, why) if ok else
                          "%s: %s - an entry the user declared in namespaces_dict can be re-bound by another source, and what the "
                          "user wrote with that prefix resolves elsewhere" % (f.short, why)))
    return obs, n
