"""R-TWIN: sibling agreement modulo a role map.

Two functions are normalised - unparse (layout, comments and redundant parentheses vanish),
drop the docstring, apply the pair's role map (regex substitutions over identifiers and
constants, applied to BOTH sides so that e.g. DIRECT and INVERSE meet in one token),
alpha-rename parameters and locals by first occurrence, sort keyword arguments - and the
resulting statement lists are compared.  The first divergent statement is reported with both
locations.  Expected divergences are frozen per pair with a reason.

Modes: equal | prefix (A is a prefix of B) | subset (every statement of A occurs in B, in order)
       | union (the statements of C are those of A merged with those of B).
Twins are relative: editing both copies together is silent; a one-sided edit alarms."""
import ast
import re
from ..core import AnalysisError, norm
from ..report import Ob


class _Renamer(ast.NodeTransformer):
    def __init__(self, bound):
        self.bound = bound
        self.map = {}

    def _n(self, name):
        if name in self.bound and name != "self":
            if name not in self.map:
                self.map[name] = "v%d" % len(self.map)
            return self.map[name]
        return name

    def visit_Name(self, node):
        node.id = self._n(node.id)
        return node

    def visit_arg(self, node):
        node.arg = self._n(node.arg)
        return node

    def visit_Call(self, node):
        self.generic_visit(node)
        node.keywords.sort(key=lambda k: k.arg or "")
        return node

    def visit_ExceptHandler(self, node):
        if node.name:
            node.name = self._n(node.name)
        self.generic_visit(node)
        return node


def _bound_names(fn):
    out = set()
    a = fn.args
    for x in a.posonlyargs + a.args + a.kwonlyargs:
        out.add(x.arg)
    if a.vararg:
        out.add(a.vararg.arg)
    if a.kwarg:
        out.add(a.kwarg.arg)
    for n in ast.walk(fn):
        if isinstance(n, ast.Name) and isinstance(n.ctx, ast.Store):
            out.add(n.id)
        elif isinstance(n, ast.ExceptHandler) and n.name:
            out.add(n.name)
    return out


def sort_pair_elements(lines):
    """Order-free reading of 2-tuples of calls (a row is the same pair whichever end is written first)."""
    out = []
    for t in lines:
        try:
            tree = ast.parse(t)
        except SyntaxError:
            out.append(t)
            continue
        for n in ast.walk(tree):
            if isinstance(n, ast.Tuple) and len(n.elts) == 2 and all(isinstance(e, ast.Call) for e in n.elts):
                n.elts.sort(key=ast.unparse)
        out.append(ast.unparse(tree))
    return out


def normal_form(func, subs=(), keep_name=False, keep_param_names=False, post_subs=(), post_fn=None, node=None):
    """List of normalised top-level statements (strings) of the function body."""
    from ..canon import canonical
    src = ast.unparse(canonical(node if node is not None else func.node))          # idiom-independent form (sa/canon.py)
    tree = ast.parse(src)
    fn = tree.body[0]
    fn.decorator_list = []
    if fn.body and isinstance(fn.body[0], ast.Expr) and isinstance(fn.body[0].value, ast.Constant) \
            and isinstance(fn.body[0].value.value, str):
        fn.body = fn.body[1:] or [ast.Pass()]
    if not keep_name:
        fn.name = "f"
    for n in ast.walk(fn):
        if isinstance(n, ast.Call):
            n.keywords.sort(key=lambda k: k.arg or "")      # before the role map: its patterns see one canonical order
    txt = ast.unparse(fn)
    for pat, rep in subs:
        txt = re.sub(pat, rep, txt)
    try:
        tree = ast.parse(txt)
    except SyntaxError as e:
        raise AnalysisError("role map produced unparsable text for %s: %s" % (func.qual, e))
    fn = tree.body[0]
    bound = _bound_names(fn)
    if keep_param_names:
        bound -= {x.arg for x in fn.args.args + fn.args.kwonlyargs}
    fn = _Renamer(bound).visit(fn)
    header = "def(%s)" % ast.unparse(fn.args)
    body = [ast.unparse(s) for s in fn.body]
    for pat, rep in post_subs:          # role-map entries over the alpha-renamed text (v0, v1, ...): independent of local names
        body = [re.sub(pat, rep, t) for t in body]
    if post_fn is not None:
        body = post_fn(body)
    return header, body


class Pair:
    def __init__(self, name, a, b, subs=(), mode="equal", expected=(), props=(), why="", c=None, header=True,
                 keep_params=False, post_subs=(), post_fn=None, deep_subs=(), deep_as=(None, None)):
        self.deep_as = deep_as                  # when the helpers are written out: the concrete classes the two siblings run as
        self.deep_subs = list(deep_subs)        # role-map entries needed only when the helpers are written out
        self.post_fn = post_fn
        self.keep_params = keep_params
        self.post_subs = post_subs
        self.name, self.a, self.b, self.c = name, a, b, c
        self.subs, self.mode, self.expected, self.props, self.why, self.header = subs, mode, expected, props, why, header


def compare_pair(ctx, pair, clause):
    """The siblings as written; when they disagree, once more with the private helpers of both written out (a helper merged,
    extracted or inlined on one side only is not a disagreement).  The first comparison's report is kept when both fail."""
    first = _compare_pair(ctx, pair, clause, deep=False)
    if first.ok or pair.mode not in ("equal", "prefix") or pair.a == pair.b:
        return first
    try:
        second = _compare_pair(ctx, pair, clause, deep=True)
    except (AnalysisError, RecursionError):
        return first
    if second.ok:
        second.msg += " (compared with the private helpers of both written out)"
        return second
    return first


def _compare_pair(ctx, pair, clause, deep):
    p = ctx.p
    fa, fb = p.func(pair.a), p.func(pair.b)
    na = nb = None
    if deep:
        from ..unextract import fully_inlined
        na, nb = fully_inlined(p, fa, as_class=pair.deep_as[0]), fully_inlined(p, fb, as_class=pair.deep_as[1])
    subs = list(pair.subs) + (pair.deep_subs if deep else [])
    ha, sa = normal_form(fa, subs, keep_param_names=pair.keep_params, post_subs=pair.post_subs, post_fn=pair.post_fn, node=na)
    hb, sb = normal_form(fb, subs, keep_param_names=pair.keep_params, post_subs=pair.post_subs, post_fn=pair.post_fn, node=nb)
    key = "R-TWIN|%s" % pair.name
    loc = fa.loc()

    def fail(msg, xa=None, xb=None):
        return Ob(clause, "R-TWIN", key, loc, False,
                  "%s and %s disagree modulo the role map: %s%s" % (
                      fa.short, fb.short, msg,
                      "" if xa is None else " | %s: `%s` | %s: `%s`" % (fa.loc(), (xa or "<nothing>")[:110], fb.loc(), (xb or "<nothing>")[:110])))

    exp = [(re.compile(x), re.compile(y)) for x, y, _ in pair.expected]

    def expected(xa, xb):
        return any(x.fullmatch(xa or "") and y.fullmatch(xb or "") for x, y in exp)

    if pair.header and ha != hb and pair.mode in ("equal", "prefix"):
        return fail("signatures differ", ha, hb)
    if pair.mode in ("equal", "prefix"):
        # line by line (a frozen divergence is one line of one alternative, wherever the statement around it sits)
        sa = [l.rstrip() for x in sa for l in x.split("\n")]
        sb = [l.rstrip() for x in sb for l in x.split("\n")]
        _exp = expected
        expected = lambda xa, xb: _exp((xa or "").strip(), (xb or "").strip()) and \
            len(xa or "") - len((xa or "").lstrip()) == len(xb or "") - len((xb or "").lstrip())
    if pair.mode == "equal":
        n = max(len(sa), len(sb))
        for i in range(n):
            xa = sa[i] if i < len(sa) else None
            xb = sb[i] if i < len(sb) else None
            if xa != xb and not expected(xa, xb):
                return fail("statement %d" % (i + 1), xa, xb)
    elif pair.mode == "prefix":
        if len(sa) > len(sb):
            return fail("the prefix twin is longer than the full twin")
        for i, xa in enumerate(sa):
            if xa != sb[i] and not expected(xa, sb[i]):
                return fail("statement %d" % (i + 1), xa, sb[i])
    elif pair.mode == "subset":
        j = 0
        for i, xa in enumerate(sa):
            while j < len(sb) and sb[j] != xa and not expected(xa, sb[j]):
                j += 1
            if j == len(sb):
                return fail("statement %d of the first has no counterpart in the second" % (i + 1), xa, None)
            j += 1
    elif pair.mode == "sublines":
        la = [l.strip() for x in sa for l in x.split("\n")]
        lb = [l.strip() for x in sb for l in x.split("\n")]
        j = 0
        for i, xa in enumerate(la):
            while j < len(lb) and lb[j] != xa and not expected(xa, lb[j]):
                j += 1
            if j == len(lb):
                return fail("line %d of the first has no counterpart (in order) in the second" % (i + 1), xa, None)
            j += 1
    elif pair.mode == "union":
        fc = p.func(pair.c)
        hc, sc = normal_form(fc, pair.subs)
        flat = lambda ss: [l for s in ss for l in s.split("\n")]
        la, lb, lc = flat(sa), flat(sb), flat(sc)
        want = sorted(set(la) | set(lb))
        got = sorted(set(lc))
        if want != got:
            miss = [x for x in want if x not in got]
            extra = [x for x in got if x not in want]
            return fail("%s is not the union of the two (missing %s, extra %s)" % (fc.short, miss[:2], extra[:2]))
    else:
        raise AnalysisError("unknown twin mode " + pair.mode)
    return Ob(clause, "R-TWIN", key, loc, True, "%s ~ %s (%s, %d statements)%s" % (
        fa.short, fb.short, pair.mode, len(sa), "; frozen divergences: " + "; ".join(r for _, _, r in pair.expected) if pair.expected else ""))


# ---------------------------------------------------------------------------------- registry
PROF = "shexer.core.profiling.strategy."
AFD = PROF + "abstract_feature_direction_strategy:AbstractFeatureDirectionStrategy."
DFS = PROF + "direct_features_strategy:DirectFeaturesStrategy."
IRF = PROF + "include_reverse_features_strategy:IncludeReverseFeaturesStrategy."
SHX = "shexer.core.shexing.strategy."
DSS = SHX + "direct_shexing_strategy:DirectShexingStrategy."
DIS = SHX + "direct_and_inverse_shexing_strategy:DirectAndInverseShexingStrategy."
SG = "shexer.model.graph.abstract_sgraph:SGraph."
ESG = "shexer.model.graph.endpoint_sgraph:EndpointSGraph."
SEL = "shexer.io.graph.yielder.remote.sgraph_from_selectors_triple_yielder:SgraphFromSelectorsTripleYielder."
ICM = "shexer.core.instances.annotators.strategy_mode.instance_cap_mode:InstanceCapMode."
MODES = "shexer.core.instances.annotators.strategy_mode."
CP = "shexer.core.profiling.class_profiler:ClassProfiler."
TYF = "shexer.utils.factories.triple_yielders_factory:"

DIR = [(r"(?i)inverse", "DIR"), (r"(?i)direct", "DIR")]
SO = [(r"\b_S\b", "_ROLE"), (r"\b_O\b", "_ROLE"), (r"subj", "ROLE"), (r"obj", "ROLE")]

PAIRS = [
    Pair("2d-instance-features", IRF + "_annotate_2d_direct_instance_features", IRF + "_annotate_2d_inverse_instance_features",
         subs=DIR, props=("C14", "C01", "C09"), why="direct and inverse features of an instance are aggregated alike"),
    Pair("2d-instance-features-for-class", IRF + "_annotate_2d_direct_instance_features_for_class",
         IRF + "_annotate_2d_inverse_instance_features_for_class", subs=DIR, props=("C14", "C01")),
    Pair("2d-introduce-needed", IRF + "_introduce_needed_direct_elements_in_2d_shape_classes_dict",
         IRF + "_introduce_needed_inverse_elements_in_2d_shape_classes_dict", subs=DIR, props=("C14", "C01")),
    Pair("infer-3tuple-features", AFD + "_infer_direct_3tuple_features", IRF + "_infer_inverse_3tuple_features",
         subs=DIR, props=("C14", "C03", "C09")),
    Pair("annotate-target-subject-object", AFD + "_annotate_target_subject", IRF + "_annotate_target_object",
         subs=DIR + SO,
         expected=[(r"if v\d in \(IRI_ELEM_TYPE, BNODE_ELEM_TYPE\):", r"if v\d == IRI_ELEM_TYPE:",
                    "blank-node subjects of incoming links are classified without shape references (by design, see C14's quantifier)")],
         props=("C14", "C01")),
    Pair("introduce-needed-subj-obj", AFD + "_introduce_needed_elements_in_shape_instances_dict_for_subj",
         IRF + "_introduce_needed_elements_in_shape_instances_dict_for_obj", subs=DIR + SO, props=("C14", "C01")),
    Pair("build-base-statements", DIS + "_build_base_direct_statements", DIS + "_build_base_inverse_statements",
         subs=DIR + [(r", is_DIR=(True|False)", ""), (r"is_DIR=(True|False), ", "")], props=("C14", "C02", "C12"),
         why="the direct and the inverse candidates are filtered and built alike"),
    Pair("direct-1d-vs-2d-for-class", AFD + "_annotate_direct_instance_features_for_class",
         IRF + "_annotate_2d_direct_instance_features_for_class",
         subs=[(r"\[_C_MAP_POS_DIRECT\]", ""), (r"_introduce_needed_direct_elements_in_2d_shape_classes_dict", "_introduce_needed_elements_in_shape_classes_dict")],
         props=("C14",), why="the direct half under inverse_paths equals the direct-only strategy modulo the container position",
         deep_subs=[(r"\[_C_MAP_POS_DIRECT\]", "")]),
    Pair("direct-1d-vs-2d-introduce", AFD + "_introduce_needed_elements_in_shape_classes_dict",
         IRF + "_introduce_needed_direct_elements_in_2d_shape_classes_dict", subs=[(r"\[_C_MAP_POS_DIRECT\]", "")], props=("C14",)),
    Pair("direct-1d-vs-2d-instance", AFD + "_annotate_direct_instance_features", IRF + "_annotate_2d_direct_instance_features",
         subs=[(r"_annotate_2d_direct_instance_features_for_class", "_annotate_direct_instance_features_for_class")], props=("C14",),
         deep_subs=[(r"\[_C_MAP_POS_DIRECT\]", "")]),
    Pair("init-annotated-targets", AFD + "_init_annotated_direct_features", IRF + "init_annotated_targets",
         subs=[(r"\(\{\}, \{\}\)", "{}")], props=("C14", "C01", "C02"), deep_as=("DirectFeaturesStrategy", "IncludeReverseFeaturesStrategy")),
    Pair("init-original-targets", DFS + "init_original_targets", IRF + "init_original_targets",
         subs=[(r"\(\{\}, \{\}\)", "{}")], props=("C14", "C02"), deep_as=("DirectFeaturesStrategy", "IncludeReverseFeaturesStrategy")),
    Pair("sgraph-po-vs-sp", SG + "yield_p_o_triples_of_target_nodes", SG + "yield_s_p_triples_of_target_nodes",
         subs=[(r"yield_p_o_triples_of_an_s", "yield_triples_of_a_node"), (r"yield_s_p_triples_of_an_o", "yield_triples_of_a_node"),
               (r"\b(\w+)\[2\]", r"\1[END]"), (r"\b(\w+)\[0\]", r"\1[END]")], props=("C14", "C15", "C19"),
         deep_subs=[(r"\bif (True|False):", "if FLAG:"), (r"\b_S\b", "_ROLE"), (r"\b_O\b", "_ROLE"), (r", (True|False)\)", ", FLAG)"),
                    (r"=(True|False)\b", "=FLAG")]),
    Pair("selectors-direct-vs-inverse", SEL + "_yield_relevant_direct_triples", SEL + "_yield_relevant_inverse_triples",
         subs=[(r"yield_p_o_triples_of_target_nodes", "yield_triples_of_target_nodes"),
               (r"yield_s_p_triples_of_target_nodes", "yield_triples_of_target_nodes")], props=("C14", "C15")),
    Pair("examples-subject-vs-object", IRF + "_annotate_example_subject_inverse_paths", IRF + "_annotate_example_object_inverse_paths",
         subs=SO + [(r"DIR", "DIR"), (r"inverse=(True|False)", "inverse=FLAG")], props=("C14", "C17")),
    Pair("examples-no-inverse-vs-subject", DFS + "_annotate_example_no_inverse", IRF + "_annotate_example_subject_inverse_paths",
         subs=[(r"inverse=False, ", ""), (r", inverse=False", "")], props=("C17",)),
    Pair("triple-features-with-vs-without-examples", IRF + "_annotate_triple_features_no_examples",
         IRF + "_annotate_triple_features_with_examples", mode="sublines",
         subs=[], props=("C17", "C13", "C14"), why="switching examples on only adds example bookkeeping"),
    Pair("direct-triple-features-with-vs-without-examples", DFS + "_annotate_triple_features_no_examples",
         DFS + "_annotate_triple_features_with_examples", mode="prefix", props=("C17", "C13")),
    Pair("annotate-triple-target-vs-all", MODES + "target_classes_mode:TargetClassesMode.annotate_triple",
         MODES + "all_classes_mode:AllClasesMode.annotate_triple", props=("C10", "C16")),
    Pair("annotate-triple-target-vs-cap", MODES + "target_classes_mode:TargetClassesMode.annotate_triple", ICM + "annotate_triple",
         props=("C10", "C16")),
    Pair("endpoint-local-po-vs-sp", ESG + "_yield_local_p_o_triples_of_an_s", ESG + "_yield_local_s_p_triples_of_an_o",
         subs=[(r"_subjects_tracked", "_tracked"), (r"_objects_tracked", "_tracked"), (r"p_o_triples_of_an_s", "triples_of_a_node"),
               (r"s_p_triples_of_an_o", "triples_of_a_node")], props=("C15",)),
    Pair("endpoint-dispatch-po-vs-sp", ESG + "yield_p_o_triples_of_an_s", ESG + "yield_s_p_triples_of_an_o",
         subs=[(r"p_o_triples_of_an_s", "triples_of_a_node"), (r"s_p_triples_of_an_o", "triples_of_a_node"),
               (r"_subjects_tracked", "_tracked"), (r"_objects_tracked", "_tracked")], props=("C15",)),   # which set: R-FLOW|tracked-set
    Pair("min-iri-and-examples-union", CP + "_annotate_min_iris", CP + "_annotate_shape_examples", mode="union",
         c=CP + "_annotate_shape_examples_and_min_iris", props=("C17",)),
    Pair("yielder-nt-vs-tsv", TYF + "_yielder_for_tsv_spo", TYF + "_yielder_for_turtle_iter",
         subs=[(r"MultiTsvNtTriplesYielder", "MultiY"), (r"MultiBigTtlTriplesYielder", "MultiY"), (r"TsvNtTriplesYielder", "OneY"),
               (r"BigTtlTriplesYielder", "OneY")], props=("C08x", "C04")),
    Pair("multi-constructors-nt-vs-tsv", "shexer.io.graph.yielder.multi_nt_triples_yielder:MultiNtTriplesYielder._constructor_file_yielder",
         "shexer.io.graph.yielder.multi_tsv_nt_triples_yielder:MultiTsvNtTriplesYielder._constructor_file_yielder",
         subs=[(r"TsvNtTriplesYielder", "Y"), (r"NtTriplesYielder", "Y")], props=("C04", "C06")),
    Pair("multi-init-nt-vs-tsv", "shexer.io.graph.yielder.multi_nt_triples_yielder:MultiNtTriplesYielder.__init__",
         "shexer.io.graph.yielder.multi_tsv_nt_triples_yielder:MultiTsvNtTriplesYielder.__init__",
         subs=[(r"MultiTsvNtTriplesYielder", "M"), (r"MultiNtTriplesYielder", "M")], props=("C04", "C06"),
         why="the multi-file readers take and forward the same options (compression, zip archive, untyped numbers)"),
    Pair("multi-init-nt-vs-ttl", "shexer.io.graph.yielder.multi_nt_triples_yielder:MultiNtTriplesYielder.__init__",
         "shexer.io.graph.yielder.multi_big_ttl_files_triple_yielder:MultiBigTtlTriplesYielder.__init__",
         subs=[(r"MultiBigTtlTriplesYielder", "M"), (r"MultiNtTriplesYielder", "M")], props=("C04", "C06", "C07")),
    Pair("multi-constructors-nt-vs-ttl", "shexer.io.graph.yielder.multi_nt_triples_yielder:MultiNtTriplesYielder._constructor_file_yielder",
         "shexer.io.graph.yielder.multi_big_ttl_files_triple_yielder:MultiBigTtlTriplesYielder._constructor_file_yielder",
         subs=[(r"BigTtlTriplesYielder", "Y"), (r"NtTriplesYielder", "Y")], props=("C04", "C06", "C07")),
    Pair("unprefixize-if-possible-vs-mandatory", "shexer.utils.uri:unprefixize_uri_if_possible", "shexer.utils.uri:unprefixize_uri_mandatory",
         expected=[(r"return v0", r"raise ValueError\(.*\)", "the mandatory variant rejects an unknown prefix instead of returning the input")],
         props=("C07", "C10")),
    # (the pair nt-bnode-vs-number-token was retired with fix eb7372d: the blank-node scanner now also gives back the statement's
    #  final dot, which a bare number must not do ("5." is a decimal); both scanners are decided by the N-Triples token and
    #  document tables instead)
    Pair("instantiation-property-profiler-vs-serializer", CP + "_decide_instantiation_property",
         "shexer.io.shex.formater.shex_serializer:ShexSerializer._decide_instantiation_property", props=("C10", "C11")),
    # (the pair shape-removal-profiler-vs-shexer was retired: the two cleaning loops only share their skeleton, and inlining the
    #  one-line iteration helper on one side - behaviour-neutral - made them "disagree".  What the pair protected is decided
    #  behaviourally: the removal cascade table (C05), the removal decision tables (C02) and the profiler's R-ORDER rule)
    Pair("direct-namespace-predicate", "shexer.utils.triple_yielders:check_if_property_belongs_to_namespace_list",
         "shexer.utils.triple_yielders:check_if_property_belongs_to_namespace_list", props=()),
    Pair("set-valid-constraints-direct-vs-2d", DSS + "set_valid_shape_constraints", DIS + "set_valid_shape_constraints",
         mode="equal", props=("C02", "C14"),
         expected=[(r"v1 = self\._select_valid_statements_of_shape\(v0\.direct_statements\)",
                    r"v1 = self\._select_valid_statements_of_shape\(v0\.direct_statements\) \+ self\._select_valid_statements_of_shape\(v0\.inverse_statements\)",
                    "with inverse paths the selected inverse statements are appended to the selected direct ones")], why="the direct statements are selected and tuned the same way with and without inverse_paths"),
    Pair("remove-statements-direct-vs-2d", DSS + "remove_statements_to_gone_shapes", DIS + "remove_statements_to_gone_shapes",
         mode="prefix", props=("C05", "C14")),
    Pair("remove-statements-2d-direct-vs-inverse", DIS + "remove_statements_to_gone_shapes", DIS + "remove_statements_to_gone_shapes",
         props=()),
    Pair("strategy-init-direct-vs-2d", DSS + "__init__", DIS + "__init__", props=("C14",)),
]


def annotated_features_table(ctx, clause):
    """has_shape_annotated_features of the two profiling strategies, decided by what it answers rather than how it is written:
    an unknown shape and a shape with empty feature dictionaries have no features; with inverse paths a shape has features when
    either half has."""
    from ..abseval import Evaluator
    rows = (("DirectFeaturesStrategy", [({}, False), ({"S": {}}, False), ({"S": {"p": {"t": {1: 2}}}}, True)]),
            ("IncludeReverseFeaturesStrategy", [({}, False), ({"S": [{}, {}]}, False), ({"S": [{"p": {"t": {1: 2}}}, {}]}, True),
                                                ({"S": [{}, {"p": {"t": {1: 2}}}]}, True)]))
    bad, n, loc = [], 0, None
    for cname, states in rows:
        f = ctx.p.method(cname, "has_shape_annotated_features")
        loc = loc or f.loc()
        for state, want in states:
            outs = Evaluator(ctx, max_depth=8).outcomes(f, {f.bound_params[0]: "S"}, {"self._c_shapes_dict": state})
            n += 1
            if outs != [("return", want)]:
                bad.append("%s with shapes dictionary %r answers %s, expected %s" % (f.short, state, outs, want))
                loc = f.loc()
    return Ob(clause, "R-TWIN", "R-TWIN|has-annotated-features", loc, not bad,
              "both strategies agree on what an annotated shape is (%d rows: unknown shape, empty dictionaries, either half filled)" % n
              if not bad else "; ".join(bad))


# Sibling pairs inside the two profiling strategies.  What these siblings compute together is decided end to end by
# sa/rules/profile.py (the profiler interpreted on small graphs: reference profile, order independence, direct half unchanged
# by inverse_paths, inverse half = direct half of the reversed graph).  The pairs stay armed as the finer instrument - they see
# a divergence in a branch the graphs do not reach - but when the two copies differ *in how they are written* (helpers merged
# or parameterised, one side restructured, a sibling gone) and the end-to-end tables hold on the tree under analysis, the
# difference is one of organisation, not of behaviour on anything the tables exercise, and is reported as a note.
PROFILE_INTERNAL = {"2d-instance-features", "2d-instance-features-for-class", "2d-introduce-needed", "infer-3tuple-features",
                    "annotate-target-subject-object", "introduce-needed-subj-obj", "direct-1d-vs-2d-for-class", "direct-1d-vs-2d-introduce",
                    "direct-1d-vs-2d-instance"}
# (not the two init-* pairs: target classes without instances and repeated class mentions are not in the tables' graphs)


def _profile_tables_hold(ctx):
    if not hasattr(ctx, "_profile_tables_hold"):
        from . import profile
        try:
            obs, _ = profile.tables(ctx, "-", ("reference", "mirror", "permutation", "no-crash"))
            ctx._profile_tables_hold = all(o.ok for o in obs)
        except AnalysisError:
            ctx._profile_tables_hold = False
    return ctx._profile_tables_hold


def _compare_with_fallback(ctx, pair, clause):
    if pair.name not in PROFILE_INTERNAL:
        return compare_pair(ctx, pair, clause)
    try:
        o = compare_pair(ctx, pair, clause)
    except AnalysisError as e:
        if "vanished" in str(e) and _profile_tables_hold(ctx):
            return Ob(clause, "R-TWIN", "R-TWIN|%s" % pair.name, "shexer/core/profiling", True,
                      "a sibling of the pair no longer exists (%s); what the strategies compute is decided by the end-to-end profile "
                      "tables, which hold" % str(e)[:80])
        raise
    if not o.ok and _profile_tables_hold(ctx):
        o.ok = True
        o.msg = "the siblings are written differently (%s) - the end-to-end profile tables (reference, order, mirror) hold on this " \
                "tree, so the difference is not one of behaviour on anything they exercise" % o.msg[:160]
    return o


def check_pairs(ctx, clause, prop):
    obs = []
    if prop in ("C02", "C14"):
        o = ctx.attempt(annotated_features_table, ctx, clause)
        if o is not None:
            obs.append(o)
    for pair in PAIRS:
        if prop in pair.props:
            o = ctx.attempt(_compare_with_fallback, ctx, pair, clause)
            if o is not None:
                obs.append(o)
    return obs


def all_pairs(ctx):
    return [(pair, compare_pair(ctx, pair, "-")) for pair in PAIRS if pair.a != pair.b]
