"""R-TABLE (merge): invariants of the voting / merging stage, decided on the code itself.

`AbstractShexingStrategy._select_valid_statements_of_shape` turns the candidate statements of one shape into its
constraints: same-(property, kind) groups are decided by cardinality, then the node-kind candidates of one property
(IRI, BNode, shape references) are merged by MergeableConstraints.  The stage is interpreted abstractly (sa.abseval,
object mode: Statement, FixedPropChoiceStatement, MergeableConstraints and the serializer factory are the package's own
classes, statement serializers are opaque records that remember their direction) over every combination of node kinds
of one non-literal property x count orders x option flags x direction.  No expected output is frozen: each run is held
against invariants that the properties state:

  no-crash          no combination of node kinds makes the stage raise                                   (C04)
  one-per-key       exactly one constraint for the (direction, property, non-literal) key comes out       (C02, C12)
  direction         the constraint and the serializer that will print it keep the direction of the inputs  (C14, C11, C13, C01)
  property          the constraint is about the same property                                             (C02)
  or-scope          a disjunction only appears with disable_or_statements=False, over kinds that were in the input   (C13)
  figures           its count / ratio are those of an input candidate (or the IRI+BNode sum of the merged node kind)   (C01, C12)
  coverage          in data-consistent inputs the surviving constraint carries the total of the node kinds            (C03, C01)
  order-free        the outcome does not depend on the order in which the candidates arrive                (C09)
  cardinality       the merged node kind admits what both of its halves admit: their common exact cardinality, else +   (C01, C03)
"""
import itertools
from ..abseval import Evaluator, AbsObj, Raised, Fork, Distinct
from ..core import AnalysisError
from ..report import Ob

ASS = "shexer.core.shexing.strategy.abstract_shexing_strategy:AbstractShexingStrategy."
PROP = "http://e/p"
KINDS = ["IRI", "BNode", "%<http://weso.es/shapes/A>", "%<http://weso.es/shapes/B>"]
COUNT_PATTERNS = [(4, 3, 2, 1), (1, 2, 3, 4), (2, 2, 2, 2), (3, 1, 4, 2)]


def _serializer(kind):
    def make(args, kws):
        return {"serializer-kind": kind, "is_inverse": kws.get("is_inverse", False),
                "turn_statement_into_comment()": _snap}
    return make


def _snap(rec, args, kws):
    st = args[0] if args else kws.get("a_statement", kws.get("statement"))
    return ("comment-of", id(st))


_snap.wants_args = True


class Setup:
    def __init__(self, ctx):
        p = ctx.p
        self.ctx = ctx
        self.entry = p.func(ASS + "_select_valid_statements_of_shape")
        self.cls = {n: p.find_class(n) for n in ("Statement", "FixedPropChoiceStatement", "MergeableConstraints", "StSerializerFactory")}

    def run(self, kinds, counts, total, inv, disable_or, redundant, order=None, shared=None, cards=None):
        """shared: (evaluator, factory) of an earlier run - the strategy object lives as long as the shexer, so its serializer
        factory serves every shape and both directions."""
        if shared is not None:
            ev, factory = shared
        else:
            ev = Evaluator(self.ctx, max_depth=14)
            ev.concrete_classes = set(self.cls)
            ev.ctor_hooks = {"BaseStatementSerializer": _serializer("base"), "FixedPropChoiceStatementSerializer": _serializer("choice")}
            ev._yields = []
        factory = shared[1] if shared is not None else ev.new(self.cls["StSerializerFactory"], freq_mode=self.ctx.p.const("shexer.consts", "RATIO_INSTANCES"), decimals=-1,
                         instantiation_property_str="http://www.w3.org/1999/02/22-rdf-syntax-ns#type", disable_comments=False)
        stmts = []
        for i_, (k, n) in enumerate(zip(kinds, counts)):
            stmts.append(ev.new(self.cls["Statement"], st_property=PROP, st_type=k, cardinality=cards[i_] if cards else "+", n_occurences=n,
                                probability=n / float(total), serializer_object=None, is_inverse=inv))
        if order is not None:
            stmts = [stmts[i] for i in order]
        selfenv = {"self._instantiation_property_str": "http://www.w3.org/1999/02/22-rdf-syntax-ns#type",
                   "self._disable_or_statements": disable_or, "self._allow_redundant_or": redundant, "self._namespaces_dict": {},
                   "self._discard_useless_positive_closures": True, "self._keep_less_specific": True, "self._tolerance": 0.0,
                   "self._statement_serializer_factory": factory}
        ev._decisions, ev._taken, ev.effects = [], [], []
        try:
            res = ev.call(self.entry, {"original_statements": list(stmts)}, selfenv, 0)
        except Raised as r:
            return {"raised": r.exc, "inputs": stmts, "shared": (ev, factory)}
        except Fork as fk:
            raise AnalysisError("the merge stage consults a value the table does not fix (%s)" % type(fk.site).__name__)
        return {"result": res, "inputs": stmts, "shared": (ev, factory)}


def _describe(kinds, counts, inv, disable_or, redundant):
    return "%s candidates %s, disable_or=%s, allow_redundant_or=%s" % (
        "inverse" if inv else "direct", ", ".join("%s x%d" % (k.split("/")[-1].rstrip(">"), n) for k, n in zip(kinds, counts)), disable_or, redundant)


def _summary(st):
    """Order-independent description of a result statement."""
    if not isinstance(st, AbsObj):
        return ("not-a-statement", repr(st)[:40])
    f = st.fields
    kind = tuple(sorted(f["_st_types"])) if "_st_types" in f else f.get("_st_type")
    return (st.cls.name, kind, f.get("_n_occurences"), round(f.get("_probability"), 9) if isinstance(f.get("_probability"), float) else f.get("_probability"),
            f.get("_is_inverse"), f.get("_cardinality"))


def invariants(ctx, clause, which=None):
    su = Setup(ctx)
    fails = {k: None for k in ("no-crash", "one-per-key", "direction", "property", "or-scope", "figures", "coverage", "order-free",
                               "cardinality")}
    counts_seen = {k: 0 for k in fails}
    runs = 0
    for r in range(2, len(KINDS) + 1):
        for kinds in itertools.combinations(KINDS, r):
            for pattern in COUNT_PATTERNS:
                counts = [pattern[KINDS.index(k)] for k in kinds]
                total = max(sum(counts), 1)
                for inv in (False, True):
                    for disable_or, redundant in ((True, False), (False, False), (False, True)):
                        desc = _describe(kinds, counts, inv, disable_or, redundant)
                        out = su.run(kinds, counts, total, inv, disable_or, redundant)
                        runs += 1
                        counts_seen["no-crash"] += 1
                        if "raised" in out:
                            fails["no-crash"] = fails["no-crash"] or "%s: the stage raises %s" % (desc, out["raised"])
                            continue
                        res = out["result"]
                        counts_seen["one-per-key"] += 1
                        if not isinstance(res, list) or len(res) != 1 or not isinstance(res[0], AbsObj):
                            fails["one-per-key"] = fails["one-per-key"] or "%s: %s constraints come out (%s)" % (
                                desc, len(res) if isinstance(res, list) else "?", [_summary(x) for x in res] if isinstance(res, list) else res)
                            continue
                        st = res[0]
                        f = st.fields
                        ser = f.get("_serializer_object")
                        counts_seen["direction"] += 1
                        sdir = ser.get("is_inverse") if isinstance(ser, dict) else None
                        if f.get("_is_inverse") is not inv or sdir is not inv:
                            fails["direction"] = fails["direction"] or "%s: the constraint has is_inverse=%s and will be printed by the %s serializer" % (
                                desc, f.get("_is_inverse"), {True: "inverse", False: "direct"}.get(sdir, "unset"))
                        counts_seen["property"] += 1
                        if f.get("_st_property") != PROP:
                            fails["property"] = fails["property"] or "%s: the constraint is about %r" % (desc, f.get("_st_property"))
                        is_choice = st.cls.name == "FixedPropChoiceStatement"
                        counts_seen["or-scope"] += 1
                        if is_choice:
                            alts = list(f.get("_st_types") or [])
                            skind = ser.get("serializer-kind") if isinstance(ser, dict) else None
                            if disable_or:
                                fails["or-scope"] = fails["or-scope"] or "%s: a disjunction %s comes out although disjunctions are disabled" % (desc, alts)
                            elif not set(alts) <= (set(kinds) | ({"NONLITERAL"} if {"IRI", "BNode"} <= set(kinds) else set())) \
                                    or len(set(alts)) != len(alts) or len(alts) < 2:
                                fails["or-scope"] = fails["or-scope"] or "%s: the disjunction ranges over %s" % (desc, alts)
                            elif skind != "choice":
                                fails["or-scope"] = fails["or-scope"] or "%s: the disjunction will be printed by a %s serializer" % (desc, skind)
                        else:
                            skind = ser.get("serializer-kind") if isinstance(ser, dict) else None
                            if skind != "base":
                                fails["or-scope"] = fails["or-scope"] or "%s: a plain constraint (%s) gets the %s serializer" % (desc, f.get("_st_type"), skind)
                        counts_seen["figures"] += 1
                        legal = {(n, round(n / float(total), 9)) for n in counts}
                        if "IRI" in kinds and "BNode" in kinds:
                            s_ = counts[kinds.index("IRI")] + counts[kinds.index("BNode")]
                            legal.add((s_, round(s_ / float(total), 9)))
                        got = (f.get("_n_occurences"), round(f.get("_probability"), 9) if isinstance(f.get("_probability"), (int, float)) else None)
                        if got not in legal:
                            fails["figures"] = fails["figures"] or "%s: the constraint reports %s instances / ratio %s, which is no candidate's figure" % (
                                desc, got[0], got[1])
                        # coverage: every non-literal value is an IRI or a blank node, and an instance of a shape is one of them,
                        # so in data-consistent inputs (no shape more frequent than the node kinds together) the surviving
                        # constraint must stand for all of them: it carries the node kinds' total
                        node_total = sum(c for k, c in zip(kinds, counts) if k in ("IRI", "BNode"))
                        if node_total and all(c <= node_total for k, c in zip(kinds, counts) if k not in ("IRI", "BNode")):
                            counts_seen["coverage"] += 1
                            if f.get("_n_occurences") != node_total:
                                fails["coverage"] = fails["coverage"] or (
                                    "%s: the surviving constraint (%s) stands for %s instances, but %d instances have a non-literal "
                                    "value: the others do not match it" % (desc, _summary(st)[1], f.get("_n_occurences"), node_total))
                        # order independence: the reversed input gives the same constraint
                        counts_seen["order-free"] += 1
                        out2 = su.run(kinds, counts, total, inv, disable_or, redundant, order=list(range(len(kinds)))[::-1])
                        s1 = _summary(st)
                        s2 = [_summary(x) for x in out2.get("result", [])] if "result" in out2 else ["raised " + out2.get("raised", "?")]
                        tied = len(set(counts)) != len(counts)
                        if not tied and s2 != [s1]:
                            fails["order-free"] = fails["order-free"] or "%s: %s, with the candidates in reverse order %s" % (desc, s1, s2)
    # the IRI and the blank-node candidates arrive with the cardinality each group voted: the merged node kind must admit both
    if which is None or "cardinality" in which:
        closure = ctx.p.const("shexer.model.statement", "POSITIVE_CLOSURE")
        for kinds in ([KINDS[0], KINDS[1]], [KINDS[0], KINDS[1], KINDS[2]]):
            for counts in ((3, 2, 1), (2, 3, 1)):
                counts = list(counts[:len(kinds)])
                for ci, cb in ((1, 2), (2, 1), (2, 2), (closure, 1), (1, closure)):
                    for inv in (False, True):
                        cards = [ci, cb] + [closure] * (len(kinds) - 2)
                        out = su.run(kinds, counts, sum(counts), inv, True, False, cards=cards)
                        runs += 1
                        counts_seen["cardinality"] += 1
                        desc = _describe(kinds, counts, inv, True, False) + ", IRI voted %s and BNode voted %s" % (ci, cb)
                        if "raised" in out or not isinstance(out["result"], list) or len(out["result"]) != 1 \
                                or not isinstance(out["result"][0], AbsObj):
                            continue       # no-crash / one-per-key report these
                        f = out["result"][0].fields
                        want = ci if ci == cb and ci != closure else closure
                        if f.get("_n_occurences") == counts[0] + counts[1] and f.get("_cardinality") != want:
                            fails["cardinality"] = fails["cardinality"] or (
                                "%s: the merged constraint stands for both groups (%d instances) with cardinality %r - instances of the "
                                "other group do not match it; expected %r" % (desc, counts[0] + counts[1], f.get("_cardinality"), want))
    # the factory outlives a shape: a direct disjunction first, then an inverse one (and the other way round) on one factory
    SH = [KINDS[2], KINDS[3]]
    for first in (False, True):
        a = su.run(SH, [3, 2], 5, first, False, False)
        b = su.run(SH, [3, 2], 5, not first, False, False, shared=a["shared"])
        runs += 2
        counts_seen["direction"] += 1
        if "result" in b and isinstance(b["result"], list) and len(b["result"]) == 1 and isinstance(b["result"][0], AbsObj):
            f = b["result"][0].fields
            ser = f.get("_serializer_object")
            sdir = ser.get("is_inverse") if isinstance(ser, dict) else None
            if f.get("_is_inverse") is not (not first) or sdir is not (not first):
                fails["direction"] = fails["direction"] or (
                    "a %s disjunction built after a %s one on the same strategy object: the constraint has is_inverse=%s and will be "
                    "printed by the %s serializer" % ("direct" if first else "inverse", "inverse" if first else "direct",
                                                      f.get("_is_inverse"), {True: "inverse", False: "direct"}.get(sdir, "unset")))
        elif "raised" in b:
            fails["no-crash"] = fails["no-crash"] or "second merge on one strategy object raises %s" % b["raised"]
    texts = {
        "no-crash": "no combination of node kinds among the values of a property makes the merge stage raise",
        "one-per-key": "exactly one constraint comes out for one (direction, property, non-literal) key",
        "direction": "constraint and serializer keep the direction of the candidates",
        "property": "the constraint is about the candidates' property",
        "or-scope": "a disjunction appears only when disjunctions are enabled, over kinds of the input, with the choice serializer",
        "figures": "the constraint reports the figures of one of its candidates (or the IRI+BNode sum of the merged node kind)",
        "coverage": "in data-consistent inputs the surviving constraint stands for every instance that has a non-literal value",
        "order-free": "with untied counts the outcome does not depend on the order of the candidates",
        "cardinality": "an IRI+BNode merge keeps the common exact cardinality of its halves and falls back to + when they differ",
    }
    obs = []
    for k, why in fails.items():
        if which is not None and k not in which:
            continue
        obs.append(Ob(clause, "R-TABLE", "R-TABLE|merge|%s" % k, su.entry.loc(), why is None,
                      "%s (%d abstract runs)" % (texts[k], counts_seen[k]) if why is None else
                      "merge stage, invariant '%s' (%s) fails: %s" % (k, texts[k], why)))
    return obs, runs
