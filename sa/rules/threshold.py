"""Rules about the acceptance threshold (C02, C12): R-FLOW sinks, R-CMP operator / polarity,
R-PLUMB forwarding, R-LOOP totality of the candidate loops, R-ORDER filter-before-grouping."""
import ast
from ..core import walk_own, norm, AnalysisError, parent_map
from ..resolve import bind_args
from ..report import Ob

SRC = ("shexer.shaper:Shaper.shex_graph", "acceptance_threshold")
FREQ = "shexer.core.shexing.strategy.abstract_shexing_strategy:AbstractShexingStrategy._compute_frequency"
SELECT = "shexer.core.shexing.strategy.abstract_shexing_strategy:AbstractShexingStrategy._select_valid_statements_of_shape"


class ThresholdFacts:
    def __init__(self, ctx):
        self.ctx = ctx
        g = ctx.flow
        self.src = g.param(*SRC)
        self.T = g.flows([self.src])
        p = ctx.p
        shex = p.func(SRC[0])
        # validation functions = the ones called in the validation prefix of shex_graph
        from ..props.c20 import validation_prefix
        self.validators = set()
        for st in validation_prefix(shex, ctx):
            cs = ctx.r.site_of.get(id(st.value))
            for t in (cs.targets if cs else []):
                self.validators.add(t.qual)
        self.compares = [(e, f) for e, f in g.compares if self._operand_tainted(e)]
        self.filters = [(e, f) for e, f in self.compares if f.qual not in self.validators]
        self.range_checks = [(e, f) for e, f in self.compares if f.qual in self.validators]
        self.tainted_funcs = {}
        for n in self.T:
            if n[0] == "v" and n[1] in p.funcs:
                self.tainted_funcs.setdefault(n[1], set()).add(n[2])

    def _operand_tainted(self, cmp):
        return any(("e", id(x)) in self.T for x in [cmp.left] + list(cmp.comparators))

    def is_t(self, e):
        return ("e", id(e)) in self.T


def comparator_obligations(ctx, tf, clause):
    """Each filter site is `frequency >= threshold` (or mirrored), frequency being directly the result of
    _compute_frequency; the test guards the only Statement construction of its loop nest."""
    obs = []
    g, p = ctx.flow, ctx.p
    freq_ret = g.ret(p.func(FREQ))
    stmt_cls = p.find_class("Statement")
    for e, f in tf.filters:
        key = "R-CMP|threshold|%s|%s" % (f.short, f.key(e))
        if len(e.ops) != 1:
            obs.append(Ob(clause, "R-CMP", key, f.loc(e), False, "chained comparison on the threshold: %s" % norm(e)))
            continue
        op, l, r = e.ops[0], e.left, e.comparators[0]
        if tf.is_t(r) and not tf.is_t(l):
            ok_op, other, thr = isinstance(op, ast.GtE), l, r
        elif tf.is_t(l) and not tf.is_t(r):
            ok_op, other, thr = isinstance(op, ast.LtE), r, l
        else:
            ok_op, other, thr = False, l, r
        msgs = []
        if not ok_op:
            msgs.append("operator/polarity is `%s`, expected `frequency >= threshold` (boundary kept, threshold on the smaller-or-equal side)" % norm(e))
        # the threshold operand is the parameter itself (no arithmetic on it)
        if not isinstance(thr, ast.Name):
            msgs.append("threshold operand `%s` is not the plain parameter" % norm(thr))
        # the other operand is, by copy edges only, the result of _compute_frequency
        back = g.back([g.enode(other)], labels=("copy",))
        if freq_ret not in back or not isinstance(other, ast.Name):
            msgs.append("compared quantity `%s` is not directly the result of _compute_frequency" % norm(other))
        # guard structure: the comparison is the test of an `if` whose body constructs the statement
        pm = parent_map(f.node)
        par = pm.get(e)
        guard_form = False
        if isinstance(par, ast.UnaryOp) and isinstance(par.op, ast.Not) and isinstance(pm.get(par), ast.If) and pm[par].test is par \
                and not pm[par].orelse and pm[par].body and isinstance(pm[par].body[-1], ast.Continue):
            # `if not frequency >= threshold: continue` followed by the construction: the guard form of the same filter
            guard = pm[par]
            blk = next((getattr(pm[guard], fld) for fld in ("body", "orelse") if guard in getattr(pm[guard], fld, [])), None)
            rest = blk[blk.index(guard) + 1:] if blk else []
            built_after = [n for s_ in rest for n in ast.walk(s_) if isinstance(n, ast.Call) and (cs := ctx.r.site_of.get(id(n))) is not None
                           and cs.kind == "ctor" and cs.recv_types is stmt_cls]
            guard_form = True
            if len(built_after) != 1 or len(guard.body) != 1:
                msgs.append("the statements after the guard `%s` do not contain exactly one Statement(...) construction" % norm(par))
            in_body = built_after
            par = guard
        if not guard_form and (not isinstance(par, ast.If) or par.test is not e):
            msgs.append("comparison is not the test of an if statement")
        else:
            if not guard_form:
                built = [n for n in ast.walk(par) if isinstance(n, ast.Call) and (cs := ctx.r.site_of.get(id(n))) is not None
                         and cs.kind == "ctor" and cs.recv_types is stmt_cls]
                in_body = [n for s in par.body for n in ast.walk(s) if n in built]
                if len(in_body) != 1 or par.orelse:
                    msgs.append("the guarded arm does not contain exactly one Statement(...) construction (or has an else arm)")
            # no other Statement construction in the enclosing loop nest
            # the candidate loop nest: the loop the filter sits in, and outwards as long as a loop is the only statement of the
            # loop around it (the class loop of a caller the nest was written into is not part of it)
            loop = par
            top = None
            while loop in pm:
                loop = pm[loop]
                if isinstance(loop, (ast.For, ast.While)):
                    top = loop
                    break
            while top is not None and isinstance(pm.get(top), (ast.For, ast.While)) and pm[top].body == [top]:
                top = pm[top]
            if top is None:
                msgs.append("filter is not inside a candidate loop")
            else:
                others = [n for n in ast.walk(top) if isinstance(n, ast.Call) and (cs := ctx.r.site_of.get(id(n))) is not None
                          and cs.kind == "ctor" and cs.recv_types is stmt_cls and n not in in_body]
                if others:
                    msgs.append("another Statement(...) construction in the same loop nest bypasses the filter (%s)" % f.loc(others[0]))
                bad = [n for n in ast.walk(top) if (isinstance(n, (ast.Break, ast.Continue, ast.Return)) and not (guard_form and n is par.body[-1])) or
                       (isinstance(n, ast.If) and n is not par)]
                if bad:
                    msgs.append("candidate loop nest contains %s at %s: some candidate may never be compared" % (
                        type(bad[0]).__name__.lower(), f.loc(bad[0])))
        obs.append(Ob(clause, "R-CMP", key, f.loc(e), not msgs,
                      "filter `%s` keeps exactly the candidates at or above the threshold" % norm(e) if not msgs else "; ".join(msgs)))
    return obs


def _filter_in(test, filter_ids):
    """(found, negated): the test is a filter comparison, possibly under `not`."""
    neg = False
    while isinstance(test, ast.UnaryOp) and isinstance(test.op, ast.Not):
        test, neg = test.operand, not neg
    return id(test) in filter_ids, neg


def _site_guarded(f, node, filter_ids):
    """The construction site itself is under a filter: inside the arm of `if <filter>:`, or after a guard
    `if not <filter>: continue` of the same loop body (the site of another loop nest in the same function is not)."""
    pm = parent_map(f.node)
    cur = node
    while cur in pm:
        par = pm[cur]
        if isinstance(par, ast.If):
            found, neg = _filter_in(par.test, filter_ids)
            if found and ((not neg and any(cur is s for s in par.body)) or (neg and any(cur is s for s in par.orelse))):
                return True
        for field in ("body", "orelse"):
            blk = getattr(par, field, None)
            if isinstance(blk, list) and any(cur is s for s in blk):
                i = [k for k, s in enumerate(blk) if s is cur][0]
                for prev in blk[:i]:
                    if isinstance(prev, ast.If) and not prev.orelse and prev.body and isinstance(prev.body[-1], (ast.Continue, ast.Return, ast.Raise)):
                        found, neg = _filter_in(prev.test, filter_ids)
                        if found and neg:
                            return True
        cur = par
    return False


def every_statement_site_filtered(ctx, tf, clause):
    """Every construction of a candidate Statement from the class profile sits under a threshold filter."""
    obs = []
    p, r = ctx.p, ctx.r
    stmt_cls = p.find_class("Statement")
    filt_funcs = {f.qual for _, f in tf.filters}
    n = 0
    for cs in r.callsites:
        if cs.kind == "ctor" and cs.recv_types is stmt_cls and ctx.reachable(cs.func):
            # candidate sites = those inside a function that iterates the class profile
            txt = ast.unparse(cs.func.node)
            if "_class_profile_dict" not in txt:
                continue
            n += 1
            ok = cs.func.qual in filt_funcs and _site_guarded(cs.func, cs.node, {id(e) for e, _ in tf.filters})
            obs.append(Ob(clause, "R-CMP", "R-CMP|candidate-site|%s" % cs.func.short, cs.func.loc(cs.node), ok,
                          "candidate statements built in %s are filtered by the threshold" % cs.func.short if ok else
                          "%s builds candidate statements from the class profile without comparing with the threshold" % cs.func.short))
    return obs, n


def sink_obligations(ctx, tf, clause):
    """The threshold has no use besides the range check and the filters."""
    obs = []
    g, p = ctx.flow, ctx.p
    allowed_tests = {id(e) for e, _ in tf.compares}
    for test, f, owner in g.tests:
        if g.expr_tainted(test, tf.T):
            inner = [n for n in ast.walk(test) if isinstance(n, ast.Compare) and id(n) in allowed_tests]
            is_filter_or_range = bool(inner) and (f.qual in tf.validators or _filter_in(test, {id(e) for e, _ in tf.filters})[0])
            if is_filter_or_range:
                continue
            # memo-guard idiom: a test in shex_graph that only decides whether a stage is (re)launched
            if f.qual == SRC[0] and isinstance(owner, ast.If) and _only_launches(owner):
                obs.append(Ob(clause, "R-FLOW", "R-FLOW|threshold-control|%s|%s" % (f.short, f.key(test)[:60]), f.loc(test), True,
                              "threshold takes part in a memo guard that only (re)launches a stage"))
                continue
            obs.append(Ob(clause, "R-FLOW", "R-FLOW|threshold-control|%s|%s" % (f.short, f.key(test)[:60]), f.loc(test), False,
                          "the threshold influences control flow at `%s` in %s, which is neither the range check nor a "
                          "candidate filter" % (norm(test)[:60], f.short)))
    for k, (e, f) in g.expr_index.items():
        if isinstance(e, (ast.BinOp, ast.AugAssign)) and ("e", k) in tf.T and f.qual not in tf.validators:
            if any(("e", id(x)) in tf.T for x in (getattr(e, "left", None), getattr(e, "right", None)) if x is not None):
                obs.append(Ob(clause, "R-FLOW", "R-FLOW|threshold-arithmetic|%s|%s" % (f.short, f.key(e)[:60]), f.loc(e), False,
                              "arithmetic on the threshold: `%s`" % norm(e)[:60]))
    stmt_like = {p.find_class("Statement").qual, p.find_class("Shape").qual, p.find_class("FixedPropChoiceStatement").qual}
    for e, f in g.calls:
        cs = ctx.r.site_of.get(id(e))
        if cs is not None and cs.kind == "ctor" and cs.recv_types.qual in stmt_like:
            def value_tainted(x):
                """the value of x depends on the threshold: x itself, or a part of it - but not the arguments of a call of a
                package function inside it (what such a call returns is followed through the callee: its result node is x's)"""
                if ("e", id(x)) in tf.T:
                    return True
                if isinstance(x, ast.Call):
                    inner = ctx.r.site_of.get(id(x))
                    if inner is not None and inner.targets and inner.kind in ("func", "self", "typed", "static", "slot", "ctor"):
                        return False
                return any(value_tainted(c) for c in ast.iter_child_nodes(x) if isinstance(c, ast.expr))
            for a in list(e.args) + [k.value for k in e.keywords]:
                if value_tainted(a):
                    obs.append(Ob(clause, "R-FLOW", "R-FLOW|threshold-into-model|%s|%s" % (f.short, f.key(a)[:40]), f.loc(e), False,
                                  "a %s field is computed from the threshold (`%s`)" % (cs.recv_types.name, norm(a)[:40])))
    if not obs or all(o.ok for o in obs):
        obs.append(Ob(clause, "R-FLOW", "R-FLOW|threshold-sinks", p.func(SRC[0]).loc(), True,
                      "threshold reaches %d range-check comparisons, %d filter comparisons and nothing else (%d functions see it)" % (
                          len(tf.range_checks), len(tf.filters), len(tf.tainted_funcs))))
    return obs


def _only_launches(ifnode):
    for st in ifnode.body:
        if not (isinstance(st, ast.Expr) and isinstance(st.value, ast.Call) and isinstance(st.value.func, ast.Attribute)
                and st.value.func.attr.startswith("_launch_")):
            return False
    return not ifnode.orelse


def forwarding_obligations(ctx, tf, clause):
    """A function that has a threshold parameter receives it, at every call site, from a value
    that flows from the API argument (no site relies on a default)."""
    obs = []
    g, p, r = ctx.flow, ctx.p, ctx.r
    # every parameter the threshold reaches, plus every parameter *named* like the threshold in a
    # function that compares it: a parameter that is never supplied is reached by no flow at all
    cand = {(q, prm) for q, prms in tf.tainted_funcs.items() for prm in prms if prm in p.funcs[q].bound_params}
    for f in p.funcs.values():
        for prm in f.bound_params:
            if "threshold" in prm.lower():
                cand.add((f.qual, prm))
    for q, prm in sorted(cand):
        if q == SRC[0]:
            continue
        f = p.funcs[q]
        if not ctx.reachable(f):
            continue
        for cs in r.callers_of.get(q, []):
            if not ctx.reachable(cs.func):
                continue
            b = bind_args(cs.node, f)
            arg = b["bound"].get(prm)
            key = "R-PLUMB|threshold|%s->%s(%s)" % (cs.func.short, f.short, prm)
            if arg is None:
                obs.append(Ob(clause, "R-PLUMB", key, cs.func.loc(cs.node), False,
                              "%s calls %s without `%s`: the callee falls back to its default %s" % (
                                  cs.func.short, f.short, prm, norm(f.defaults[prm]) if prm in f.defaults else "?")))
            else:
                ok = g.expr_tainted(arg, tf.T, deep=False)
                obs.append(Ob(clause, "R-PLUMB", key, cs.func.loc(cs.node), ok,
                              "`%s` is supplied from the API argument" % prm if ok else
                              "`%s=%s` does not originate from shex_graph(acceptance_threshold)" % (prm, norm(arg)[:40])))
    return obs


def order_obligations(ctx, tf, clause):
    """Filtering precedes sorting / selection / merging / empty-shape removal, and the selection
    stage never sees the threshold."""
    obs = []
    p, r = ctx.p, ctx.r
    sc = p.func("shexer.core.shexing.class_shexer:ClassShexer.shex_classes")
    body = [s for s in sc.node.body if isinstance(s, ast.Expr) and isinstance(s.value, ast.Call)]
    idx_t, later = None, []
    for i, st in enumerate(body):
        if any(tf.is_t(a) for a in list(st.value.args) + [k.value for k in st.value.keywords]):
            idx_t = i if idx_t is None else idx_t
    for i, st in enumerate(body):
        name = st.value.func.attr if isinstance(st.value.func, ast.Attribute) else ""
        if name in ("_sort_shapes", "_set_valid_constraints_of_shapes", "_clean_empty_shapes"):
            later.append((i, name))
    if idx_t is None or len(later) < 3:
        raise AnalysisError("stage sequence of ClassShexer.shex_classes not recognised")
    ok = all(idx_t < i for i, _ in later)
    obs.append(Ob(clause, "R-ORDER", "R-ORDER|filter-before-grouping|ClassShexer.shex_classes", sc.loc(), ok,
                  "the stage that receives the threshold runs before %s" % ", ".join(n for _, n in later) if ok else
                  "a grouping/cleaning stage runs before the threshold filter"))
    sel_reach = r.reach_from([SELECT, "shexer.core.shexing.class_shexer:ClassShexer._clean_empty_shapes",
                              "shexer.core.shexing.class_shexer:ClassShexer._sort_shapes"])
    seen = sorted(q for q in sel_reach if q in tf.tainted_funcs)
    obs.append(Ob(clause, "R-ORDER", "R-ORDER|threshold-not-in-selection", p.func(SELECT).loc(), not seen,
                  "no function of the selection/merging/cleaning stages receives the threshold" if not seen else
                  "the threshold reaches the selection/merging stage: %s" % ", ".join(s.split(":")[1] for s in seen)))
    return obs
