"""R-LOOP (emission totality) and normaliser agreement between the two serialisers."""
import ast
from ..core import walk_own, norm, AnalysisError
from ..report import Ob

EMISSION_LOOPS = {
    "shexer.io.shacl.formater.shacl_serializer:ShaclSerializer._add_shapes": 1,
    "shexer.io.shacl.formater.shacl_serializer:ShaclSerializer._add_shape_constraints": 1,
    "shexer.io.shex.formater.shex_serializer:ShexSerializer.serialize_shapes": 1,
    "shexer.io.shex.formater.shex_serializer:ShexSerializer._serialize_shape_rules": 1,
}


def emission_loops_total(ctx, clause):
    """Every loop that walks shapes / statements in a serialiser emits for each element:
    no if / continue / break / return / try inside the loop, no filter in comprehensions."""
    obs, n = [], 0
    for q, minimum in EMISSION_LOOPS.items():
        f = ctx.p.func(q)
        loops = [x for x in walk_own(f.node) if isinstance(x, (ast.For, ast.While))]
        outer = [l for l in loops if not any(l is not m and any(l is y for y in ast.walk(m)) for m in loops)]
        if len(outer) < minimum:
            raise AnalysisError("emission loop anchor: %s has %d loops, expected at least %d" % (q, len(outer), minimum))
        for l in outer:
            n += 1
            bad = [y for y in ast.walk(l) if isinstance(y, (ast.If, ast.Continue, ast.Break, ast.Return, ast.Try, ast.IfExp))
                   and y is not l]
            key = "R-LOOP|emission|%s|%s" % (f.short, f.key(l.iter if isinstance(l, ast.For) else l.test)[:50])
            obs.append(Ob(clause, "R-LOOP", key, f.loc(l), not bad,
                          "emission loop over `%s` is total" % norm(l.iter if isinstance(l, ast.For) else l.test)[:50] if not bad else
                          "emission loop over `%s` contains %s at %s: some element may not be emitted" % (
                              norm(l.iter)[:40] if isinstance(l, ast.For) else "?", type(bad[0]).__name__, f.loc(bad[0]))))
        for c in walk_own(f.node):
            if isinstance(c, (ast.ListComp, ast.GeneratorExp, ast.SetComp)) and any(g.ifs for g in c.generators):
                obs.append(Ob(clause, "R-LOOP", "R-LOOP|emission-filter|%s|%s" % (f.short, f.key(c)[:50]), f.loc(c), False,
                              "comprehension `%s` filters the elements to emit" % norm(c)[:50]))
    return obs, n


def _slice_transformers(ctx, src_nodes, target_node):
    reached, transformers, _ = ctx.flow.provenance(target_node, src_nodes)
    if not reached:
        return None
    return {t for t in transformers if t not in ("str",)}


def instantiation_normalisers_agree(ctx, clause):
    """The operand compared with a statement's property to recognise the instantiation property must
    be the same function of Shaper._instantiation_property in the ShExC statement serialiser and in
    the SHACL serialiser (otherwise one output shows a value set and the other a datatype)."""
    g, p = ctx.flow, ctx.p
    shaper = p.find_class("Shaper")
    src = g.field_nodes(shaper, "_instantiation_property")
    sites = {"ShExC": "BaseStatementSerializer", "SHACL": "ShaclSerializer"}
    found = {}
    missing = []
    for label, cname in sites.items():
        c = p.find_class(cname)
        ts, where = None, None
        for f in c.methods.values():
            for x in walk_own(f.node):
                if not (isinstance(x, ast.Compare) and isinstance(x.ops[0], (ast.Eq, ast.NotEq))):
                    continue
                for operand in [x.left] + list(x.comparators):
                    t = _slice_transformers(ctx, src, g.enode(operand))
                    if t is not None:
                        ts = t if ts is None else ts | t
                        where = where or f
        if ts is None:
            missing.append((label, c))
        else:
            found[label] = (where, ts)
    if missing:
        label, c = missing[0]
        return [Ob(clause, "R-FLOW", "R-FLOW|instantiation-property-normalisers|ShExC-vs-SHACL", c.module.relpath + ":%d" % c.node.lineno, False,
                   "the %s serialiser (%s) never compares a statement's property with the configured instantiation property: which "
                   "constraint is the typing constraint (value set / sh:in) is decided by other means than in the other output" % (label, c.name))]
    a, b = found["ShExC"][1], found["SHACL"][1]
    ok = a == b
    f = found["SHACL"][0]
    return [Ob(clause, "R-FLOW", "R-FLOW|instantiation-property-normalisers|ShExC-vs-SHACL", f.loc(), ok,
               "both serialisers compare statement properties with the same function of the configured instantiation property"
               if ok else "ShExC compares against %s(instantiation property) but SHACL against %s(...): the two outputs "
                          "recognise different spellings of the option" % (sorted(a) or ["id"], sorted(b) or ["id"]))]


def every_yielded_item_is_kept(ctx, clause, funcqual, what):
    """A collecting loop `for x in <producer>: <list>.append(x)` keeps every item: no continue / break / return in the loop, and
    the append is not under a condition.  Which items would be skipped otherwise depends on the order in which they arrive."""
    f = ctx.p.func(funcqual)
    obs = []
    loops_ = [x for x in walk_own(f.node) if isinstance(x, ast.For)]
    # the loop-free spellings keep every item by construction: <list>.extend(<producer call>), <list> += list(<producer call>),
    # <list> = list(<producer call>) / [x for x in <producer call>] without a filter
    whole = [x for x in walk_own(f.node) if isinstance(x, ast.Call) and isinstance(x.func, ast.Attribute) and x.func.attr in ("extend", "update")
             and len(x.args) == 1 and isinstance(x.args[0], ast.Call)]
    whole += [x for x in walk_own(f.node) if isinstance(x, (ast.Assign, ast.AugAssign)) and (
        isinstance(x.value, ast.Call) and isinstance(x.value.func, ast.Name) and x.value.func.id in ("list", "tuple") and len(x.value.args) == 1
        and isinstance(x.value.args[0], ast.Call)
        or isinstance(x.value, ast.ListComp) and len(x.value.generators) == 1 and not x.value.generators[0].ifs
        and isinstance(x.value.generators[0].iter, ast.Call) and isinstance(x.value.elt, ast.Name)
        and isinstance(x.value.generators[0].target, ast.Name) and x.value.elt.id == x.value.generators[0].target.id)]
    if not loops_ and whole:
        return [Ob(clause, "R-LOOP", "R-LOOP|keeps-every-item|%s" % f.short, f.loc(whole[0]), True,
                   "%s keeps every %s it is handed (the whole producer is taken over at once)" % (f.short, what))]
    if not loops_:
        raise AnalysisError("collecting loop not found in %s" % funcqual)
    for lp in loops_:
        esc = [y for y in ast.walk(lp) if isinstance(y, (ast.Continue, ast.Break, ast.Return))]
        appends = [s for s in lp.body if isinstance(s, ast.Expr) and isinstance(s.value, ast.Call) and isinstance(s.value.func, ast.Attribute)
                   and s.value.func.attr in ("append", "add") and any(isinstance(a, ast.Name) and isinstance(lp.target, ast.Name) and a.id == lp.target.id
                                                                       for a in s.value.args)]
        # a store into a dictionary keeps the item too, unless it is keyed by the shape label (labels are not injective:
        # two classes with the same local name share one)
        stores = [s for s in lp.body if isinstance(s, ast.Assign) and len(s.targets) == 1 and isinstance(s.targets[0], ast.Subscript)
                  and isinstance(s.value, ast.Name) and isinstance(lp.target, ast.Name) and s.value.id == lp.target.id]
        by_label = [s for s in stores if isinstance(s.targets[0].slice, ast.Attribute) and s.targets[0].slice.attr == "name"]
        ok = not esc and (len(appends) >= 1 or (stores and not by_label))
        obs.append(Ob(clause, "R-LOOP", "R-LOOP|keeps-every-item|%s" % f.short, f.loc(lp), ok,
                      "%s keeps every %s it is handed" % (f.short, what) if ok else
                      "%s no longer keeps every %s: %s - which ones are dropped depends on the order in which they are produced" % (
                          f.short, what, ("`%s` inside the loop" % type(esc[0]).__name__.lower()) if esc else
                          ("it is stored under its label (`%s`), which two different classes can share" % norm(by_label[0])[:50] if by_label else
                           "the item is not appended unconditionally"))))
    return obs


def one_shape_per_class(ctx, clause):
    """The shexing strategies turn the class profile into shapes with one outer loop over the classes: that loop yields a
    shape in every iteration - no continue / break / return at its own level and a yield that is not under a condition -
    so a class of the profile (with or without instances) is never skipped."""
    obs = []
    for c in ctx.p.classes.values():
        m = c.methods.get("_yield_base_shapes_direction_aware")
        if m is None or is_stub(m):
            continue
        outer = [s for s in m.node.body if isinstance(s, ast.For)]
        if len(outer) != 1:
            raise AnalysisError("outer class loop of %s not found" % m.short)
        lp = outer[0]

        def own_level(stmts):
            for st in stmts:
                yield st
                if isinstance(st, (ast.If, ast.With, ast.Try)):
                    for blk in (getattr(st, "body", []), getattr(st, "orelse", []), getattr(st, "finalbody", [])):
                        yield from own_level(blk)
                    for h in getattr(st, "handlers", []):
                        yield from own_level(h.body)
        esc = [st for st in own_level(lp.body) if isinstance(st, (ast.Continue, ast.Break, ast.Return))]
        top_yields = [st for st in lp.body if isinstance(st, ast.Expr) and isinstance(st.value, ast.Yield)]
        ok = not esc and len(top_yields) == 1
        obs.append(Ob(clause, "R-LOOP", "R-LOOP|one-shape-per-class|%s" % m.short, m.loc(lp), ok,
                      "%s yields one shape for every class of the profile" % m.short if ok else
                      "%s can skip a class of the profile (%s): a selected class gets no shape, or a requested class without instances "
                      "loses its empty shape" % (m.short, ("`%s` at the level of the class loop" % type(esc[0]).__name__.lower()) if esc else
                                                 "the yield is not unconditional")))
    return obs


def is_stub(m):
    body = [s for s in m.node.body if not (isinstance(s, ast.Expr) and isinstance(s.value, ast.Constant))]
    return len(body) == 1 and isinstance(body[0], ast.Raise)
