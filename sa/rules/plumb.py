"""R-PLUMB (generic): a function that has a parameter carrying option o receives, at every API-reachable call
site, a value that flows from o - no call site relies on the parameter's default."""
import ast
from ..core import norm
from ..resolve import bind_args
from ..report import Ob


def forwarding(ctx, clause, label, param_pred, source_nodes, skip_modules=(), skip_funcs=()):
    p, r, g = ctx.p, ctx.r, ctx.flow
    T = g.flows(source_nodes)
    obs, n = [], 0
    for f in p.funcs.values():
        if f.module.name.startswith(tuple(skip_modules)) or f.qual in skip_funcs:
            continue
        for prm in f.bound_params:
            if not param_pred(prm):
                continue
            for cs in r.callers_of.get(f.qual, []):
                if not ctx.reachable(cs.func) or cs.kind == "byname":
                    continue
                n += 1
                b = bind_args(cs.node, f)
                arg = b["bound"].get(prm)
                key = "R-PLUMB|%s|%s->%s" % (label, cs.func.short, f.short)
                # an argument read from a field of another object (`self._owner._field`) is identified by that field, not by
                # the function the read happens to sit in: the finding is about what the owner was given
                if isinstance(arg, ast.Attribute) and isinstance(arg.value, ast.Attribute):
                    owners = sorted(t[1].split(":")[-1] for t in r.type_of(arg.value, cs.func) if t[0] == "inst")
                    if len(owners) == 1:
                        key = "R-PLUMB|%s|via %s.%s->%s" % (label, owners[0], arg.attr, f.short)
                if arg is None:
                    obs.append(Ob(clause, "R-PLUMB", key, cs.func.loc(cs.node), False,
                                  "%s calls %s without `%s`: the callee works with its default %s whatever the user configured" % (
                                      cs.func.short, f.short, prm, norm(f.defaults[prm]) if prm in f.defaults else "?")))
                else:
                    ok = g.expr_tainted(arg, T, deep=False)
                    obs.append(Ob(clause, "R-PLUMB", key, cs.func.loc(cs.node), ok,
                                  "`%s` is supplied from the configured %s" % (prm, label) if ok else
                                  "`%s=%s` does not originate from the configured %s" % (prm, norm(arg)[:40], label)))
    return obs, n


# call sites that legitimately do not forward a constructor option to a parameter of the same name (confirmed by reading)
OPTION_SITE_EXCEPTIONS = {
    "target_classes|get_instance_tracker->InstanceTracker.__init__":
        "the tracker receives the classes converted to model IRIs (a derived value, not the raw list)",
    "raw_graph|MultiBigTtlTriplesYielder._constructor_file_yielder->BigTtlTriplesYielder.__init__": "per-file reader of a list of files: there is no raw graph",
    "raw_graph|MultiNtTriplesYielder._constructor_file_yielder->NtTriplesYielder.__init__": "per-file reader of a list of files: there is no raw graph",
    "raw_graph|MultiRdfLibTripleYielder._constructor_file_yielder->RdflibParserTripleYielder.__init__": "per-file reader of a list of files: there is no raw graph",
    "raw_graph|MultiTsvNtTriplesYielder._constructor_file_yielder->TsvNtTriplesYielder.__init__": "per-file reader of a list of files: there is no raw graph",
    "raw_graph|EndpointSGraph.__init__->RdflibSgraph.__init__": "the endpoint graph keeps a local cache graph of its own, not the user's input",
    "rdflib_graph|RdflibParserTripleYielder.__init__->RdflibTripleYielder.__init__": "the parsing reader builds its graph lazily (None until parsed)",
    "rdflib_graph|RdflibParserTripleYielder._get_tmp_graph->RdflibParserTripleYielder._parse_compressed_files": "the freshly created graph being filled",
    "rdflib_graph|EndpointSGraph.__init__->RdflibSgraph.__init__": "the endpoint graph keeps a local cache graph of its own",
    "rdflib_graph|_get_adequate_sgraph->RdflibSgraph.__init__": "shape-map selection over an in-memory rdflib graph is not supported by the factory "
                                                               "(the C20 source-coverage finding records the late failure)",
    "namespaces_dict|AbstractShexingStrategy._group_constraints_with_same_prop_and_obj->MergeableConstraints.__init__":
        "groups of equal (property, object): merge_group - the only reader of the dictionary - is never called on them",
    "namespaces_dict|MultiRdfLibTripleYielder._constructor_file_yielder->RdflibParserTripleYielder.__init__":
        "per-file reader: prefixes of the files are integrated by the multi-file reader itself",
    "instantiation_property|get_uml_serializer->UMLSerializer.__init__": "UML output is outside the properties",
    "namespaces_to_ignore|MultiBigTtlTriplesYielder.__init__->MultifileBaseTripleYielder.__init__": "the filter is a wrapper applied by the factory around the reader",
    "namespaces_to_ignore|MultiNtTriplesYielder.__init__->MultifileBaseTripleYielder.__init__": "the filter is a wrapper applied by the factory around the reader",
    "namespaces_to_ignore|MultiRdfLibTripleYielder.__init__->MultifileBaseTripleYielder.__init__": "the filter is a wrapper applied by the factory around the reader",
    "namespaces_to_ignore|MultiTsvNtTriplesYielder.__init__->MultifileBaseTripleYielder.__init__": "the filter is a wrapper applied by the factory around the reader",
    "namespaces_to_ignore|Shaper._build_instance_tracker->get_instance_tracker": "class membership is read from the full graph (C16): the tracker must not be filtered",
    "namespaces_to_ignore|get_instance_tracker->get_triple_yielder": "forwards its own parameter, which the Shaper leaves at None on purpose (C16)",
    "all_classes_mode|get_shape_map_if_needed->produce_shape_map_according_to_input": "only called with an explicit shape map: the all-classes branch is not involved",
    "shape_map_format|get_class_profiler->get_triple_yielder": "the shape map is already built and passed as an object",
    "shape_map_format|get_instance_tracker->get_triple_yielder": "the shape map is already built and passed as an object",
    "shape_map_format|get_triple_yielder->_yielder_for_url_endpoint": "forwards its own parameter (see above)",
    "compression_mode|_yielder_for_url_input->MultiRdfLibTripleYielder.__init__": "remote sources are never compressed (rejected by the constructor)",
    "compression_mode|MultiRdfLibTripleYielder.__init__->MultifileBaseTripleYielder.__init__": "the rdflib multi-file reader hands the mode to the per-file readers itself",
    "compression_mode|_yielder_for_url_input->RdflibParserTripleYielder.__init__": "remote sources are never compressed (rejected by the constructor)",
}


def all_options(ctx, clause, api="shexer.shaper:Shaper.__init__", skip=()):
    """Same-name convention of the package: a function that has a parameter named like a constructor option carries that
    option.  Every API-reachable call site passes it explicitly, with a value that is (a copy of) the configured one."""
    g, p = ctx.flow, ctx.p
    init = p.func(api)
    obs, n = [], 0
    for opt in init.bound_params:
        if opt in skip:
            continue
        src = [g.param(init.qual, opt)]
        o, k = forwarding(ctx, clause, opt, lambda prm, opt=opt: prm == opt, src, skip_funcs={init.qual})
        n += k
        for x in o:
            tail = x.key.split("|", 1)[1]
            if not x.ok and tail in OPTION_SITE_EXCEPTIONS:
                x.ok = True
                x.msg = "frozen exception: " + OPTION_SITE_EXCEPTIONS[tail] + " [was: " + x.msg + "]"
        obs += o
    return obs, n


CROSS_OPTION_ALLOWED = {
    ("instances_cap", "limit_remote_instances"):
        "documented override: instances_cap, when given, replaces the deprecated limit_remote_instances for remote sources",
}


def no_cross_option_flow(ctx, clause, api="shexer.shaper:Shaper.__init__"):
    """A parameter named like constructor option A carries option A: no other option B flows into it (by copy).
    One option leaking into the channel of another makes B change what only A documents."""
    g, p, r = ctx.flow, ctx.p, ctx.r
    init = p.func(api)
    opts = list(init.bound_params)
    T = {o: g.flows([g.param(init.qual, o)], labels=("copy",)) for o in opts}
    obs, n, seen = [], 0, set()
    for f in p.funcs.values():
        if f is init:
            continue
        for prm in f.bound_params:
            if prm not in opts:
                continue
            for cs in r.callers_of.get(f.qual, []):
                if not ctx.reachable(cs.func) or cs.kind == "byname":
                    continue
                arg = bind_args(cs.node, f)["bound"].get(prm)
                if arg is None:
                    continue
                n += 1
                for o in opts:
                    if o != prm and g.expr_tainted(arg, T[o], deep=False):
                        key = "R-PLUMB|cross-option|%s->%s|%s->%s" % (o, prm, cs.func.short, f.short)
                        if key in seen:
                            continue
                        seen.add(key)
                        why = CROSS_OPTION_ALLOWED.get((o, prm))
                        obs.append(Ob(clause, "R-PLUMB", key, cs.func.loc(cs.node), why is not None,
                                      "option %s reaches parameter %s of %s: %s" % (o, prm, f.short, why) if why else
                                      "option %s flows into parameter `%s` of %s (call in %s, `%s`): the value configured for %s now "
                                      "also acts as %s" % (o, prm, f.short, cs.func.short, norm(arg)[:40], o, prm)))
    obs.append(Ob(clause, "R-PLUMB", "R-PLUMB|cross-option|scan", "shexer:0", True, "%d same-name argument sites examined for cross-option flows" % n))
    return obs, n


def exclusive_source(ctx, clause, option, api="shexer.shaper:Shaper.__init__"):
    """A parameter named <option> receives nothing but the user's <option> (or a default constant): no value that another
    component produced is routed into it.  For the graph sources this is what keeps the choice of reader - hence the order
    in which statements are seen - a function of the arguments alone."""
    g, p, r = ctx.flow, ctx.p, ctx.r
    init = p.func(api)
    pn = g.param(init.qual, option)
    obs, n = [], 0
    for f in p.funcs.values():
        if f is init or option not in f.bound_params:
            continue
        for cs in r.callers_of.get(f.qual, []):
            if not ctx.reachable(cs.func) or cs.kind == "byname":
                continue
            arg = bind_args(cs.node, f)["bound"].get(option)
            if arg is None:
                continue
            back = g.back([g.enode(arg)], labels=("copy",))
            if pn not in back:
                continue
            n += 1
            # anything kept in a field of another component that can flow (by copy) into the argument
            other = sorted("%s.%s" % (x[1].split(":")[-1], x[2]) for x in back if x[0] == "f" and not (x[1].endswith(":Shaper")))
            key = "R-PLUMB|exclusive-source|%s|%s->%s" % (option, cs.func.short, f.short)
            if any(o.key == key for o in obs):
                continue
            obs.append(Ob(clause, "R-PLUMB", key, cs.func.loc(cs.node), not other,
                          "`%s` of %s carries the user's %s only" % (option, f.short, option) if not other else
                          "`%s=%s` in %s can also carry a value taken from %s: the component that receives it no longer works from "
                          "what the user supplied as %s" % (option, norm(arg)[:40], cs.func.short, ", ".join(other[:3]), option)))
    return obs, n


def namespace_orientation(ctx, clause):
    """The package carries two dictionaries of opposite orientation: the user's namespaces_dict (namespace -> prefix) and
    its reversal (prefix -> namespace, the result of reverse_keys_and_values).  Nothing distinguishes them but what they are
    copied from, so the rule is about exactly that: no parameter or field may be a plain copy of both - a consumer that
    looks prefixes up finds none in a dictionary keyed by namespaces and silently leaves every prefixed name as it is."""
    from ..core import AnalysisError
    p, g = ctx.p, ctx.flow
    init = p.func("shexer.shaper:Shaper.__init__")
    rv = p.func("shexer.utils.dict:reverse_keys_and_values")
    n2p = g.flows([g.param("shexer.shaper:Shaper.__init__", "namespaces_dict")] + g.field_nodes(p.find_class("Shaper"), "_namespaces_dict"),
                  labels=("copy",))
    p2n = g.flows([g.ret(rv)], labels=("copy",))
    n_a = len([n for n in n2p if n[0] in ("v", "f")])
    n_b = len([n for n in p2n if n[0] in ("v", "f")])
    if n_a < 20 or n_b < 6:
        raise AnalysisError("namespace dictionaries: only %d / %d carriers found (expected at least 20 / 6)" % (n_a, n_b))
    obs = []
    for n in sorted((x for x in n2p & p2n if x[0] in ("v", "f")), key=str):
        f = p.funcs.get(n[1]) if n[0] == "v" else None
        obs.append(Ob(clause, "R-PLUMB", "R-PLUMB|namespace-orientation|%s" % g.describe(n), f.loc() if f is not None else init.loc(), False,
                      "%s receives the namespace->prefix dictionary at one call site and the reversed prefix->namespace dictionary at "
                      "another: one of them is looked up the wrong way round (prefixed names stay unexpanded, or IRIs unshortened)"
                      % g.describe(n)))
    obs.append(Ob(clause, "R-PLUMB", "R-PLUMB|namespace-orientation|all", init.loc(), True,
                  "%d carriers of the namespace->prefix dictionary and %d carriers of its reversal are disjoint" % (n_a, n_b)))
    return obs
