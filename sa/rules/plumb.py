"""R-PLUMB (generic): a function that has a parameter carrying option o receives, at every API-reachable call
site, a value that flows from o - no call site relies on the parameter's default."""
import ast
from ..core import norm
from ..resolve import bind_args
from ..report import Ob


def forwarding(ctx, clause, label, param_pred, source_nodes, skip_modules=(), skip_funcs=()):
    p, r, g = ctx.p, ctx.r, ctx.flow
    T = g.flows(source_nodes)
    obs, n = [], 0
    for f in p.funcs.values():
        if f.module.name.startswith(tuple(skip_modules)) or f.qual in skip_funcs:
            continue
        for prm in f.bound_params:
            if not param_pred(prm):
                continue
            for cs in r.callers_of.get(f.qual, []):
                if not ctx.reachable(cs.func) or cs.kind == "byname":
                    continue
                n += 1
                b = bind_args(cs.node, f)
                arg = b["bound"].get(prm)
                key = "R-PLUMB|%s|%s->%s" % (label, cs.func.short, f.short)
                if arg is None:
                    obs.append(Ob(clause, "R-PLUMB", key, cs.func.loc(cs.node), False,
                                  "%s calls %s without `%s`: the callee works with its default %s whatever the user configured" % (
                                      cs.func.short, f.short, prm, norm(f.defaults[prm]) if prm in f.defaults else "?")))
                else:
                    ok = g.expr_tainted(arg, T, deep=False)
                    obs.append(Ob(clause, "R-PLUMB", key, cs.func.loc(cs.node), ok,
                                  "`%s` is supplied from the configured %s" % (prm, label) if ok else
                                  "`%s=%s` does not originate from the configured %s" % (prm, norm(arg)[:40], label)))
    return obs, n
