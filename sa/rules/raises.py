"""R-RAISE: raise statements reachable after the input was accepted.
R-RET:   a value-returning function that can fall off its end returns None; the
         implicit None must not flow (copy edges) into a dereference."""
import ast
from ..core import walk_own, norm
from ..report import Ob
from .sig import is_abstract_stub

POST_PARSING_ROOTS = [
    "shexer.core.shexing.class_shexer:ClassShexer.shex_classes",
    "shexer.io.shex.formater.shex_serializer:ShexSerializer.serialize_shapes",
    "shexer.io.shacl.formater.shacl_serializer:ShaclSerializer.serialize_shapes",
    "shexer.core.profiling.class_profiler:ClassProfiler._build_class_profile",
    "shexer.core.profiling.class_profiler:ClassProfiler._clean_class_profile",
    "shexer.core.profiling.class_profiler:ClassProfiler._detect_example_features",
    "shexer.core.profiling.class_profiler:ClassProfiler._init_class_counts_and_shape_dict",
    "shexer.io.profile.formater.abstract_profile_serializer:AbstractProfileSerializer.get_string_representation",
    "shexer.io.profile.formater.abstract_profile_serializer:AbstractProfileSerializer.write_profile_to_file",
]


def _negates(while_test, if_test):
    """if_test is the syntactic negation of while_test (x != c  vs  x == c)."""
    if isinstance(while_test, ast.Compare) and isinstance(if_test, ast.Compare) and len(while_test.ops) == 1 \
            and len(if_test.ops) == 1 and ast.dump(while_test.left) == ast.dump(if_test.left) \
            and ast.dump(while_test.comparators[0]) == ast.dump(if_test.comparators[0]):
        pairs = {(ast.NotEq, ast.Eq), (ast.Eq, ast.NotEq), (ast.Lt, ast.GtE), (ast.GtE, ast.Lt), (ast.Gt, ast.LtE),
                 (ast.LtE, ast.Gt), (ast.IsNot, ast.Is), (ast.Is, ast.IsNot)}
        return (type(while_test.ops[0]), type(if_test.ops[0])) in pairs
    return False


def terminates(stmts):
    """Every path through the statement list ends in return/raise."""
    last_while = None
    for st in stmts:
        if isinstance(st, (ast.Return, ast.Raise)):
            return True
        if isinstance(st, ast.If):
            if st.orelse and terminates(st.body) and terminates(st.orelse):
                return True
            if last_while is not None and terminates(st.body) and _negates(last_while.test, st.test):
                return True
        if isinstance(st, ast.While):
            if isinstance(st.test, ast.Constant) and st.test.value is True and not _has_break(st):
                return True
            last_while = st if not _has_break(st) else None
            continue
        if isinstance(st, ast.Try):
            if terminates(st.body) and all(terminates(h.body) for h in st.handlers):
                return True
            if st.finalbody and terminates(st.finalbody):
                return True
        if isinstance(st, ast.With) and terminates(st.body):
            return True
        last_while = None
    return False


def _has_break(loop):
    for n in ast.walk(loop):
        if isinstance(n, ast.Break):
            return True
    return False


def deref_sites(ctx, tset):
    """Dereferences whose operand is an expression in tset: (node, Func, how)."""
    g = ctx.flow
    for e, f in g.attr_loads:
        if ("e", id(e.value)) in tset:
            yield e, f, "attribute access ." + e.attr
    for e, f in g.subscript_loads:
        if ("e", id(e.value)) in tset:
            yield e, f, "subscript"
    for e, f in g.calls:
        if isinstance(e.func, ast.Name) and e.func.id in ("len", "iter", "sorted", "list", "float", "int") and e.args \
                and ("e", id(e.args[0])) in tset:
            yield e, f, e.func.id + "()"
    for e, f in g.compares:
        for op, c in zip(e.ops, e.comparators):
            if isinstance(op, (ast.In, ast.NotIn)) and ("e", id(c)) in tset:
                yield e, f, "membership test"
    for k, (e, f) in g.expr_index.items():
        if isinstance(e, ast.BinOp) and not isinstance(e.op, ast.Mod) and (("e", id(e.left)) in tset or ("e", id(e.right)) in tset):
            yield e, f, "arithmetic"


def guarded_by_none_test(ctx, node, f, operand):
    """The dereference sits under `if <operand> is not None` / after `if <operand> is None: exit`
    of the same textual operand (cheap syntactic check within the function)."""
    txt = norm(operand)
    for n in walk_own(f.node):
        if isinstance(n, (ast.If, ast.IfExp)) and isinstance(n.test, ast.Compare) and len(n.test.ops) == 1 \
                and isinstance(n.test.comparators[0], ast.Constant) and n.test.comparators[0].value is None \
                and norm(n.test.left) == txt:
            return True
        if isinstance(n, ast.While) and isinstance(n.test, ast.Compare) and norm(n.test.left) == txt \
                and isinstance(n.test.comparators[0], ast.Constant) and n.test.comparators[0].value is None:
            return True
    return False


def check_implicit_none(ctx, clause="D-d"):
    obs = []
    g = ctx.flow
    cands = 0
    for f in ctx.p.funcs.values():
        if f.is_generator or is_abstract_stub(f):
            continue
        rets = [n for n in walk_own(f.node) if isinstance(n, ast.Return) and n.value is not None
                and not (isinstance(n.value, ast.Constant) and n.value.value is None)]
        if not rets or terminates(f.node.body):
            continue
        cands += 1
        tset = g.flows([g.ret(f)], labels=("copy",))
        bad = []
        for node, ff, how in deref_sites(ctx, tset):
            operand = node.value if isinstance(node, (ast.Attribute, ast.Subscript)) else (
                node.args[0] if isinstance(node, ast.Call) else node)
            if guarded_by_none_test(ctx, node, ff, operand):
                continue
            bad.append((node, ff, how))
        key = "R-RET|%s" % f.short
        if bad:
            node, ff, how = sorted(bad, key=lambda x: (x[1].qual, x[0].lineno))[0]
            obs.append(Ob(clause, "R-RET", key, f.loc(), False,
                          "%s can fall off its end (implicit None) and the result reaches %s at %s `%s` (%d such sites)" % (
                              f.short, how, ff.loc(node), norm(node)[:50], len(bad)),
                          detail={"sites": sorted({ff.loc(n) for n, ff, _ in bad})[:10]},
                          note=not ctx.reachable(f)))
        else:
            obs.append(Ob(clause, "R-RET", key, f.loc(), True,
                          "%s can fall off its end, but the implicit None never reaches a dereference" % f.short))
    return obs, cands


def check_raises(ctx, clause="D-d"):
    """Every raise reachable from the post-parsing stages is an obligation: it must be
    discharged by constant propagation of the guarding argument or be a frozen exception."""
    obs = []
    reach = ctx.r.reach_from([q for q in POST_PARSING_ROOTS if q in ctx.p.funcs])
    # helpers of the profiler may be renamed or folded into each other: the stage is then reached through profile_classes'
    # other self-calls; the entry points of the shexer and of the serialisers are hard anchors
    missing = [q for q in POST_PARSING_ROOTS if q not in ctx.p.funcs and ":ClassProfiler._" not in q]
    soft = [q for q in POST_PARSING_ROOTS if q not in ctx.p.funcs and ":ClassProfiler._" in q]
    if soft:
        pc = ctx.p.funcs.get("shexer.core.profiling.class_profiler:ClassProfiler.profile_classes")
        if pc is None:
            missing += soft
        else:
            known = {q.split(".")[-1] for q in POST_PARSING_ROOTS}
            extra = []
            for n in walk_own(pc.node):
                if isinstance(n, ast.Call) and isinstance(n.func, ast.Attribute) and isinstance(n.func.value, ast.Name) and n.func.value.id == "self":
                    m = pc.cls.find_method(n.func.attr)
                    # the reading pass (it parses the input and may reject it) is the only self-call that is not post-parsing
                    if m is not None and n.func.attr not in known and "build_shape_of_instances" not in n.func.attr \
                            and not n.func.attr.startswith("_launch"):
                        extra.append(m.qual)
            reach |= set(ctx.r.reach_from(extra)) if extra else set()
    if missing:
        from ..core import AnalysisError
        raise AnalysisError("post-parsing stage anchor vanished: " + ", ".join(missing))
    for q in sorted(reach):
        f = ctx.p.funcs[q]
        if is_abstract_stub(f):
            continue
        for n in walk_own(f.node):
            if not isinstance(n, ast.Raise):
                continue
            key = "R-RAISE|%s|%s" % (f.short, f.key(n)[:60])
            ok, why = _raise_discharged(ctx, f, n)
            obs.append(Ob(clause, "R-RAISE", key, f.loc(n), ok,
                          why if ok else "raise reachable after the input was accepted: %s in %s (%s)" % (
                              norm(n)[:70], f.short, why), note=not ctx.reachable(f)))
    return obs, len(reach)


def _raise_discharged(ctx, f, rz):
    """A raise in the final else of an if/elif chain over parameter p is unreachable when
    every call site passes a constant that one of the earlier arms accepts."""
    # find the chain: climb from the function body
    chain = _enclosing_chain(f.node.body, rz)
    if chain is None:
        return False, "not the fall-through arm of a dispatch on a parameter"
    var, accepted = chain
    if var not in f.params:
        return False, "dispatch variable %s is not a parameter" % var
    vals = ctx.r.param_consts(f, var)
    if vals is None:
        return False, "parameter %s is not constant at every call site" % var
    folded = set()
    for a in accepted:
        try:
            folded.add(ctx.p.fold(f.module, a))
        except Exception:
            return False, "dispatch constant does not fold"
    passed = {v[1] for v in vals}
    if passed and passed <= folded:
        return True, "unreachable: every call site passes %s in %s" % (var, sorted(map(repr, passed)))
    return False, "call sites pass %s outside the handled set" % sorted(map(repr, passed - folded))


def _enclosing_chain(body, rz):
    """(var, accepted constants) when the raise is reached only after var was found different from each of them:
    on the way to the raise every enclosing `if` compares the same name with a constant, and the raise sits on the side
    where they differ (`if v == C: .. else: <raise>` or `if v != C / not (v == C): <raise> else: ..`)."""
    def eq_test(t):
        neg = False
        while isinstance(t, ast.UnaryOp) and isinstance(t.op, ast.Not):
            t, neg = t.operand, not neg
        if isinstance(t, ast.Compare) and len(t.ops) == 1 and isinstance(t.ops[0], (ast.Eq, ast.NotEq)) and isinstance(t.left, ast.Name):
            equal_when_true = isinstance(t.ops[0], ast.Eq)
            return t.left.id, t.comparators[0], (equal_when_true != neg)
        return None

    def search(stmts, var, accepted):
        for st in stmts:
            if st is rz:
                return var, accepted
            if isinstance(st, ast.If):
                et = eq_test(st.test)
                in_body0 = any(n is rz for s_ in st.body for n in ast.walk(s_))
                in_else0 = any(n is rz for s_ in st.orelse for n in ast.walk(s_))
                if not (in_body0 or in_else0):
                    # guard clause on the way: `if v == C: return ..` - what follows runs only when v differs from C
                    # (the guard form of the if / elif / else dispatch)
                    if et is not None and et[2] and not st.orelse and st.body and isinstance(st.body[-1], (ast.Return, ast.Raise, ast.Continue, ast.Break)) \
                            and (var is None or et[0] == var):
                        var, accepted = et[0], accepted + [et[1]]
                    continue
                in_body = any(n is rz for s_ in st.body for n in ast.walk(s_))
                in_else = any(n is rz for s_ in st.orelse for n in ast.walk(s_))
                if not (in_body or in_else):
                    continue
                if et is None or (var is not None and et[0] != var):
                    return None
                v, c, eq_true = et
                if (in_else and eq_true) or (in_body and not eq_true):      # the raise is on the "different" side
                    return search(st.orelse if in_else else st.body, v, accepted + [c])
                return None
        return None
    r = search(body, None, [])
    if r is None or r[0] is None or not r[1]:
        return None
    return r
