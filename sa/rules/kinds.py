"""R-KIND: `.iri` of a triple's object is read only where the object is known to be a node.

A triple is (subject, predicate, object); the object is an IRI, a BNode or a Literal, and Literal has no `.iri`.
A read `t[_O].iri` is discharged
  * locally: it sits in the arm of a conditional whose test narrows the object - `isinstance(t[_O], IRI|BNode)`, the
    repo's `_is_relevant_instance(t[_O])`, a kind string derived from the object compared with IRI/BNode kinds
    (`type_obj not in [IRI_ELEM_TYPE, BNODE_ELEM_TYPE]` in the other arm), a rejection `isinstance(t[_O], Literal)`
    that leaves the function before the read;
  * by its callers: when t is the function's own parameter the obligation moves to every call site, where it is
    discharged by a narrowing test that dominates the call, by the caller's own parameter (recursively), or by the
    source of the triple: a loop over a generator that yields only triples accepted by a gate predicate
    (`if G(t): yield t`) whose implementations reject literal objects first.
Anything else is a violation: a valid graph with a literal in that position raises AttributeError."""
import ast
from ..core import walk_own, norm, parent_map, AnalysisError
from ..report import Ob
from ..resolve import bind_args

NODE_CLASSES = {"IRI", "BNode"}
KIND_CONSTS = {"IRI_ELEM_TYPE", "BNODE_ELEM_TYPE"}
NARROWING_PREDICATES = {"_is_relevant_instance"}          # isinstance(x, IRI) or isinstance(x, BNode), and tracked


def _is_obj_sub(ctx, f, e, tname=None):
    """e is `<name>[_O]` (position 2); with tname=("name", q) e is the bare name q (a parameter that receives an object)."""
    if isinstance(tname, tuple):
        return isinstance(e, ast.Name) and e.id == tname[1]
    if not (isinstance(e, ast.Subscript) and isinstance(e.value, ast.Name)):
        return False
    if tname is not None and e.value.id != tname:
        return False
    try:
        return ctx.p.fold(f.module, e.slice) == 2
    except Exception:
        return False


def _mentions_obj(ctx, f, test, tname):
    return any(_is_obj_sub(ctx, f, n, tname) for n in ast.walk(test))


def _narrowing(ctx, f, test, tname, kind_vars):
    """'pos' when the test being true implies the object is a node, 'neg' when the test being false implies it,
    None when the test says nothing."""
    if isinstance(test, ast.BoolOp) and isinstance(test.op, ast.And):
        for v in test.values:
            r = _narrowing(ctx, f, v, tname, kind_vars)
            if r == "pos":
                return "pos"
        return None
    if isinstance(test, ast.BoolOp) and isinstance(test.op, ast.Or):
        rs = [_narrowing(ctx, f, v, tname, kind_vars) for v in test.values]
        if all(r == "pos" for r in rs):
            return "pos"
        if any(r == "neg" for r in rs):
            return "neg"          # the disjunction being false makes every disjunct false
        return None
    if isinstance(test, ast.UnaryOp) and isinstance(test.op, ast.Not):
        r = _narrowing(ctx, f, test.operand, tname, kind_vars)
        return {"pos": "neg", "neg": "pos"}.get(r)
    if isinstance(test, ast.Call):
        fn = test.func
        if isinstance(fn, ast.Name) and fn.id == "isinstance" and len(test.args) == 2 and _is_obj_sub(ctx, f, test.args[0], tname):
            names = {n.id for n in ast.walk(test.args[1]) if isinstance(n, ast.Name)}
            if names and names <= NODE_CLASSES:
                return "pos"
            if names == {"Literal"}:
                return "neg"
        if isinstance(fn, ast.Attribute) and fn.attr in NARROWING_PREDICATES and test.args and _is_obj_sub(ctx, f, test.args[0], tname):
            return "pos"
    if isinstance(test, ast.Compare) and len(test.ops) == 1 and isinstance(test.left, ast.Name) and test.left.id in kind_vars:
        names = {n.id for n in ast.walk(test.comparators[0]) if isinstance(n, ast.Name)}
        if names and names <= KIND_CONSTS:
            if isinstance(test.ops[0], (ast.In, ast.Eq)):
                return "pos"
            if isinstance(test.ops[0], (ast.NotIn, ast.NotEq)):
                return "neg"
    return None


def _kind_vars(ctx, f, tname):
    """locals assigned from a call that receives t[_O] (the repo derives the kind string that way)."""
    out = set()
    for x in walk_own(f.node):
        if isinstance(x, ast.Assign) and isinstance(x.value, ast.Call) and any(_is_obj_sub(ctx, f, a, tname) for a in x.value.args):
            for t in x.targets:
                if isinstance(t, ast.Name):
                    out.add(t.id)
    return out


def _locally_narrowed(ctx, f, node, tname):
    pm = parent_map(f.node)
    kv = _kind_vars(ctx, f, tname)
    cur = node
    while cur in pm:
        par = pm[cur]
        if isinstance(par, (ast.If, ast.IfExp)):
            r = _narrowing(ctx, f, par.test, tname, kv)
            body = par.body if isinstance(par.body, list) else [par.body]
            orelse = par.orelse if isinstance(par.orelse, list) else [par.orelse]
            in_body = any(cur is s for s in body)
            in_else = any(cur is s for s in orelse)
            if (r == "pos" and in_body) or (r == "neg" and in_else):
                return True
        if isinstance(par, ast.BoolOp) and isinstance(par.op, ast.And):
            idx = [i for i, v in enumerate(par.values) if v is cur]
            if idx and any(_narrowing(ctx, f, v, tname, kv) == "pos" for v in par.values[:idx[0]]):
                return True
        # an earlier statement of an enclosing block rejects literals and leaves
        for field in ("body", "orelse"):
            blk = getattr(par, field, None)
            if isinstance(blk, list) and any(cur is s for s in blk):
                i = [k for k, s in enumerate(blk) if s is cur][0]
                for prev in blk[:i]:
                    if isinstance(prev, ast.If) and not prev.orelse and prev.body and isinstance(prev.body[-1], (ast.Return, ast.Raise, ast.Continue)) \
                            and _narrowing(ctx, f, prev.test, tname, kv) == "neg":
                        return True
        cur = par
    return False


def _gate_ok(ctx, impl, depth=0):
    """An implementation of the gate predicate rejects literal objects before anything else, or only combines other gates."""
    if not impl.params or len(impl.params) < 2:
        return False
    tname = impl.params[1]
    body = [s for s in impl.node.body if not (isinstance(s, ast.Expr) and isinstance(s.value, ast.Constant))]
    if body and isinstance(body[0], ast.If) and not body[0].orelse and isinstance(body[0].body[-1], ast.Return) \
            and isinstance(body[0].body[-1].value, ast.Constant) and body[0].body[-1].value.value is False \
            and _narrowing(ctx, impl, body[0].test, tname, set()) == "neg":
        return True
    return False


def object_iri_reads(ctx, clause):
    p, r = ctx.p, ctx.r
    obs, n = [], 0
    memo = {}

    def need(f, tname, depth, trail):
        """None when every caller establishes that <tname>[_O] is a node, else a description of the failing path."""
        k = (f.qual, tname)
        if k in memo:
            return memo[k]
        if depth > 6 or k in trail:
            return "call chain too deep / cyclic at %s" % f.short
        memo[k] = None         # optimistic for recursion
        sites = [cs for cs in r.callers_of.get(f.qual, []) if ctx.reachable(cs.func)]
        if not sites:
            memo[k] = "no caller of %s establishes the kind of the object" % f.short
            return memo[k]
        res = None
        for cs in sites:
            g = cs.func
            arg = bind_args(cs.node, f)["bound"].get(tname)
            if arg is None and cs.kind in ("slot",):
                # bound-method slot called positionally: first argument
                arg = cs.node.args[0] if cs.node.args else None
            if not isinstance(arg, ast.Name):
                res = "%s passes `%s`" % (g.short, norm(arg) if arg is not None else "?")
                break
            if _locally_narrowed(ctx, g, cs.node, arg.id):
                continue
            if arg.id in g.params:
                sub = need(g, arg.id, depth + 1, trail | {k})
                if sub is not None:
                    res = sub
                    break
                continue
            src = _loop_source(ctx, g, cs.node, arg.id)
            if src is None:
                res = "%s calls %s with `%s`, whose kind nothing establishes" % (g.short, f.short, arg.id)
                break
            bad = _source_gated(ctx, g, src)
            if bad is not None:
                res = bad
                break
        memo[k] = res
        return res

    # parameters that receive a triple's object at some call site: their .iri reads need a test on the parameter itself
    for cs in r.callsites:
        if not ctx.reachable(cs.func):
            continue
        for t in cs.targets or []:
            b = bind_args(cs.node, t)["bound"]
            for prm, arg in b.items():
                if _is_obj_sub(ctx, cs.func, arg):
                    for x in walk_own(t.node):
                        if isinstance(x, ast.Attribute) and x.attr == "iri" and isinstance(x.value, ast.Name) and x.value.id == prm:
                            key = "R-KIND|object-iri|%s|%s" % (t.short, t.key(x))
                            if any(o.key == key for o in obs):
                                continue
                            n += 1
                            ok = _locally_narrowed(ctx, t, x, ("name", prm))
                            obs.append(Ob(clause, "R-KIND", key, t.loc(x), ok,
                                          "`%s`: %s receives a triple's object (from %s) and reads .iri under a test that excludes literals" % (
                                              norm(x), t.short, cs.func.short) if ok else
                                          "`%s` in %s: the parameter receives a triple's object (`%s` in %s), which can be a Literal "
                                          "without .iri, and no test on it precedes the read - a valid graph with a literal in that "
                                          "position raises AttributeError" % (norm(x), t.short, norm(arg), cs.func.short)))
    for f in p.funcs.values():
        if not ctx.reachable(f):
            continue
        for x in walk_own(f.node):
            if isinstance(x, ast.Attribute) and x.attr == "iri" and _is_obj_sub(ctx, f, x.value):
                tname = x.value.value.id
                n += 1
                key = "R-KIND|object-iri|%s|%s" % (f.short, f.key(x))
                if any(o.key == key for o in obs):
                    continue
                if _locally_narrowed(ctx, f, x, tname):
                    obs.append(Ob(clause, "R-KIND", key, f.loc(x), True, "`%s` is read under a test that makes the object a node" % norm(x)))
                    continue
                if tname in f.params:
                    why = need(f, tname, 0, frozenset())
                else:
                    src = _loop_source(ctx, f, x, tname)
                    why = ("nothing establishes the kind of `%s`" % tname) if src is None else _source_gated(ctx, f, src)
                obs.append(Ob(clause, "R-KIND", key, f.loc(x), why is None,
                              "`%s`: every path to %s establishes that the object is a node" % (norm(x), f.short) if why is None else
                              "`%s` in %s: the object of a triple can be a Literal, which has no .iri, and %s - a valid graph with a "
                              "literal in that position raises AttributeError" % (norm(x), f.short, why)))
    return obs, n


def _loop_source(ctx, g, node, name):
    """The iterable of the for-loop that binds `name` and encloses node."""
    pm = parent_map(g.node)
    cur = node
    while cur in pm:
        par = pm[cur]
        if isinstance(par, ast.For) and isinstance(par.target, ast.Name) and par.target.id == name:
            return par.iter
        cur = par
    return None


def _source_gated(ctx, g, it):
    """None when the iterable is a call to a generator of the package that yields only gate-accepted triples."""
    r = ctx.r
    if not isinstance(it, ast.Call):
        return "the triples come from `%s`" % norm(it)[:40]
    cs = r.site_of.get(id(it))
    if cs is None or not cs.targets:
        return "the triples come from `%s`, which is not a generator of the package" % norm(it)[:40]
    for gen in cs.targets:
        ys = [y for y in walk_own(gen.node) if isinstance(y, ast.Yield)]
        if not ys:
            return "%s is not a generator" % gen.short
        pm = parent_map(gen.node)
        for y in ys:
            if not isinstance(y.value, ast.Name):
                return "%s yields `%s`" % (gen.short, norm(y.value)[:30])
            cur, gated = y, False
            while cur in pm:
                par = pm[cur]
                in_body = isinstance(par, ast.If) and any(cur is s or cur in ast.walk(s) for s in par.body)
                in_else = isinstance(par, ast.If) and any(cur is s or cur in ast.walk(s) for s in par.orelse)
                if in_body or in_else:
                    t = par.test
                    neg = False
                    while isinstance(t, ast.UnaryOp) and isinstance(t.op, ast.Not):
                        t, neg = t.operand, not neg
                    # the yield must be on the side where the gate answered True
                    if neg == in_body:
                        cur = par
                        continue
                    calls = [c for c in ast.walk(t) if isinstance(c, ast.Call) and c.args and isinstance(c.args[0], ast.Name) and c.args[0].id == y.value.id]
                    for c in calls:
                        gcs = r.site_of.get(id(c))
                        impls = [m for m in (gcs.targets if gcs else []) if ctx.reachable(m)]
                        if impls and all(_gate_ok(ctx, m) for m in impls) and (not isinstance(t, ast.BoolOp) or isinstance(t.op, ast.And)):
                            gated = True
                        elif impls:
                            badm = [m.short for m in impls if not _gate_ok(ctx, m)]
                            return "the gate %s does not reject literal objects first" % ", ".join(badm)
                cur = par
            if not gated:
                return "%s yields triples that no gate has accepted" % gen.short
    return None
