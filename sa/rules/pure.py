"""R-PURE: code reachable from a set of roots must not mutate objects it did not create.

Mutation sites: builtin container mutators (append/add/insert/extend/update/pop/remove/clear/
sort/reverse/setdefault/popitem), subscript stores and deletes, attribute stores.  The mutated
object is traced backwards along copy edges of the value-flow graph to its creation sites; it
is *owned* when every creation site (literal, comprehension, constructor or copying call) lies
in a function reachable from the roots, and shared otherwise."""
import ast
from ..core import walk_own, norm, is_self_attr
from ..report import Ob

MUTATORS = {"append", "add", "insert", "extend", "update", "pop", "remove", "clear", "sort", "reverse", "setdefault",
            "popitem", "discard", "appendleft"}
FRESH = (ast.List, ast.Dict, ast.Set, ast.ListComp, ast.DictComp, ast.SetComp, ast.Tuple, ast.JoinedStr,
         ast.BinOp, ast.Compare)
COPIERS = {"dict", "list", "set", "tuple", "sorted", "frozenset", "copy", "deepcopy", "str", "join", "format", "Graph"}


def mutation_sites(f):
    for n in walk_own(f.node):
        if isinstance(n, ast.Call) and isinstance(n.func, ast.Attribute) and n.func.attr in MUTATORS:
            yield n, n.func.value, "." + n.func.attr + "()"
        elif isinstance(n, (ast.Assign, ast.AugAssign, ast.Delete)):
            targets = n.targets if isinstance(n, (ast.Assign, ast.Delete)) else [n.target]
            for t in targets:
                if isinstance(t, ast.Subscript):
                    yield n, t.value, "subscript " + ("delete" if isinstance(n, ast.Delete) else "store")
                elif isinstance(t, ast.Attribute):
                    yield n, t.value, "attribute store ." + t.attr


def creation_roots(ctx, node):
    """Backward copy-closure of an expression node: (fresh creation sites, external roots)."""
    g = ctx.flow
    B = g.back([node], labels=("copy",))
    fresh, external = [], []
    for b in B:
        preds = [m for m, lab in g.pred.get(b, {}).items() if lab == "copy"]
        if b[0] == "e":
            e, f = g.expr_index[b[1]]
            if isinstance(e, FRESH):
                fresh.append((e, f))
            elif isinstance(e, ast.Call):
                cs = ctx.r.site_of.get(id(e))
                if cs is not None and cs.kind in ("ctor", "ctor_noinit"):
                    fresh.append((e, f))
                elif cs is None or not cs.targets:
                    fresh.append((e, f))      # builtin / third-party call result: a new value
            elif isinstance(e, ast.Subscript) or isinstance(e, ast.Attribute) and not preds:
                external.append(b)             # element of / attribute of something we do not track
        elif b[0] == "v" and not preds:
            external.append(b)                 # parameter nobody binds inside the package (API argument)
        elif b[0] in ("f", "g") and not preds:
            external.append(b)
    return fresh, external


def check_roots(ctx, clause, roots, label, owner_classes):
    g = ctx.flow
    reach = ctx.r.reach_from(roots)
    owned_cls = set(owner_classes)
    for q in reach:
        f = ctx.p.funcs[q]
        for n in walk_own(f.node):
            if isinstance(n, ast.Call):
                cs = ctx.r.site_of.get(id(n))
                if cs is not None and cs.kind == "ctor":
                    owned_cls.add(cs.recv_types.qual)
    obs, nfun = [], 0
    for q in sorted(reach):
        f = ctx.p.funcs[q]
        nfun += 1
        for stmt, obj, how in mutation_sites(f):
            if isinstance(obj, ast.Name) and obj.id == "self" and f.cls is not None:
                ok = any(k.qual in owned_cls for k in [f.cls] + f.cls.all_subclasses()) and f.cls.qual in owned_cls or \
                    any(k.qual in owned_cls for k in f.cls.all_subclasses()) and not _is_model(f.cls)
                why = "object of class %s" % f.cls.name
                key = "R-PURE|%s|%s|%s" % (label, f.short, f.key(stmt)[:60])
                if not ok:
                    obs.append(Ob(clause, "R-PURE", key, f.loc(stmt), False,
                                  "%s reached from %s writes a field of a %s it did not create: %s" % (f.short, label, why, norm(stmt)[:60])))
                else:
                    obs.append(Ob(clause, "R-PURE", key, f.loc(stmt), True, "writes its own state (%s)" % why))
                continue
            node = g.enode(obj)
            if node[1] not in g.expr_index:
                continue
            fresh, external = creation_roots(ctx, node)
            foreign = [(e, ff) for e, ff in fresh if ff.qual not in reach]
            key = "R-PURE|%s|%s|%s" % (label, f.short, f.key(stmt)[:60])
            if foreign or external:
                origin = (foreign and "%s `%s`" % (foreign[0][1].loc(foreign[0][0]), norm(foreign[0][0])[:40])) or \
                    g.describe(external[0])
                obs.append(Ob(clause, "R-PURE", key, f.loc(stmt), False,
                              "%s (reached from %s) mutates an object it did not create: %s on `%s`, created/received at %s" % (
                                  f.short, label, how, norm(obj)[:40], origin)))
            else:
                obs.append(Ob(clause, "R-PURE", key, f.loc(stmt), True,
                              "%s on `%s`: every creation site is inside the stage" % (how, norm(obj)[:40])))
    return obs, nfun


def _is_model(cls):
    return cls.module.name.startswith("shexer.model")


SERIALIZERS = ["shexer.io.shex.formater.shex_serializer:ShexSerializer",
               "shexer.io.shacl.formater.shacl_serializer:ShaclSerializer"]


def serialisers_do_not_mutate_model(ctx, clause, ignore_fields=()):
    obs, n = [], 0
    for cq in SERIALIZERS:
        c = ctx.p.cls(cq)
        roots = [c.qual + ".__init__", c.qual + ".serialize_shapes"]
        for r in roots:
            ctx.p.func(r)
        o, k = check_roots(ctx, clause, roots, c.name, [c.qual])
        for x in o:
            if not x.ok and any(("self.%s." % fld) in x.key for fld in ignore_fields):
                x.ok = True
                x.msg = "outside this property's compared content (decided under C18): " + x.msg
        obs.extend(o)
        n += k
    return obs, n


def fresh_receivers(ctx, clause, method="serialize_shapes"):
    """Single-use objects: the receiver of every `<x>.serialize_shapes()` is an object built for this call.  The serialisers
    accumulate their output in their own fields (line buffer, result string, rdflib graph) and never reset them, so a
    serialiser that is kept in a field and used again writes the earlier output a second time."""
    from ..report import Ob
    from ..core import norm
    g, r = ctx.flow, ctx.r
    obs, n = [], 0
    for cs in r.callsites:
        if not (isinstance(cs.node.func, ast.Attribute) and cs.node.func.attr == method) or not ctx.reachable(cs.func):
            continue
        n += 1
        recv = cs.node.func.value
        back = g.back([g.enode(recv)], labels=("copy", "derive"))
        fields = sorted("%s.%s" % (x[1].split(":")[-1], x[2]) for x in back if x[0] == "f")
        key = "R-FRESH|%s|%s" % (method, cs.func.short)
        obs.append(Ob(clause, "R-FRESH", key, cs.func.loc(cs.node), not fields,
                      "`%s` runs on an object built for this call" % norm(cs.node)[:50] if not fields else
                      "`%s` can run on an object kept in %s: the serialiser accumulates its output in its own fields and is never "
                      "reset, so a second use repeats (or extends) the first output" % (norm(cs.node)[:50], ", ".join(fields[:3]))))
    return obs, n
