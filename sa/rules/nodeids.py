"""R-KEY: in the instance and profiling stages a node identifier (subject / object of a triple) is used only
as a dictionary key and as an operand of == / != / in - never inspected (startswith, find, slicing, ordering,
concatenation).  Together with commutative counting this gives relabeling invariance of the evidence."""
import ast
from ..core import walk_own, norm, parent_map
from ..report import Ob

PACKAGES = ("shexer.core.instances", "shexer.core.profiling")
STR_METHODS = {"startswith", "endswith", "find", "rfind", "split", "replace", "strip", "lower", "upper", "index", "count",
               "partition", "rpartition", "format", "join", "isnumeric", "isdigit"}


def check(ctx, clause):
    g, p = ctx.flow, ctx.p
    srcs = []
    for k, (e, f) in g.expr_index.items():
        if not f.module.name.startswith(PACKAGES):
            continue
        if isinstance(e, ast.Subscript) and isinstance(e.slice, ast.Name) and e.slice.id in ("_S", "_O") \
                and isinstance(e.value, ast.Name) and "triple" in e.value.id:
            srcs.append(("e", k))
    if not srcs:
        return [], 0
    # identifiers travel by copy, through .iri / str() and as dictionary keys (keys are not followed further)
    T = set()
    stack = list(srcs)
    while stack:
        n = stack.pop()
        if n in T:
            continue
        T.add(n)
        for m, lab in g.succ.get(n, {}).items():
            if m in T:
                continue
            if lab == "copy":
                stack.append(m)
            elif m[0] == "e":
                e, f = g.expr_index[m[1]]
                if isinstance(e, ast.Call) and isinstance(e.func, ast.Name) and e.func.id == "str":
                    stack.append(m)
    # `.iri` of a tainted object is the identifier as well
    for e, f in g.attr_loads:
        if e.attr == "iri" and ("e", id(e.value)) in T:
            for n in g.flows([g.enode(e)], labels=("copy",)):
                T.add(n)
    obs, n = [], 0
    seen = set()
    for k, (e, f) in g.expr_index.items():
        if ("e", k) not in T or not f.module.name.startswith(PACKAGES):
            continue
        pm = getattr(f, "_pm", None)
        if pm is None:
            pm = f._pm = parent_map(f.node)
        par = pm.get(e)
        bad = None
        if isinstance(par, ast.Attribute) and par.value is e and par.attr in STR_METHODS:
            bad = "inspected with .%s()" % par.attr
        elif isinstance(par, ast.Subscript) and par.value is e and not (isinstance(par.slice, ast.Name) and par.slice.id in ("_S", "_P", "_O")):
            bad = "sliced / indexed"
        elif isinstance(par, ast.BinOp) and isinstance(e, (ast.Name, ast.Attribute)):
            bad = "used in arithmetic / concatenation"
        elif isinstance(par, ast.Compare) and any(isinstance(op, (ast.Lt, ast.Gt, ast.LtE, ast.GtE)) for op in par.ops):
            bad = "compared by order"
        if isinstance(e, (ast.Name, ast.Attribute, ast.Call)):
            key = "R-KEY|node-id|%s|%s" % (f.short, f.key(par if bad else e)[:50])
            if key in seen:
                continue
            seen.add(key)
            n += 1
            obs.append(Ob(clause, "R-KEY", key, f.loc(e), bad is None,
                          "node identifier `%s` is used as a key / equality operand only" % norm(e)[:40] if bad is None else
                          "node identifier `%s` is %s in %s: the evidence depends on how nodes are labelled" % (norm(e)[:40], bad, f.short),
                          note=not ctx.reachable(f)))
    return obs, n
