"""R-EFFECT: option non-interference.

For an option o (a parameter of Shaper.__init__ / shex_graph) the value-flow closure T_o gives
every expression its value can reach.  A *control use* is a test (if / while / conditional
expression / comprehension filter) containing a tainted expression.  Its *controlled region* is:
the guarded arms; when an arm ends in return/raise/continue/break also the rest of the enclosing
block (guard-clause idiom); every function called from the region, transitively; for a method
slot bound in the region (self.m = self._impl) the bound implementations; for a class
constructed in the region, all its methods (the option selects whose behaviour runs).
The union of the effect classes found in all regions of o must be a subset of Allowed(o)."""
import ast
from ..core import walk_own, norm, is_self_attr
from ..report import Ob

PROFILE_FIELDS = {"_c_shapes_dict", "_classes_shape_dict", "_i_dict", "_instances_dict", "_c_counts", "_class_counts",
                  "_class_profile_dict", "_class_counts_dict"}
EXAMPLE_SETTERS = {"set_constraint_example", "set_shape_example", "set_shape_min_iri"}


def _base_attr(node):
    cur = node
    while isinstance(cur, ast.Subscript):
        cur = cur.value
    return cur.attr if isinstance(cur, ast.Attribute) else None


def direct_effects(ctx, f, nodes=None):
    """Effect classes syntactically present in the given nodes (default: whole function)."""
    out = set()
    it = nodes if nodes is not None else list(walk_own(f.node))
    for n in it:
        if isinstance(n, (ast.Assign, ast.AugAssign)):
            targets = n.targets if isinstance(n, ast.Assign) else [n.target]
            for t in targets:
                if isinstance(t, ast.Attribute) and not is_self_attr(t):
                    if t.attr == "cardinality":
                        v = None
                        try:
                            v = ctx.p.fold(f.module, n.value) if not isinstance(n.value, ast.IfExp) else None
                        except Exception:
                            pass
                        if isinstance(n.value, ast.IfExp):
                            # one effect per alternative, as for `if c: x.cardinality = A else: x.cardinality = B`
                            for arm in (n.value.body, n.value.orelse):
                                try:
                                    out.add(("CARD", str(ctx.p.fold(f.module, arm))))
                                except Exception:
                                    out.add(("CARD", "?unknown"))
                        else:
                            out.add(("CARD", str(v)))
                    elif t.attr == "probability":
                        out.add(("PROB", ""))
                    elif t.attr in ("statements", "direct_statements", "inverse_statements"):
                        out.add(("SHAPE-STMTS", ""))
                    elif t.attr == "serializer_object":
                        out.add(("SERIALIZER", ""))
                    elif t.attr == "is_inverse":
                        out.add(("DIRECTION", ""))
                if isinstance(t, ast.Subscript) and _base_attr(t) in PROFILE_FIELDS:
                    out.add(("PROFILE", _base_attr(t)))
                if isinstance(t, ast.Attribute) and is_self_attr(t) and f.cls is not None and f.cls.name in ("Statement", "Shape") \
                        and f.name != "__init__":
                    out.add(("MODEL-FIELD", f.cls.name + "." + t.attr))
        elif isinstance(n, ast.Delete):
            for t in n.targets:
                if isinstance(t, ast.Subscript) and _base_attr(t) in PROFILE_FIELDS:
                    out.add(("PROFILE", _base_attr(t)))
        elif isinstance(n, ast.Call):
            name = n.func.attr if isinstance(n.func, ast.Attribute) else (n.func.id if isinstance(n.func, ast.Name) else None)
            if name == "add_comment":
                out.add(("COMMENT+", ""))
            elif name == "remove_comments":
                out.add(("COMMENT-", ""))
            elif name in EXAMPLE_SETTERS:
                out.add(("EXAMPLES", name))
            elif name == "open" and isinstance(n.func, ast.Name):
                out.add(("IO", ""))
            elif name in ("append", "add", "insert", "extend", "update", "remove", "pop") and isinstance(n.func, ast.Attribute) \
                    and _base_attr(n.func.value) in PROFILE_FIELDS:
                out.add(("PROFILE", _base_attr(n.func.value)))
            cs = ctx.r.site_of.get(id(n))
            if cs is not None and cs.kind == "ctor" and cs.recv_types.name in ("Statement", "FixedPropChoiceStatement"):
                out.add(("STMT-NEW", cs.recv_types.name))
            if cs is not None and cs.kind == "ctor" and cs.recv_types.name == "Shape":
                out.add(("SHAPE-NEW", ""))
    return out


class EffectIndex:
    def __init__(self, ctx):
        self.ctx = ctx
        self._direct = {}
        self._trans = {}

    def direct(self, f):
        if f.qual not in self._direct:
            self._direct[f.qual] = direct_effects(self.ctx, f)
        return self._direct[f.qual]

    def callees_of_nodes(self, f, nodes, class_methods=False):
        r = self.ctx.r
        out = []
        call_funcs = {id(n.func) for n in nodes if isinstance(n, ast.Call)}
        for n in nodes:
            if isinstance(n, ast.Call):
                cs = r.site_of.get(id(n))
                if cs is None:
                    continue
                for t in r.live_targets(cs, r.instantiated):
                    out.append(t)
                if cs.kind in ("ctor", "ctor_noinit") and class_methods:
                    classes = [cs.recv_types] if cs.kind == "ctor" else cs.recv_types
                    for c in classes:
                        for k in c.mro():
                            out.extend(m for m in k.methods.values())
            elif isinstance(n, ast.Attribute) and isinstance(n.ctx, ast.Load) and is_self_attr(n) and f.cls is not None \
                    and id(n) not in call_funcs and f.cls.find_method(n.attr) is not None \
                    and not f.cls.find_method(n.attr).is_property:
                out.append(f.cls.find_method(n.attr))              # bound method used as a value (slot / callback)
            elif isinstance(n, ast.Attribute) and isinstance(n.ctx, ast.Load):
                for t in r.type_of(n.value, f):
                    if t[0] == "inst":
                        for m in r._method_targets(self.ctx.p.classes[t[1]], n.attr):
                            if m.is_property:
                                out.append(m)
        return out

    def transitive(self, funcs):
        """Effects of the functions and everything they call."""
        seen, stack, eff = set(), list(funcs), set()
        while stack:
            f = stack.pop()
            if f.qual in seen:
                continue
            seen.add(f.qual)
            eff |= {(k, d, f.short) for k, d in self.direct(f)}
            stack.extend(self.callees_of_nodes(f, list(walk_own(f.node))))
        return eff, seen


def _terminates(stmts):
    return bool(stmts) and isinstance(stmts[-1], (ast.Return, ast.Raise, ast.Continue, ast.Break))


def arms_of_test(f, owner, test):
    """The two alternatives a test chooses between, as lists of AST nodes."""
    a, b = [], []
    if isinstance(owner, ast.IfExp):
        return list(ast.walk(owner.body)), list(ast.walk(owner.orelse))
    if isinstance(owner, (ast.ListComp, ast.SetComp, ast.GeneratorExp, ast.DictComp)):
        return [x for x in ast.walk(owner) if x is not test], []
    if isinstance(owner, (ast.If, ast.While)):
        for st in owner.body:
            a.extend(ast.walk(st))
        for st in owner.orelse:
            b.extend(ast.walk(st))
        if isinstance(owner, ast.If):
            parent_block = _enclosing_block(f.node, owner)
            rest = []
            if parent_block is not None:
                idx = parent_block.index(owner)
                for st in parent_block[idx + 1:]:
                    rest.extend(ast.walk(st))
            # guard clause: the arm that does not exit continues with the rest of the block.  `if a and b: return x` is the
            # one-statement form of `if a: if b: return x`, whose outer arm does not end the block: both read the same way
            conj = isinstance(owner.test, ast.BoolOp) and isinstance(owner.test.op, ast.And) and len(owner.test.values) > 1
            if conj and not owner.orelse:
                pass
            elif _terminates(owner.body) and not _terminates(owner.orelse):
                b = b + rest
            elif _terminates(owner.orelse) and not _terminates(owner.body):
                a = a + rest
    return a, b


def _assigned_alternatives(ctx, f, owner):
    """`x.cardinality = A if test else B`: the conditional expression chooses between two assignments (the same effects as the
    statement form `if test: x.cardinality = A else: x.cardinality = B`)."""
    if not isinstance(owner, ast.IfExp):
        return None
    for n in walk_own(f.node):
        if isinstance(n, ast.Assign) and n.value is owner and any(isinstance(t, ast.Attribute) and not is_self_attr(t) and t.attr == "cardinality"
                                                                  for t in n.targets):
            out = []
            for arm in (owner.body, owner.orelse):
                try:
                    out.append(str(ctx.p.fold(f.module, arm)))
                except Exception:
                    out.append("?unknown")
            return out
    return None


def _enclosing_block(root, stmt):
    for n in ast.walk(root):
        for field in ("body", "orelse", "finalbody"):
            blk = getattr(n, field, None)
            if isinstance(blk, list) and stmt in blk:
                return blk
    return None


class OptionInfluence:
    def __init__(self, ctx, index, name, src_nodes):
        self.ctx, self.name = ctx, name
        g = ctx.flow
        self.T = g.flows(src_nodes)
        self.sites = []       # (Func, owner, test, effects)
        self.effects = set()
        self.funcs = set()
        for test, f, owner in g.tests:
            if not g.expr_tainted(test, self.T):
                continue
            if not ctx.reachable(f):
                continue
            arms = arms_of_test(f, owner, test)
            built = [self._constructed(x) for x in arms]
            selection = bool(built[0]) and bool(built[1]) and built[0] != built[1]
            per_arm = []
            arm_values = _assigned_alternatives(ctx, f, owner)
            for i_arm, nodes in enumerate(arms):
                eff = {(k, d, f.short) for k, d in direct_effects(ctx, f, nodes)}
                if arm_values is not None:
                    eff.add(("CARD", arm_values[i_arm], f.short))
                callees = index.callees_of_nodes(f, nodes, class_methods=selection)
                teff, seen = index.transitive(callees)
                per_arm.append(eff | teff)
                self.funcs |= seen
            eff = per_arm[0] ^ per_arm[1]
            self.sites.append((f, owner, test, eff))
            self.effects |= eff
        # data uses: the option value flows into a model constructor argument / a count table
        self.data_sinks = set()
        for e, f in g.calls:
            cs = ctx.r.site_of.get(id(e))
            if cs is not None and cs.kind == "ctor" and cs.recv_types.name in ("Statement", "FixedPropChoiceStatement", "Shape"):
                for k in e.keywords:
                    if k.arg in ("serializer_object",):
                        continue
                    if g.expr_tainted(k.value, self.T):
                        self.data_sinks.add(("DATA->" + cs.recv_types.name + "." + str(k.arg), "", f.short))
                for i, a in enumerate(e.args):
                    if g.expr_tainted(a, self.T):
                        self.data_sinks.add(("DATA->" + cs.recv_types.name + ".arg%d" % i, "", f.short))

    def _constructed(self, nodes):
        out = set()
        for n in nodes:
            if isinstance(n, ast.Call):
                cs = self.ctx.r.site_of.get(id(n))
                if cs is not None and cs.kind == "ctor":
                    out.add(cs.recv_types.qual)
        return out

    def kinds(self):
        return {(k, d) for k, d, _ in self.effects | self.data_sinks}
