"""R-COUNT / R-LOOP: accumulation discipline of the evidence tables, and the data-flow of the figures
at the candidate construction sites (R-FLOW)."""
import ast
from ..core import walk_own, norm, is_self_attr, parent_map, AnalysisError, lit, is_lit, NOLIT
from ..resolve import bind_args
from ..report import Ob
from .effect import PROFILE_FIELDS, _base_attr

EVIDENCE_PACKAGES = ("shexer.core.instances", "shexer.core.profiling")
INIT_FUNCS = {"adapt_instances_dict", "init_original_targets", "_adapt_entry_dict_if_needed"}
REMOVAL_FUNCS = {"_iteration_remove_empty_shapes"}
CAP_CLASSES = {"InstanceCapMode"}


def _is_init_value(v, target, f=None, depth=0):
    if is_lit(v, 0):
        return True
    # dict() / list() / set() / tuple(): the empty container by another spelling
    if isinstance(v, ast.Call) and isinstance(v.func, ast.Name) and v.func.id in ("dict", "list", "set") and not v.args and not v.keywords:
        return True
    # a hook of the object that only ever returns such a value (`self._empty_class_profile()`)
    if f is not None and depth < 2 and isinstance(v, ast.Call) and not v.args and not v.keywords and is_self_attr(v.func) and f.cls is not None:
        impls = [c.methods[v.func.attr] for c in [f.cls] + f.cls.all_subclasses() + f.cls.mro() if v.func.attr in c.methods]
        rets = [x for m in impls for x in walk_own(m.node) if isinstance(x, ast.Return)]
        if impls and rets and all(x.value is not None and _is_init_value(x.value, target, m, depth + 1) for m in impls
                                  for x in walk_own(m.node) if isinstance(x, ast.Return)):
            return True
    if isinstance(v, (ast.Dict, ast.List)) and not (getattr(v, "keys", None) or getattr(v, "elts", None)):
        return True
    if isinstance(v, ast.Tuple):
        rest = v.elts
        if rest and norm(rest[0]) == norm(target):      # re-wrapping of an entry: (entry, {}) / (entry, {}, {})
            rest = rest[1:]
        return all(isinstance(e, ast.Dict) and not e.keys for e in rest)
    return False


def _is_get_increment(v, target):
    """`d.get(k, 0) + 1` (either order) for the entry `d[k]` being assigned."""
    if not (isinstance(v, ast.BinOp) and isinstance(v.op, ast.Add)):
        return False
    for a, b in ((v.left, v.right), (v.right, v.left)):
        if is_lit(b, 1) and isinstance(a, ast.Call) and isinstance(a.func, ast.Attribute) and a.func.attr == "get" and len(a.args) == 2 \
                and not a.keywords and is_lit(a.args[1], 0) and norm(a.func.value) == norm(target.value) and norm(a.args[0]) == norm(target.slice):
            return True
    return False


def accumulator_writes(ctx):
    """(Func, node, kind, detail) for every write to an evidence table."""
    out = []
    for f in ctx.p.funcs.values():
        pm = None
        for n in walk_own(f.node):
            if isinstance(n, ast.AugAssign) and isinstance(n.target, ast.Subscript) and _base_attr(n.target) in PROFILE_FIELDS:
                good = isinstance(n.op, ast.Add) and is_lit(n.value, 1)
                out.append((f, n, "inc" if good else "BAD", "increment by exactly 1" if good else "accumulator updated with `%s`" % norm(n)))
            elif isinstance(n, ast.Assign):
                for t in n.targets:
                    if isinstance(t, ast.Subscript) and _base_attr(t) in PROFILE_FIELDS:
                        if _is_init_value(n.value, t, f):
                            pm = pm or parent_map(f.node)
                            guarded = False
                            cur = n
                            while cur in pm:
                                cur = pm[cur]
                                if isinstance(cur, ast.If) and isinstance(cur.test, ast.Compare) and len(cur.test.ops) == 1 \
                                        and isinstance(cur.test.ops[0], ast.NotIn) and norm(cur.test.left) == norm(t.slice):
                                    if norm(cur.test.comparators[0]) == norm(t.value):
                                        guarded = True
                                    elif _base_attr(cur.test.comparators[0]) in PROFILE_FIELDS and any(
                                            isinstance(s2, ast.Assign) and isinstance(s2.targets[0], ast.Subscript)
                                            and norm(s2.targets[0].value) == norm(cur.test.comparators[0])
                                            and norm(s2.targets[0].slice) == norm(t.slice) for s2 in cur.body):
                                        guarded = True   # sibling table with the same key, initialised in the same block
                            if guarded or f.name in INIT_FUNCS:
                                out.append((f, n, "init", "absence initialisation"))
                            else:
                                out.append((f, n, "BAD", "entry `%s` is (re)initialised without an absence test: counts already "
                                                          "gathered under that key are lost" % norm(t)))
                        elif isinstance(n.value, ast.Name) and n.value.id in f.local_names and (d_ := _single_def(f, n.value.id)) is not None \
                                and _is_get_increment(_expand(f, d_), ast.Subscript(value=_expand(f, t.value), slice=_expand(f, t.slice), ctx=ast.Load())):
                            out.append((f, n, "inc", "increment by exactly 1 (through a local: v = d.get(k, 0) + 1; d[k] = v)"))
                        elif isinstance(n.value, ast.Name) and n.value.id in f.local_names and (d_ := _single_def(f, n.value.id)) is not None \
                                and isinstance(d_, ast.BinOp) and isinstance(d_.op, ast.Add) and is_lit(d_.right, 1) and norm(d_.left) == norm(t):
                            out.append((f, n, "inc", "increment by exactly 1 (through a local: v = d[k] + 1; d[k] = v)"))
                        elif _is_get_increment(n.value, t):
                            out.append((f, n, "inc", "increment by exactly 1 (d[k] = d.get(k, 0) + 1: absence initialisation and "
                                                     "increment in one statement)"))
                        else:
                            out.append((f, n, "BAD", "accumulator entry assigned a computed value `%s`" % norm(n)[:70]))
            elif isinstance(n, ast.Delete):
                for t in n.targets:
                    if isinstance(t, ast.Subscript) and _base_attr(t) in PROFILE_FIELDS:
                        out.append((f, n, "del" if f.name in REMOVAL_FUNCS else "BAD",
                                    "removal of an empty shape" if f.name in REMOVAL_FUNCS else "evidence deleted outside the empty-shape removal"))
            elif isinstance(n, ast.Call) and isinstance(n.func, ast.Attribute) and _base_attr(n.func.value) in PROFILE_FIELDS \
                    and n.func.attr in ("append", "add", "update", "pop", "remove", "setdefault", "extend", "insert", "clear", "popitem"):
                if n.func.attr == "append" and isinstance(n.func.value, ast.Subscript):
                    pm = pm or parent_map(f.node)
                    cur, nested = n, False
                    while cur in pm:
                        cur = pm[cur]
                        if isinstance(cur, ast.If) and isinstance(cur.test, ast.Compare) and len(cur.test.ops) == 1 \
                                and isinstance(cur.test.ops[0], ast.NotIn) and norm(cur.test.comparators[0]) == norm(n.func.value.value) \
                                and norm(cur.test.left) == norm(n.func.value.slice) and any(n is y for s2 in cur.body for y in ast.walk(s2)):
                            nested = True
                    if nested:
                        out.append((f, n, "BAD", "the class is appended only when the node is seen for the first time: a node selected "
                                                   "for several classes / labels keeps only the first"))
                    else:
                        out.append((f, n, "append", "class appended to an instance entry"))
                elif n.func.attr == "pop" and len(n.args) == 2 and not n.keywords and isinstance(parent_map(f.node).get(n), ast.Expr):
                    # d.pop(k, None) as a statement: the deletion of an entry that may be absent (`if k in d: del d[k]`)
                    out.append((f, n, "del" if f.name in REMOVAL_FUNCS else "BAD",
                                "removal of an empty shape" if f.name in REMOVAL_FUNCS else "evidence deleted outside the empty-shape removal"))
                elif n.func.attr == "setdefault" and len(n.args) == 2 and not n.keywords \
                        and _is_init_value(n.args[1], ast.Subscript(value=n.func.value, slice=n.args[0], ctx=ast.Load())):
                    out.append((f, n, "init", "absence initialisation (setdefault with an empty value keeps what is there)"))
                else:
                    out.append((f, n, "BAD", "accumulator mutated with .%s(): `%s`" % (n.func.attr, norm(n)[:70])))
    return out


def discipline(ctx, clause):
    obs = []
    writes = accumulator_writes(ctx)
    counts = {}
    for f, n, kind, detail in writes:
        counts[kind] = counts.get(kind, 0) + 1
        layered = f.module.name.startswith(EVIDENCE_PACKAGES)
        ok = kind != "BAD" and layered
        key = "R-COUNT|%s|%s" % (f.short, f.key(n)[:70])
        msg = detail if ok else (detail if kind == "BAD" else "evidence table written outside the instances/profiling packages (in %s)" % f.module.name)
        obs.append(Ob(clause, "R-COUNT", key, f.loc(n), ok, msg, note=not ctx.reachable(f) and not ok))
    return obs, counts, writes


def _accumulation_loops(ctx, writes):
    """(Func, loop, accumulation sites in its body) for the loops of the evidence packages whose body reaches an accumulator
    write - directly or through a call."""
    p, r = ctx.p, ctx.r
    acc = {f.qual for f, n, kind, _ in writes if kind in ("inc", "append", "init")}
    reach_cache = {}

    def reaches(f):
        if f.qual not in reach_cache:
            reach_cache[f.qual] = bool(r.reach_from([f.qual]) & acc)
        return reach_cache[f.qual]
    out = []
    for f in p.funcs.values():
        if not f.module.name.startswith(EVIDENCE_PACKAGES):
            continue
        if f.cls is not None and f.cls.name in CAP_CLASSES:
            continue       # order-dependent by specification (first k instances), active only with instances_cap > 0
        for lp in walk_own(f.node):
            if not isinstance(lp, (ast.For, ast.While)):
                continue
            body_nodes = [x for s in lp.body for x in ast.walk(s)]
            sites = [x for x in body_nodes for ff, wn, kind, _ in writes if ff is f and kind in ("inc", "append", "init") and x is wn]
            for x in body_nodes:
                if isinstance(x, ast.Call):
                    cs = r.site_of.get(id(x))
                    if cs is not None and any(reaches(t) for t in r.live_targets(cs, r.instantiated)):
                        sites.append(x)
            if sites:
                # the conditions are taken at the counting sites; an absence initialisation sits under its own absence test
                # by construction (that test filters nothing)
                counting = [x for x in sites if not any(x is wn and kind == "init" for ff, wn, kind, _ in writes if ff is f)]
                out.append((f, lp, counting, body_nodes))          # a loop that only initialises has nothing to filter
    return out


def _guards_of(f, lp, sites):
    """Conditions under which the accumulation sites of the loop run: (canonical test, arm) of every `if` between the loop and
    a site (guard clauses were put in structured form by the loader, so `if c: continue` reads `if not c: <rest>`)."""
    from ..canon import negate, _is_negated
    pm = parent_map(lp)
    out = set()
    for s_ in sites:
        cur = s_
        while cur in pm:
            par = pm[cur]
            if isinstance(par, ast.If):
                in_body = any(cur is x or any(cur is y for y in ast.walk(x)) for x in par.body)
                test = par.test if in_body else negate(par.test)
                if _is_negated(test):
                    out.add("not (" + f.key(negate(test)) + ")")
                else:
                    out.add(f.key(test))
            elif isinstance(par, ast.IfExp):
                out.add("?:" + f.key(par.test))
            cur = par
    return out


def accumulation_loops_total(ctx, clause, writes):
    """Loops (in the evidence packages) whose body reaches an accumulator write visit every element: nothing leaves the loop
    early, and the accumulation runs under no condition that the confirmed instance of the loop (the same loop of the reference
    tree) did not have - a new filter in front of the counting, however it is spelt, is an uncounted triple / instance / class."""
    obs, n = [], 0
    ref = ctx.ref
    ref_guards = {}
    if ref is not None:
        for rf, rlp, rsites, _ in _accumulation_loops(ref, accumulator_writes(ref)):
            ref_guards.setdefault(rf.qual, []).append((rf.key(rlp.iter if isinstance(rlp, ast.For) else rlp.test)[:50], _guards_of(rf, rlp, rsites)))
    for f, lp, sites, body_nodes in _accumulation_loops(ctx, writes):
        n += 1
        bad = [x for x in body_nodes if isinstance(x, (ast.Break, ast.Continue, ast.Return))]
        lkey = f.key(lp.iter if isinstance(lp, ast.For) else lp.test)[:50]
        key = "R-LOOP|accumulation|%s|%s" % (f.short, lkey)
        new_guards = []
        if not bad and f.qual in ref_guards:
            mine = _guards_of(f, lp, sites)
            # the confirmed loop: same function, same iterated expression; otherwise every loop of that function taken together
            same = [g for k, g in ref_guards[f.qual] if k == lkey]
            allowed = set().union(*same) if same else set().union(*[g for _, g in ref_guards[f.qual]])
            new_guards = sorted(mine - allowed)
        ok = not bad and not new_guards
        obs.append(Ob(clause, "R-LOOP", key, f.loc(lp), ok,
                      "accumulation loop over `%s` is total" % norm(lp.iter if isinstance(lp, ast.For) else lp.test)[:50] if ok else
                      ("accumulation loop over `%s` in %s contains %s at %s: some triples / instances / classes are not counted" % (
                          norm(lp.iter)[:40] if isinstance(lp, ast.For) else "?", f.short, type(bad[0]).__name__.lower(), f.loc(bad[0])) if bad else
                       "accumulation loop over `%s` in %s now counts only under `%s`, a condition the confirmed loop did not have: the "
                       "elements it excludes are not counted" % (norm(lp.iter)[:40] if isinstance(lp, ast.For) else "?", f.short, new_guards[0][:70])),
                      note=not ctx.reachable(f)))
    return obs, n


def _single_def(f, name):
    defs = [x for x in walk_own(f.node) if isinstance(x, ast.Assign) and any(isinstance(t, ast.Name) and t.id == name for t in x.targets)]
    return defs[0].value if len(defs) == 1 else None


def _expand(f, expr, depth=0):
    """expr with local aliases of table paths written out: `t = D[k]` ... `t[c]` reads `D[k][c]` (also after the loader's
    lowering of `for k, t in D.items()`)."""
    import copy
    if expr is None or depth > 6:
        return expr

    class _X(ast.NodeTransformer):
        def visit_Name(self, n):
            if isinstance(n.ctx, ast.Load) and n.id in f.local_names:
                d = _single_def(f, n.id)
                cur = d
                while isinstance(cur, (ast.Subscript, ast.Attribute)):
                    cur = cur.value
                if d is not None and isinstance(d, (ast.Subscript, ast.Attribute)) and isinstance(cur, ast.Name):
                    return _expand(f, copy.deepcopy(d), depth + 1)
            return n
    return _X().visit(copy.deepcopy(expr))


def _loop_chain(f, node):
    pm = parent_map(f.node)
    chain, cur = [], node
    while cur in pm:
        cur = pm[cur]
        if isinstance(cur, ast.For):
            chain.append(cur)
    return chain[::-1]


def candidate_dataflow(ctx, clause):
    """At every construction of a candidate Statement from the class profile."""
    p, r = ctx.p, ctx.r
    stmt_cls = p.find_class("Statement")
    freq = p.func("shexer.core.shexing.strategy.abstract_shexing_strategy:AbstractShexingStrategy._compute_frequency")
    obs, n = [], 0
    # _compute_frequency = occurrences / instances
    ret = [x for x in walk_own(freq.node) if isinstance(x, ast.Return)]
    ok = len(ret) == 1 and isinstance(ret[0].value, ast.BinOp) and isinstance(ret[0].value.op, ast.Div)
    if ok:
        num = {x.id for x in ast.walk(ret[0].value.left) if isinstance(x, ast.Name)}
        den = {x.id for x in ast.walk(ret[0].value.right) if isinstance(x, ast.Name)}
        prm = freq.bound_params
        ok = len(prm) == 2 and num & set(prm) == {prm[1]} and den & set(prm) == {prm[0]} and isinstance(ret[0].value.right, ast.Name)
    obs.append(Ob(clause, "R-FLOW", "R-FLOW|compute-frequency", freq.loc(), bool(ok),
                  "_compute_frequency returns occurrences / instances" if ok else
                  "_compute_frequency is not `float(<occurrences>) / <instances>` over its (instances, occurrences) parameters: %s" %
                  (norm(ret[0].value) if ret else "no single return")))
    inst_param, occ_param = freq.bound_params[0], freq.bound_params[1]
    for cs in r.callsites:
        if not (cs.kind == "ctor" and cs.recv_types is stmt_cls and "_class_profile_dict" in ast.unparse(cs.func.node)):
            continue
        f = cs.func
        n += 1
        kw = {k.arg: k.value for k in cs.node.keywords}
        loops = _loop_chain(f, cs.node)
        problems = []
        lvars = [lp.target.id for lp in loops if isinstance(lp.target, ast.Name)]
        # class key: outermost loop variable over the profile, or the parameter used as first index
        prob = kw.get("probability")
        nocc = kw.get("n_occurences")
        # a figure is a local bound once, or the expression itself (whether a step has a name is a spelling)
        value_of = lambda e: (_single_def(f, e.id) if isinstance(e, ast.Name) and e.id in f.local_names else e)
        if prob is None or nocc is None or (isinstance(prob, ast.Name) and value_of(prob) is None) or (isinstance(nocc, ast.Name) and value_of(nocc) is None):
            problems.append("probability / n_occurences are not plain variables")
        else:
            pd = value_of(prob)
            if not (isinstance(pd, ast.Call) and isinstance(pd.func, ast.Attribute) and pd.func.attr == freq.name):
                problems.append("probability is not the result of _compute_frequency")
            else:
                b = bind_args(pd, freq)["bound"]
                a_inst, a_occ = b.get(inst_param), b.get(occ_param)
                same_occ = a_occ is not None and norm(_expand(f, value_of(a_occ) if isinstance(a_occ, ast.Name) else a_occ)) == \
                    norm(_expand(f, value_of(nocc)))
                if not same_occ:
                    problems.append("the frequency is computed from `%s` but the statement reports n_occurences=`%s`" % (
                        norm(a_occ) if a_occ is not None else "?", norm(nocc)[:40]))
                nd = _expand(f, value_of(nocc))
                idx = []
                cur = nd
                while isinstance(cur, ast.Subscript):
                    idx.append(cur.slice)
                    cur = cur.value
                idx = idx[::-1]
                if not (is_self_attr(cur) and cur.attr == "_class_profile_dict" and idx):
                    problems.append("n_occurences is not read from the class profile")
                else:
                    names = [i.id for i in idx if isinstance(i, ast.Name) and not _is_const_name(ctx, f, i.id)]
                    if len(names) != 4:
                        problems.append("the profile read `%s` does not have the 4-level key (class, property, kind, cardinality)" % norm(nd)[:70])
                    else:
                        ckey, pkey, tkey, cardkey = names
                        if lvars[-3:] != [pkey, tkey, cardkey]:
                            problems.append("profile key (%s) is not the enclosing loop variables %s" % (", ".join(names[1:]), lvars[-3:]))
                        for field, want in (("st_property", pkey), ("st_type", tkey), ("cardinality", cardkey)):
                            v = kw.get(field)
                            if not (isinstance(v, ast.Name) and v.id == want):
                                problems.append("%s=%s is not the profile key `%s` the count was read under" % (field, norm(v) if v is not None else "?", want))
                        # each loop iterates the prefix of the same path
                        for depth, lp in enumerate(loops[-3:]):
                            want_iter = nd
                            for _ in range(3 - depth):
                                want_iter = want_iter.value
                            if norm(_expand(f, lp.iter)) != norm(want_iter):
                                problems.append("loop over `%s` does not iterate the profile level the count is read from (`%s`)" % (
                                    norm(lp.iter)[:50], norm(want_iter)[:50]))
                        # denominator: class count of the same class key
                        if not _is_class_count_of(ctx, f, a_inst, ckey):
                            problems.append("the denominator `%s` is not float(self._class_counts_dict[%s])" % (norm(a_inst) if a_inst is not None else "?", ckey))
        key = "R-FLOW|candidate-figures|%s" % f.short
        obs.append(Ob(clause, "R-FLOW", key, f.loc(cs.node), not problems,
                      "candidate statements in %s carry the count read under their own (class, property, kind, cardinality) key and "
                      "that count divided by the instance count of the same class" % f.short if not problems else "; ".join(problems)))
    return obs, n


def _is_const_name(ctx, f, name):
    rr = ctx.p.resolve_name(f.module, name)
    return bool(rr and rr[0] == "const")


def _is_class_count_of(ctx, f, expr, ckey, depth=0):
    """expr denotes float(self._class_counts_dict[<ckey>]) - directly, through one local, or through a parameter
    that every caller fills that way (with the same class key passed for ckey)."""
    if expr is None or depth > 2:
        return False
    if isinstance(expr, ast.Call) and isinstance(expr.func, ast.Name) and expr.func.id == "float" and len(expr.args) == 1:
        a = expr.args[0]
        return isinstance(a, ast.Subscript) and is_self_attr(a.value, "_class_counts_dict") and isinstance(a.slice, ast.Name) \
            and a.slice.id == ckey
    if isinstance(expr, ast.Name):
        d = _single_def(f, expr.id)
        if d is not None:
            return _is_class_count_of(ctx, f, d, ckey, depth + 1)
        if expr.id in f.params and ckey in f.params:
            sites = [cs for cs in ctx.r.callers_of.get(f.qual, []) if ctx.reachable(cs.func)]
            if not sites:
                return False
            for cs in sites:
                b = bind_args(cs.node, f)["bound"]
                a, k = b.get(expr.id), b.get(ckey)
                if not (isinstance(k, ast.Name) and _is_class_count_of(ctx, cs.func, a, k.id, depth + 1)):
                    return False
            return True
    return False


def shape_sites(ctx, clause):
    """Shape(name=, class_uri=, n_instances=) at the two base-shape builders."""
    p, r = ctx.p, ctx.r
    shape_cls = p.find_class("Shape")
    obs, n = [], 0
    for cs in r.callsites:
        if not (cs.kind == "ctor" and cs.recv_types is shape_cls):
            continue
        f = cs.func
        n += 1
        kw = {k.arg: k.value for k in cs.node.keywords}
        problems = []
        cu = kw.get("class_uri")
        if not isinstance(cu, ast.Name):
            problems.append("class_uri is not a plain variable")
        else:
            ni = kw.get("n_instances")
            ok = isinstance(ni, ast.Call) and isinstance(ni.func, ast.Name) and ni.func.id == "int" and len(ni.args) == 1 \
                and _is_class_count_of(ctx, f, ni.args[0], cu.id)
            if not ok:
                problems.append("n_instances=`%s` is not int(float(self._class_counts_dict[%s]))" % (norm(ni) if ni is not None else "?", cu.id))
            nm = kw.get("name")
            d = _single_def(f, nm.id) if isinstance(nm, ast.Name) else nm          # a named step or the call itself
            ok = isinstance(d, ast.Call) and isinstance(d.func, ast.Name) and d.func.id == "build_shapes_name_for_class_uri"
            if ok:
                kk = {k.arg: k.value for k in d.keywords}
                ok = isinstance(kk.get("class_uri"), ast.Name) and kk["class_uri"].id == cu.id and is_self_attr(kk.get("shapes_namespace"), "_shapes_namespace")
            if not ok:
                problems.append("the shape label is not directly build_shapes_name_for_class_uri(class_uri=%s, shapes_namespace=self._shapes_namespace)" % cu.id)
        obs.append(Ob(clause, "R-FLOW", "R-FLOW|shape-figures|%s" % f.short, f.loc(cs.node), not problems,
                      "Shape built in %s: label, class and instance count belong to the same class key" % f.short if not problems else "; ".join(problems)))
    return obs, n


def no_arithmetic_on_figures(ctx, clause):
    """probability / n_occurences arguments of every Statement construction are copies, never sums."""
    p, r = ctx.p, ctx.r
    obs = []
    for cs in r.callsites:
        if cs.kind == "ctor" and cs.recv_types.name in ("Statement", "FixedPropChoiceStatement"):
            kw = {k.arg: k.value for k in cs.node.keywords}
            for field in ("probability", "n_occurences"):
                v = kw.get(field)
                if v is None:
                    continue
                ok = isinstance(v, (ast.Name, ast.Constant)) or (isinstance(v, ast.Attribute) and v.attr == field) \
                    or (isinstance(v, (ast.Subscript, ast.Call)) and not any(isinstance(x, ast.BinOp) for x in ast.walk(v)))   # a read / a call, no sum
                obs.append(Ob(clause, "R-FLOW", "R-FLOW|figure-arithmetic|%s|%s" % (cs.func.short, field), cs.func.loc(cs.node), ok,
                              "%s of the new statement is a copy of a measured figure" % field if ok else
                              "%s of the new statement is computed: `%s` (two instance sets are summed although one instance can be in "
                              "both: the ratio can exceed 100 %%)" % (field, norm(v)[:80])))
    return obs


def class_iteration_agreement(ctx, clause):
    """Numerator and denominator range over the same classes: every loop over 'the classes of an instance' - the class
    list of an instance entry (`...[POS_CLASSES]`, or the list paired with the instance by `.items()` of the instances
    dictionary) - iterates that list itself.  A site that first filters, de-duplicates or re-orders it while the others do
    not makes the instance count (denominator) and the feature counts (numerators) disagree for the same instance."""
    p = ctx.p
    sites = []
    for f in p.funcs.values():
        if not f.module.name.startswith("shexer.core.profiling") or not ctx.reachable(f):
            continue
        pair_lists = set()        # names bound as the second element of `for k, v in <instances dict>.items()`
        for x in walk_own(f.node):
            if isinstance(x, ast.For) and isinstance(x.target, ast.Tuple) and len(x.target.elts) == 2 and isinstance(x.iter, ast.Call) \
                    and isinstance(x.iter.func, ast.Attribute) and x.iter.func.attr == "items" and "i_dict" in norm(x.iter.func.value).replace("instances_dict", "i_dict"):
                if isinstance(x.target.elts[1], ast.Name):
                    pair_lists.add(x.target.elts[1].id)
            # the same pairing after the loader's lowering (`for k in D: v = D[k]`)
            if isinstance(x, ast.For) and isinstance(x.target, ast.Name) and "i_dict" in norm(x.iter).replace("instances_dict", "i_dict") \
                    and x.body and isinstance(x.body[0], ast.Assign) and len(x.body[0].targets) == 1 and isinstance(x.body[0].targets[0], ast.Name) \
                    and isinstance(x.body[0].value, ast.Subscript) and norm(x.body[0].value.value) == norm(x.iter) \
                    and isinstance(x.body[0].value.slice, ast.Name) and x.body[0].value.slice.id == x.target.id:
                pair_lists.add(x.body[0].targets[0].id)
        for x in walk_own(f.node):
            its = []
            if isinstance(x, ast.For):
                its.append(x.iter)
            if isinstance(x, (ast.ListComp, ast.SetComp, ast.GeneratorExp, ast.DictComp)):
                its += [g.iter for g in x.generators]
            for it in its:
                inner = it
                wrappers = []
                while isinstance(inner, ast.Call) and inner.args:
                    wrappers.append(norm(inner.func))
                    inner = inner.args[0]
                is_cls = False
                if isinstance(inner, ast.Subscript):
                    try:
                        is_cls = p.fold(f.module, inner.slice) == 0 and "dict" in norm(inner.value)
                    except Exception:
                        is_cls = False
                    if is_cls and not (isinstance(inner.slice, ast.Name) and "CLASS" in inner.slice.id):
                        is_cls = False
                if isinstance(inner, ast.Name) and inner.id in pair_lists:
                    is_cls = True
                if is_cls:
                    sites.append((f, it, tuple(wrappers)))
    obs = []
    shapes = {}
    for _, _, w in sites:
        shapes[w] = shapes.get(w, 0) + 1
    major = max(shapes, key=lambda k: (shapes[k], k == ())) if shapes else ()
    for f, it, w in sites:
        ok = len(shapes) == 1 or w == major      # relative rule: all sites agree (whatever they do to the list)
        key = "R-COUNT|class-iteration|%s|%s" % (f.short, f.key(it)[:50])
        if any(o.key == key for o in obs):
            continue
        obs.append(Ob(clause, "R-COUNT", key, f.loc(it), ok,
                      "%s iterates the class list of the instance like the other %d sites" % (f.short, len(sites) - 1) if ok else
                      "%s iterates `%s` (%s) while %d other site(s) iterate %s: instance counts and feature counts are no longer "
                      "taken over the same classes of an instance" % (
                          f.short, norm(it)[:60], "through " + "/".join(w) if w else "the list itself", shapes[major],
                          "the list through " + "/".join(major) if major else "the list itself")))
    return obs, len(sites)
