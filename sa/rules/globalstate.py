"""R-GLOBAL: process-global mutable state.

* class attributes bound to a mutable container (dict/list/set literal or constructor) that some method
  mutates are shared by every instance, hence by every Shaper of the process;
* module globals rebound or mutated at run time."""
import ast
from ..core import walk_own, norm
from ..report import Ob
from .pure import MUTATORS

_MUTABLE_CALLS = {"dict", "list", "set", "defaultdict", "OrderedDict", "Counter", "deque"}


def _is_mutable(expr):
    if isinstance(expr, (ast.Dict, ast.List, ast.Set, ast.DictComp, ast.ListComp, ast.SetComp)):
        return True
    return isinstance(expr, ast.Call) and isinstance(expr.func, ast.Name) and expr.func.id in _MUTABLE_CALLS


def class_level_mutables(ctx, clause):
    obs, n = [], 0
    for c in ctx.p.classes.values():
        n += 1
        for name, expr in c.class_consts.items():
            if not _is_mutable(expr):
                continue
            writers = []
            for k in [c] + c.all_subclasses():
                for m in list(k.methods.values()) + list(k.setters.values()):
                    for x in walk_own(m.node):
                        tgt = None
                        if isinstance(x, ast.Call) and isinstance(x.func, ast.Attribute) and x.func.attr in MUTATORS:
                            tgt = x.func.value
                        elif isinstance(x, (ast.Assign, ast.AugAssign)):
                            for t in (x.targets if isinstance(x, ast.Assign) else [x.target]):
                                if isinstance(t, ast.Subscript):
                                    tgt = t.value
                        if isinstance(tgt, ast.Attribute) and tgt.attr == name and isinstance(tgt.value, ast.Name) \
                                and tgt.value.id in ("self", "cls", k.name, c.name):
                            # an instance attribute of the same name assigned in __init__ would shadow the class attribute
                            shadow = any(name in ctx.r.field_assigns.get(kk.qual, {}) for kk in k.mro())
                            if not shadow:
                                writers.append((m, x))
            key = "R-GLOBAL|class-attr|%s.%s" % (c.name, name)
            if writers:
                m, x = writers[0]
                obs.append(Ob(clause, "R-GLOBAL", key, m.loc(x), False,
                              "%s.%s is a class-level mutable container written by %s (`%s`): the state is shared by every "
                              "instance of the process" % (c.name, name, m.short, norm(x)[:50])))
            else:
                obs.append(Ob(clause, "R-GLOBAL", key, c.module.relpath + ":%d" % c.node.lineno, True,
                              "class-level container %s.%s is never written" % (c.name, name)))
    obs.append(Ob(clause, "R-GLOBAL", "R-GLOBAL|class-attr|scan", "shexer:0", True,
                  "%d classes scanned for class-level mutable state" % n))
    return obs, n


def module_globals(ctx, clause):
    """Module globals rebound at run time (`global x` + assignment)."""
    obs = []
    for m in ctx.p.modules.values():
        for name in sorted(m.globals_mutated):
            users = [f for f in ctx.p.funcs.values() if f.module is m and any(
                isinstance(n, ast.Global) and name in n.names for n in walk_own(f.node))]
            obs.append((m, name, users))
    return obs


def module_level_mutables(ctx, clause):
    """Module-level mutable containers (dict/list/set/OrderedDict ... bound at import time) that a function of the package
    mutates at run time: state that outlives every Shaper of the process (caches, registries, counters in a list).
    Returns obligations, one per container; a container nobody writes is a constant table."""
    p = ctx.p
    obs, n = [], 0
    for m in p.modules.values():
        for name, expr in m.consts.items():
            if not _is_mutable(expr) and not (isinstance(expr, ast.Call) and isinstance(expr.func, ast.Attribute)
                                              and expr.func.attr in _MUTABLE_CALLS):
                continue
            n += 1
            writers = []
            for f in p.funcs.values():
                # the name as seen from f's module
                local = None
                if f.module is m:
                    local = name
                else:
                    for ln, imp in f.module.imports.items():
                        if imp[0] == "name" and imp[1] == m.name and imp[2] == name:
                            local = ln
                if local is None or local in f.local_names or local in f.params:
                    continue
                for x in walk_own(f.node):
                    tgt = None
                    if isinstance(x, ast.Call) and isinstance(x.func, ast.Attribute) and x.func.attr in MUTATORS | {"move_to_end", "popitem", "setdefault"}:
                        tgt = x.func.value
                    elif isinstance(x, (ast.Assign, ast.AugAssign)):
                        for t in (x.targets if isinstance(x, ast.Assign) else [x.target]):
                            if isinstance(t, ast.Subscript):
                                tgt = t.value
                    elif isinstance(x, ast.Delete):
                        for t in x.targets:
                            if isinstance(t, ast.Subscript):
                                tgt = t.value
                    if isinstance(tgt, ast.Name) and tgt.id == local:
                        writers.append((f, x))
            key = "R-GLOBAL|module-container|%s.%s" % (m.name.split(".")[-1], name)
            live = [(f, x) for f, x in writers if ctx.reachable(f)]
            if live:
                f, x = live[0]
                obs.append(Ob(clause, "R-GLOBAL", key, f.loc(x), False,
                              "%s.%s is a module-level container written at run time by %s (`%s`): what one Shaper (or one call) "
                              "stores there is seen by every later one in the process - results depend on the history of the "
                              "process, not only on the arguments and the input" % (m.name, name, ", ".join(sorted({w.short for w, _ in live})),
                                                                                    norm(x)[:50])))
            else:
                obs.append(Ob(clause, "R-GLOBAL", key, m.relpath + ":%d" % getattr(expr, "lineno", 1), True,
                              "module-level container %s.%s is never written at run time" % (m.name.split(".")[-1], name)))
    return obs, n
