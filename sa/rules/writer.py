"""R-PROTO: the output-channel protocol of ShexSerializer, decided on the code itself.

The serializer funnels every line through one sink method, buffers lines, writes the buffer out when it reaches a
size threshold and once more at the end, to a string or to a file.  Which helper does what has been reorganised
more than once, so the rule does not look for particular helpers: it interprets `serialize_shapes` abstractly
(sa.abseval) on a serializer with no shapes and four symbolic namespaces - five lines through the sink - with the
buffer threshold scaled to 2 (two size-triggered write-outs and a final partial one) and with the threshold as
written (single final write-out), for the string and for the file channel, and compares the four symbolic outputs:

  * chunked == unchunked            nothing is lost, repeated or reordered by intermediate write-outs
  * file    == string               the two channels receive the same text
  * every namespace token appears exactly once

and states who may touch the channel state: methods that write the buffer, the string result or open the target
file must be among those the interpretation went through (the channel's own code), or be listed with a reason.
Lines of shapes reach the output through the same sink (`_write_line`), which R-SINK establishes by call graph."""
import ast
from ..abseval import Evaluator, Distinct, Cat, Opaque, Raised, Fork
from ..core import AnalysisError, walk_own, is_self_attr, norm
from ..report import Ob
from .pure import MUTATORS

# channel-state writers outside the interpreted protocol, each with its reason
OUTSIDE_PROTOCOL = {
    "ShexSerializer._annotate_wikidata_ids_in_result":
        "post-processing of the complete text under wikidata_annotation=True (needs the network): replaces the result as a whole "
        "after the final write-out",
}

SX = "shexer.io.shex.formater.shex_serializer:ShexSerializer."
N_NS = 4


def _flatten(v):
    if v is None:
        return None
    if isinstance(v, Cat):
        return list(v.parts)
    if isinstance(v, (list, tuple)):
        out = []
        for x in v:
            out.extend(_flatten(x))
        return _merge(out)
    return [v]


def _merge(parts):
    out = []
    for x in parts:
        if isinstance(x, str) and out and isinstance(out[-1], str):
            out[-1] += x
        elif x != "":
            out.append(x)
    return out


def _threshold(ctx, cls):
    """The buffer-size constant: an integer K > 8 inside a comparison that also measures `len(self.<buffer>)`
    (`len(buf) >= K`, `len(buf) % K == 0`, ...) in a method of the class."""
    found = []
    for m in cls.methods.values():
        for n in walk_own(m.node):
            if not isinstance(n, ast.Compare):
                continue
            has_len = any(isinstance(a, ast.Call) and isinstance(a.func, ast.Name) and a.func.id == "len" and a.args and is_self_attr(a.args[0])
                          for a in ast.walk(n))
            if not has_len:
                continue
            for b in ast.walk(n):
                if isinstance(b, (ast.Constant, ast.Name, ast.Attribute)):
                    try:
                        k = ctx.p.fold(m.module, b)
                    except Exception:
                        continue
                    if type(k) is int and k > 8:
                        found.append((k, m, n))
    return found


def _init_env(ev, cls, args):
    """Field values after __init__: every `self.x = e` evaluated over the arguments, Opaque when e is out of reach."""
    init = cls.find_method("__init__")
    env = dict(args)
    for p_, d in init.defaults.items():
        if p_ not in env:
            try:
                env[p_] = ev.expr(d, {}, init, 0)
            except (AnalysisError, Fork, Raised):
                env[p_] = Opaque(p_)
    for p_ in init.bound_params:
        env.setdefault(p_, Opaque(p_))
    selfenv = {}
    for st in init.node.body:
        if isinstance(st, ast.Assign) and len(st.targets) == 1 and is_self_attr(st.targets[0]):
            ev._decisions, ev._taken = [], []
            try:
                v = ev.expr(st.value, dict(env, **selfenv), init, 0)
            except (AnalysisError, Fork, Raised):
                v = Opaque(st.targets[0].attr)
            selfenv["self." + st.targets[0].attr] = v
    return selfenv


def _run(ctx, cls, string_channel, override):
    ev = Evaluator(ctx, max_depth=12)
    ev.int_override = dict(override)
    ns = {}
    toks = []
    for i in range(N_NS):
        k, v = Distinct("ns%d" % i), Distinct("pfx%d" % i)
        ns[k] = v
        toks += [k, v]
    path = Distinct("target-file")
    selfenv = _init_env(ev, cls, {"target_file": path, "shapes_list": [], "namespaces_dict": ns, "string_return": string_channel})
    ser = cls.find_method("serialize_shapes")
    ev._decisions, ev._taken, ev.effects, ev._yields = [], [], [], []
    ev.files, ev.opens, ev.visited = {}, [], set()
    before = {k: (list(v) if isinstance(v, list) else v) for k, v in selfenv.items()}
    try:
        ret = ev.call(ser, {}, selfenv, 0)
    except Raised as r:
        return {"raised": r.exc, "visited": ev.visited}
    except Fork as fk:
        raise AnalysisError("the channel protocol of ShexSerializer depends on a value the table does not fix: `%s`" % norm(fk.site)[:60])
    out = _flatten(ret) if string_channel else _merge([y for x in ev.files.get(path, []) for y in _flatten(x)])
    changed = {k for k, v in selfenv.items() if k not in before or repr(before[k]) != repr(v)}
    return {"out": out, "tokens": toks, "visited": set(ev.visited), "opens": list(ev.opens), "changed": changed,
            "files": {k: v for k, v in ev.files.items()}}


def _show(out):
    if out is None:
        return "<nothing>"
    return "".join(x if isinstance(x, str) else "{%s}" % x.name for x in out).replace("\n", "\\n")[:160]


def protocol(ctx, clause):
    p = ctx.p
    cls = p.find_class("ShexSerializer")
    ser = cls.find_method("serialize_shapes")
    obs = []
    ths = _threshold(ctx, cls)
    if len({k for k, _, _ in ths}) > 1:
        raise AnalysisError("several buffer thresholds in ShexSerializer: %s" % sorted({k for k, _, _ in ths}))
    override = {ths[0][0]: 2} if ths else {}
    runs = {}
    for ch in ("string", "file"):
        for mode in ("chunked", "single"):
            runs[(ch, mode)] = _run(ctx, cls, ch == "string", override if mode == "chunked" else {})
    loc = ser.loc()
    for key, r in runs.items():
        if "raised" in r:
            obs.append(Ob(clause, "R-PROTO", "R-PROTO|completes|%s-%s" % key, loc, False,
                          "serialize_shapes raises %s on the %s channel (%s write-out)" % (r["raised"], key[0], key[1])))
    if any("raised" in r for r in runs.values()):
        return obs, runs
    ref = runs[("string", "single")]
    toks = ref["tokens"]
    # completeness of the reference run
    got = [x for x in ref["out"] or [] if isinstance(x, Distinct)]
    ok = sorted(t.name for t in got) == sorted(t.name for t in toks) and \
        [t.name for t in got if t.name.startswith("ns")] == [t.name for t in toks if t.name.startswith("ns")]
    obs.append(Ob(clause, "R-PROTO", "R-PROTO|every-line-once|string-single", loc, ok,
                  "the string output holds every line handed to the sink exactly once, in order" if ok else
                  "the string output does not hold every line exactly once: %s" % _show(ref["out"])))
    for ch in ("string", "file"):
        a, b = runs[(ch, "chunked")], runs[(ch, "single")]
        same = _show(a["out"]) == _show(b["out"]) and a["out"] is not None
        obs.append(Ob(clause, "R-PROTO", "R-PROTO|chunked-equals-single|%s" % ch, loc, same,
                      "%s channel: write-outs triggered by the buffer size leave the text unchanged (threshold %s scaled to 2, "
                      "5 lines)" % (ch, ths[0][0] if ths else "absent") if same else
                      "%s channel: with intermediate write-outs (every 2 lines instead of every %s) the text differs from a single "
                      "write-out: `%s` instead of `%s`" % (ch, ths[0][0] if ths else "?", _show(a["out"]), _show(b["out"]))))
    for mode in ("chunked", "single"):
        a, b = runs[("file", mode)], runs[("string", mode)]
        same = _show(a["out"]) == _show(b["out"]) and a["out"] is not None
        obs.append(Ob(clause, "R-PROTO", "R-PROTO|file-equals-string|%s" % mode, loc, same,
                      "the file receives the text returned as a string (%s write-out)" % mode if same else
                      "file and string channel differ (%s write-out): file `%s`, string `%s`" % (mode, _show(a["out"]), _show(b["out"]))))
    # a file from an earlier run does not leak into this one: the first open of the target truncates
    fr = runs[("file", "chunked")]
    first = fr["opens"][0] if fr["opens"] else None
    ok = first is not None and first[1].startswith("w")
    obs.append(Ob(clause, "R-PROTO", "R-PROTO|truncate-first|file", loc, ok,
                  "the first open of the target file truncates it" if ok else
                  "the target file is %s: text of an earlier run stays in the file" % (
                      "first opened with mode '%s' at %s" % (first[1], first[2]) if first else "never opened")))
    # who may touch the channel state
    visited = set().union(*(r["visited"] for r in runs.values()))
    state = set().union(*(r["changed"] for r in runs.values()))
    fields = {k[5:] for k in state}
    n_sites = 0
    for c in [cls] + cls.all_subclasses():
        for m in list(c.methods.values()):
            for n in walk_own(m.node):
                tgt = None
                if isinstance(n, (ast.Assign, ast.AugAssign)):
                    for t in (n.targets if isinstance(n, ast.Assign) else [n.target]):
                        if is_self_attr(t) and t.attr in fields:
                            tgt = t.attr
                elif isinstance(n, ast.Call) and isinstance(n.func, ast.Attribute) and n.func.attr in MUTATORS and is_self_attr(n.func.value) \
                        and n.func.value.attr in fields:
                    tgt = n.func.value.attr
                elif isinstance(n, ast.Call) and isinstance(n.func, ast.Name) and n.func.id == "open":
                    tgt = "open()"
                if tgt is None:
                    continue
                n_sites += 1
                ok = m.qual in visited or m.name == "__init__" or m.short in OUTSIDE_PROTOCOL
                if any(o.key == "R-SINK|channel-state|%s|%s" % (m.short, tgt) for o in obs):
                    continue
                obs.append(Ob(clause, "R-SINK", "R-SINK|channel-state|%s|%s" % (m.short, tgt), m.loc(n), ok,
                              "%s touches %s inside the channel protocol the table covers" % (m.short, tgt) if ok else
                              "%s touches the channel state (%s) outside the protocol the table covers: text can reach the output "
                              "without passing the sink" % (m.short, tgt)))
    return obs, {"runs": runs, "threshold": ths[0][0] if ths else None, "fields": sorted(fields), "sites": n_sites,
                 "visited": sorted(visited)}
