"""R-MERGE: an accumulator of lists is merged entry by entry.

A dictionary whose values are lists that the same function extends (`d[k].append(..)`, `d[k] = []` followed by appends)
is an accumulator: two sources can contribute to one key.  `d.update(other)` replaces the list of every shared key by the
other source's list - what the first source knew about that key is lost without any error."""
import ast
from ..core import walk_own, norm
from ..report import Ob

_POSITIVE = """
def merge(reference, new):
    if not reference:
        reference.update(new)
        return
    for k, vs in new.items():
        if k not in reference:
            reference[k] = []
        for v in vs:
            reference[k].append(v)
"""


def _accumulators(fnode):
    out = set()
    for x in ast.walk(fnode):
        if isinstance(x, ast.Call) and isinstance(x.func, ast.Attribute) and x.func.attr in ("append", "extend") \
                and isinstance(x.func.value, ast.Subscript):
            out.add(norm(x.func.value.value))
        if isinstance(x, ast.Assign) and len(x.targets) == 1 and isinstance(x.targets[0], ast.Subscript) and isinstance(x.value, ast.List):
            out.add(norm(x.targets[0].value))
    return out


def _updates(fnode):
    return [x for x in ast.walk(fnode) if isinstance(x, ast.Call) and isinstance(x.func, ast.Attribute) and x.func.attr == "update"
            and len(x.args) == 1 and not x.keywords]


def _violations(fnode):
    acc = _accumulators(fnode)
    return [u for u in _updates(fnode) if norm(u.func.value) in acc]


def check(ctx, clause):
    obs, n = [], 0
    probe = ast.parse(_POSITIVE).body[0]
    ok = len(_violations(probe)) == 1
    obs.append(Ob(clause, "R-MERGE", "R-MERGE|built-in-positive-example", "sa/rules/merge.py:1", ok,
                  "the rule fires on its built-in positive example (update() on a dictionary of lists that the function also appends to)"
                  if ok else "the rule no longer fires on its built-in positive example"))
    for f in ctx.p.funcs.values():
        if not ctx.reachable(f):
            continue
        acc = _accumulators(f.node)
        if not acc:
            continue
        n += 1
        bad = _violations(f.node)
        key = "R-MERGE|update-overwrites|%s" % f.short
        obs.append(Ob(clause, "R-MERGE", key, f.loc(bad[0]) if bad else f.loc(), not bad,
                      "%s fills its dictionaries of lists entry by entry" % f.short if not bad else
                      "%s merges into the accumulator `%s` with `%s`: for every key both sources know, the first source's list is "
                      "replaced instead of extended" % (f.short, norm(bad[0].func.value), norm(bad[0])[:50])))
    return obs, n
