"""R-SENT: a str.find / str.rfind result that is used as an index (arithmetic, slice bound, subscript, return value)
must be compared with -1 on the way, or the presence of the needle must be established.

Recognised idioms (enumerated from the sites of the pinned tree):
 (i)   the result, or the variable holding it, is compared with -1 (if / while / conditional expression);
 (ii)  a dominating `needle in s` test of the same needle and the same string, also as the earlier
       `elif needle not in s: return ...` arm of the chain the use sits in;
 (iii) results only compared with each other are not index uses;
 (iv)  a call of a predicate whose body compares find/rfind results of that needle (it implies presence).
Everything else is an obligation failure (then either a frozen exception with its reason or a finding)."""
import ast
from ..core import walk_own, norm, parent_map, lit, is_lit, NOLIT
from ..report import Ob


def _is_find(n):
    return isinstance(n, ast.Call) and isinstance(n.func, ast.Attribute) and n.func.attr in ("find", "rfind") and n.args


def _minus_one(n):
    return is_lit(n, -1)


def _compared_with_minus_one(f, name):
    for x in walk_own(f.node):
        if isinstance(x, ast.Compare) and len(x.ops) == 1:
            a, b = x.left, x.comparators[0]
            if (isinstance(a, ast.Name) and a.id == name and _minus_one(b)) or (isinstance(b, ast.Name) and b.id == name and _minus_one(a)):
                return True
    return False


def _fold_txt(ctx, f, e):
    try:
        return repr(ctx.p.fold(f.module, e))
    except Exception:
        return norm(e)


def _same_string(f, a, b):
    """a and b denote the same string, or one is a suffix slice of the other (presence in the suffix implies presence)."""
    if a == b:
        return True
    for x in walk_own(f.node):
        if isinstance(x, ast.Assign) and len(x.targets) == 1 and isinstance(x.targets[0], ast.Name) and isinstance(x.value, ast.Subscript) \
                and isinstance(x.value.slice, ast.Slice) and x.value.slice.upper is None:
            pair = {x.targets[0].id, norm(x.value.value)}
            if pair == {a, b}:
                return True
    return False


def _presence_established(ctx, f, call, pm):
    needle, recv = _fold_txt(ctx, f, call.args[0]), norm(call.func.value)
    cur = call
    while cur in pm:
        par = pm[cur]
        if isinstance(par, (ast.If, ast.IfExp)):
            t = par.test
            in_body = any(cur is x or any(cur is y for y in ast.walk(x)) for x in (par.body if isinstance(par.body, list) else [par.body]))
            in_else = not in_body and cur is not t
            for c in ast.walk(t):
                if isinstance(c, ast.Compare) and len(c.ops) == 1 and _fold_txt(ctx, f, c.left) == needle \
                        and _same_string(f, norm(c.comparators[0]), recv):
                    if isinstance(c.ops[0], ast.In) and in_body:
                        return "dominating `%s in %s`" % (needle, recv)
                    if isinstance(c.ops[0], ast.NotIn) and in_else:
                        return "earlier arm `%s not in %s` exits" % (needle, recv)
                if isinstance(c, ast.Call) and isinstance(c.func, ast.Name) and in_body:
                    r = ctx.p.resolve_name(f.module, c.func.id)
                    if r and r[0] == "func" and any(_is_find(y) and _fold_txt(ctx, r[1], y.args[0]) == needle for y in walk_own(r[1].node)) \
                            and any(isinstance(y, ast.Compare) for y in walk_own(r[1].node)):
                        return "predicate %s() implies the needle occurs" % c.func.id
        cur = par
    # an earlier statement of an enclosing block leaves the function when the needle is absent:
    # `if <...> or needle not in recv: return ...` (the disjunction being false makes every disjunct false)
    cur = call
    while cur in pm:
        par = pm[cur]
        for field in ("body", "orelse"):
            blk = getattr(par, field, None)
            if isinstance(blk, list) and any(cur is s_ for s_ in blk):
                i = [k for k, s_ in enumerate(blk) if s_ is cur][0]
                for prev in blk[:i]:
                    if isinstance(prev, ast.If) and not prev.orelse and prev.body and isinstance(prev.body[-1], (ast.Return, ast.Raise, ast.Continue, ast.Break)):
                        disj = prev.test.values if isinstance(prev.test, ast.BoolOp) and isinstance(prev.test.op, ast.Or) else [prev.test]
                        for c in disj:
                            if isinstance(c, ast.Compare) and len(c.ops) == 1 and isinstance(c.ops[0], ast.NotIn) \
                                    and _fold_txt(ctx, f, c.left) == needle and _same_string(f, norm(c.comparators[0]), recv):
                                return "an earlier `%s not in %s` leaves the function" % (needle, recv)
        cur = par
    return None


def check(ctx, clause, modules=None):
    obs, n = [], 0
    for f in ctx.p.funcs.values():
        if modules is not None and not f.module.name.startswith(tuple(modules)):
            continue
        finds = [x for x in walk_own(f.node) if _is_find(x)]
        if not finds:
            continue
        pm = parent_map(f.node)
        for call in finds:
            n += 1
            par = pm.get(call)
            key = "R-SENT|%s|%s" % (f.short, f.key(call)[:60])
            why = None
            # (iii)/(i) direct comparison
            if isinstance(par, ast.Compare):
                others = [x for x in [par.left] + list(par.comparators) if x is not call]
                if all(_minus_one(o) or _is_find(o) or isinstance(o, ast.Name) for o in others):
                    why = "result is only compared (with -1 / another search result)"
            if why is None and isinstance(par, ast.Assign) and len(par.targets) == 1 and isinstance(par.targets[0], ast.Name):
                v = par.targets[0].id
                if _compared_with_minus_one(f, v):
                    why = "the variable `%s` is compared with -1" % v
                else:
                    uses = [x for x in walk_own(f.node) if isinstance(x, ast.Name) and x.id == v and isinstance(x.ctx, ast.Load)]
                    if uses and all(isinstance(pm.get(u), ast.Compare) for u in uses):
                        why = "the variable `%s` is only compared" % v
            if why is None:
                why = _presence_established(ctx, f, call, pm)
            if why is None and isinstance(par, ast.BinOp) and isinstance(par.op, ast.Add) and is_lit(par.right, 1) \
                    and isinstance(pm.get(par), ast.Slice) and pm.get(par).lower is par:
                why = "`s[s.rfind(c) + 1:]`: an absent needle gives 0, i.e. the whole string (total idiom)"
            if why is None:
                why = _caller_establishes(ctx, f, call)
            if why is None and isinstance(par, ast.Return) and isinstance(pm.get(par), (ast.FunctionDef,)) :
                callers = ctx.r.callers_of.get(f.qual, [])
                if callers and all(_caller_checks(cs) for cs in callers):
                    why = "every caller compares the returned position with -1"
            obs.append(Ob(clause, "R-SENT", key, f.loc(call), why is not None,
                          "`%s`: %s" % (norm(call)[:50], why) if why else
                          "`%s` in %s is used as an index although the search can return -1 (needle absent): the scanner then "
                          "slices from the wrong end or never advances" % (norm(call)[:50], f.short), note=not ctx.reachable(f)))
    return obs, n


def _caller_checks(cs):
    pm = parent_map(cs.func.node)
    par = pm.get(cs.node)
    if isinstance(par, ast.Assign) and isinstance(par.targets[0], ast.Name):
        return _compared_with_minus_one(cs.func, par.targets[0].id)
    return isinstance(par, ast.Compare)


def _caller_establishes(ctx, f, call):
    """Single call site one level up: the call sits under / after a `needle in arg` test of the argument."""
    if not isinstance(call.func.value, ast.Name) or call.func.value.id not in f.params:
        return None
    sites = ctx.r.callers_of.get(f.qual, [])
    if len(sites) != 1:
        return None
    cs = sites[0]
    from ..resolve import bind_args
    arg = bind_args(cs.node, f)["bound"].get(call.func.value.id)
    if arg is None:
        return None
    needle = _fold_txt(ctx, f, call.args[0])
    pm = parent_map(cs.func.node)
    cur = cs.node
    while cur in pm:
        par = pm[cur]
        if isinstance(par, ast.IfExp):
            for c in ast.walk(par.test):
                if isinstance(c, ast.Compare) and len(c.ops) == 1 and _fold_txt(ctx, cs.func, c.left) == needle \
                        and norm(c.comparators[0]) == norm(arg):
                    if isinstance(c.ops[0], ast.NotIn) and any(cur is y for y in ast.walk(par.orelse)):
                        return "the only caller (%s) calls it in the else-arm of `%s`" % (cs.func.short, norm(par.test))
                    if isinstance(c.ops[0], ast.In) and any(cur is y for y in ast.walk(par.body)):
                        return "the only caller (%s) calls it under `%s`" % (cs.func.short, norm(par.test))
        if isinstance(par, ast.If):
            # statement form of the same guard: the call sits in the arm where the needle is present
            for c in ([par.test] if isinstance(par.test, ast.Compare) else par.test.values if isinstance(par.test, ast.BoolOp)
                      and isinstance(par.test.op, ast.And) else []):
                if isinstance(c, ast.Compare) and len(c.ops) == 1 and _fold_txt(ctx, cs.func, c.left) == needle \
                        and norm(c.comparators[0]) == norm(arg):
                    if isinstance(c.ops[0], ast.In) and any(cur is s_ for s_ in par.body):
                        return "the only caller (%s) calls it under `if %s`" % (cs.func.short, norm(par.test))
                    if isinstance(c.ops[0], ast.NotIn) and isinstance(par.test, ast.Compare) and any(cur is s_ for s_ in par.orelse):
                        return "the only caller (%s) calls it in the else-arm of `if %s`" % (cs.func.short, norm(par.test))
        # guard clause before the call: `if needle not in arg: return ...` earlier in the same block
        for field in ("body", "orelse"):
            blk = getattr(par, field, None)
            if isinstance(blk, list) and any(cur is s_ for s_ in blk):
                for prev in blk[:[i for i, s_ in enumerate(blk) if s_ is cur][0]]:
                    if isinstance(prev, ast.If) and not prev.orelse and prev.body and isinstance(prev.body[-1], (ast.Return, ast.Raise, ast.Continue)) \
                            and isinstance(prev.test, ast.Compare) and len(prev.test.ops) == 1 and isinstance(prev.test.ops[0], ast.NotIn) \
                            and _fold_txt(ctx, cs.func, prev.test.left) == needle and norm(prev.test.comparators[0]) == norm(arg):
                        return "the only caller (%s) leaves before the call when `%s`" % (cs.func.short, norm(prev.test))
        cur = par
    return None
