"""R-LAYOUT: the class profile `_classes_shape_dict[class]` is a dict under
DirectFeaturesStrategy and a pair of dicts under IncludeReverseFeaturesStrategy
(`{}` vs `({}, {})` in init_annotated_targets/init_original_targets).  Code outside the
strategy classes that subscripts one level below the class key depends on the layout
and is wrong for one of the two strategies."""
import ast
from ..core import walk_own, norm
from ..report import Ob

FIELDS = {"_classes_shape_dict", "_c_shapes_dict", "_class_profile_dict"}


def _depth(node):
    d, cur = 0, node
    while isinstance(cur, ast.Subscript):
        d += 1
        cur = cur.value
    return d, cur


def check(ctx, clause):
    obs, n = [], 0
    p = ctx.p
    strat_profile = p.find_class("AbstractFeatureDirectionStrategy")
    strat_shex = p.find_class("AbstractShexingStrategy")
    # the two layouts must really differ, otherwise the rule has nothing to say
    inits = {}
    for cname in ("DirectFeaturesStrategy", "IncludeReverseFeaturesStrategy"):
        c = p.find_class(cname)
        kinds = set()
        for m in c.mro():
            for f in m.methods.values():
                for x in walk_own(f.node):
                    if isinstance(x, ast.Assign) and isinstance(x.targets[0], ast.Subscript):
                        d, base = _depth(x.targets[0])
                        if d == 1 and isinstance(base, ast.Attribute) and base.attr in FIELDS and f.cls is c:
                            kinds.add(type(x.value).__name__)
        inits[cname] = kinds
    layouts_differ = inits["DirectFeaturesStrategy"] != inits["IncludeReverseFeaturesStrategy"]
    for f in p.funcs.values():
        seen = set()
        for x in walk_own(f.node):
            if isinstance(x, ast.Subscript):
                d, base = _depth(x)
                if isinstance(base, ast.Attribute) and base.attr in FIELDS and d >= 1:
                    txt = norm(x)
                    # keep only maximal subscript chains
                    if any(txt != s and s.startswith(txt) for s in seen):
                        continue
                    seen.add(txt)
        maximal = [s for s in seen if not any(s != t and t.startswith(s) for t in seen)]
        for x in walk_own(f.node):
            if isinstance(x, (ast.For, ast.comprehension)) and isinstance(x.iter, ast.Subscript):
                d, base = _depth(x.iter)
                if isinstance(base, ast.Attribute) and base.attr in FIELDS and d == 1:
                    maximal.append("for-in " + norm(x.iter))
            if isinstance(x, ast.Call) and isinstance(x.func, ast.Name) and x.func.id == "len" and x.args \
                    and isinstance(x.args[0], ast.Subscript):
                d, base = _depth(x.args[0])
                if isinstance(base, ast.Attribute) and base.attr in FIELDS and d == 1:
                    maximal.append("len " + norm(x.args[0]))
        for s in sorted(set(maximal)):
            n += 1
            deep = s.startswith("for-in ") or s.startswith("len ") or s.count("][") >= 1
            inside = f.cls is not None and (strat_profile in f.cls.mro() or strat_shex in f.cls.mro())
            ok = inside or not deep or not layouts_differ
            obs.append(Ob(clause, "R-LAYOUT", "R-LAYOUT|%s|%s" % (f.short, s[:70]), f.loc(), ok,
                          ("layout-dependent access `%s` is inside a direction strategy" % s[:60]) if inside else
                          (("access `%s` does not look below the class key" % s[:60]) if ok else
                           "`%s` reads below the class key outside the direction strategies: the entry is a dict under "
                           "DirectFeaturesStrategy but a pair ({}, {}) under IncludeReverseFeaturesStrategy" % s[:60]),
                          note=not ctx.reachable(f)))
    return obs, n
