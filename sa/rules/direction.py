"""Rules about the direction (direct / inverse) of features and statements (C14, also C04/C05/C11)."""
import ast
import re
from ..core import walk_own, norm, is_self_attr, AnalysisError, lit, is_lit, NOLIT
from ..report import Ob

SO = [(r"\b_S\b", "_ROLE"), (r"\b_O\b", "_ROLE"), (r"subject", "ROLE"), (r"object", "ROLE"), (r"subj", "ROLE"), (r"obj", "ROLE")]


def const_tables(ctx, clause):
    p = ctx.p
    obs = []
    pc = "shexer.core.profiling.consts"
    vals = {n: p.const(pc, n) for n in ("POS_CLASSES", "POS_FEATURES_DIRECT", "POS_FEATURES_INVERSE")}
    irf = "shexer.core.profiling.strategy.include_reverse_features_strategy"
    dis = "shexer.core.shexing.strategy.direct_and_inverse_shexing_strategy"
    w = {n: p.const(irf, n) for n in ("_C_MAP_POS_DIRECT", "_C_MAP_POS_INVERSE")}
    rd = {n: p.const(dis, n) for n in ("_POS_FEATURES_DIRECT", "_POS_FEATURES_INVERSE")}
    ok = vals == {"POS_CLASSES": 0, "POS_FEATURES_DIRECT": 1, "POS_FEATURES_INVERSE": 2}
    obs.append(Ob(clause, "R-CONST", "R-CONST|instance-entry-positions", p.module(pc).relpath + ":1", ok,
                  "instance entry = (classes, direct features, inverse features) at positions %s" % vals))
    ok = w["_C_MAP_POS_DIRECT"] == rd["_POS_FEATURES_DIRECT"] == 0 and w["_C_MAP_POS_INVERSE"] == rd["_POS_FEATURES_INVERSE"] == 1
    obs.append(Ob(clause, "R-CONST", "R-CONST|class-profile-positions|writer-vs-reader", p.module(irf).relpath + ":1", ok,
                  "profiler writes (direct, inverse) at %s and the shexer reads them at %s" % (w, rd) if ok else
                  "the profiler writes the class profile halves at %s but the shexer reads them at %s" % (w, rd)))
    # the tuples really have that arity / order
    adapt = p.func(irf + ":IncludeReverseFeaturesStrategy.adapt_instances_dict")
    tup = [n.value for n in walk_own(adapt.node) if isinstance(n, ast.Assign) and isinstance(n.value, ast.Tuple)]
    ok = len(tup) == 1 and len(tup[0].elts) == 3 and all(isinstance(e, ast.Dict) and not e.keys for e in tup[0].elts[1:])
    obs.append(Ob(clause, "R-CONST", "R-CONST|instance-entry-arity|IncludeReverseFeaturesStrategy.adapt_instances_dict", adapt.loc(), ok,
                  "instance entries are re-wrapped as (classes, {}, {})" if ok else "instance entry is not a 3-tuple (classes, {}, {})"))
    return obs


def statement_direction_agreement(ctx, clause):
    """Every Statement / choice construction: the direction of the serializer object equals the is_inverse flag;
    statements built from the inverse half of the profile are flagged inverse, from the direct half direct."""
    p, r = ctx.p, ctx.r
    obs, n = [], 0
    for cs in r.callsites:
        if not (cs.kind == "ctor" and cs.recv_types.name in ("Statement", "FixedPropChoiceStatement")):
            continue
        f = cs.func
        kw = {k.arg: k.value for k in cs.node.keywords}
        so = kw.get("serializer_object")
        inv = kw.get("is_inverse")
        if isinstance(so, ast.Call):
            n += 1
            skw = {k.arg: k.value for k in so.keywords}
            e = skw.get("is_inverse")
            ok = e is not None and inv is not None and norm(e) == norm(inv)
            obs.append(Ob(clause, "R-PLUMB", "R-PLUMB|direction|%s|%s" % (f.short, cs.recv_types.name), f.loc(cs.node), ok,
                          "statement direction and serializer direction come from the same expression `%s`" % norm(inv) if ok else
                          "the statement is built with the serializer for is_inverse=`%s` but its own is_inverse is `%s`" % (
                              norm(e) if e is not None else "<default>", norm(inv) if inv is not None else "<default False>")))
        src = ast.unparse(f.node)
        m = re.findall(r"_POS_FEATURES_(DIRECT|INVERSE)", src)
        if m and len(set(m)) == 1:
            n += 1
            want = m[0] == "INVERSE"
            got = lit(inv) if inv is not None and lit(inv) is not NOLIT else (False if inv is None else None)
            ok = got is want
            obs.append(Ob(clause, "R-PLUMB", "R-PLUMB|direction-of-profile-half|%s" % f.short, f.loc(cs.node), ok,
                          "statements built from the %s half are flagged is_inverse=%s" % (m[0].lower(), want) if ok else
                          "%s reads the %s half of the profile but builds statements with is_inverse=%s" % (f.short, m[0].lower(), norm(inv) if inv is not None else "<default False>")))
    return obs, n


def sense_flag_emitted(ctx, clause):
    """Every statement serializer prints the direction flag of its statements."""
    p = ctx.p
    base = p.find_class("BaseStatementSerializer")
    obs = []
    for c in [base] + base.all_subclasses():
        m = c.methods.get("serialize_statement_with_indent_level")
        if m is None:
            continue
        calls = [n for n in walk_own(m.node) if isinstance(n, ast.Call) and isinstance(n.func, ast.Attribute) and n.func.attr == "_sense_flag"]
        ok = len(calls) >= 1
        obs.append(Ob(clause, "R-EMIT", "R-EMIT|sense-flag|%s" % m.short, m.loc(), ok,
                      "%s prints the direction flag (^ for inverse statements)" % m.short if ok else
                      "%s never calls _sense_flag(): an inverse constraint of this kind is printed as a direct one" % m.short))
    return obs


def symmetric_relevance(ctx, clause):
    """In the annotate-triple variants of the inverse strategy the subject arm and the object arm are the
    same code under S<->O."""
    p = ctx.p
    obs = []
    for name in ("_annotate_triple_features_no_examples", "_annotate_triple_features_with_examples"):
        f = p.method("IncludeReverseFeaturesStrategy", name)
        ifs = [s for s in f.node.body if isinstance(s, ast.If)]
        if len(ifs) != 2 or len([s for s in f.node.body if not (isinstance(s, ast.Expr) and isinstance(s.value, ast.Constant))]) != 2:
            obs.append(Ob(clause, "R-TWIN", "R-TWIN|subject-object-arms|%s" % f.short, f.loc(), False,
                          "%s is not `if subject relevant: ...` followed by `if object relevant: ...`" % f.short))
            continue
        texts = []
        for s in ifs:
            t = ast.unparse(s)
            for pat, rep in SO:
                t = re.sub(pat, rep, t)
            texts.append(t)
        ok = texts[0] == texts[1] and not ifs[0].orelse
        if not ok and not ifs[0].orelse and not ifs[1].orelse:
            # the same comparison on canonical arms: local names by order of appearance, the direction flag as a role
            # (`inverse=False` in the subject arm, `inverse=True` in the object arm), pure S<->O otherwise
            from .twin import normal_form
            forms = []
            for s_ in ifs:
                wrap = ast.FunctionDef(name="arm", args=ast.arguments(posonlyargs=[], args=[ast.arg("self"), ast.arg("a_triple")], kwonlyargs=[],
                                                                      kw_defaults=[], defaults=[]), body=[s_], decorator_list=[], lineno=s_.lineno,
                                       col_offset=0)
                ast.fix_missing_locations(wrap)
                forms.append(normal_form(f, SO + [(r"inverse=(True|False)", "inverse=FLAG")], node=wrap))
            ok = forms[0] == forms[1]
        guard = norm(ifs[0].test)
        ok = ok and guard.startswith("self._is_relevant_instance(")
        obs.append(Ob(clause, "R-TWIN", "R-TWIN|subject-object-arms|%s" % f.short, f.loc(), ok,
                      "subject and object arms of %s are symmetric and independent" % f.short if ok else
                      "subject arm `%s` and object arm `%s` of %s differ beyond S<->O" % (norm(ifs[0])[:80], norm(ifs[1])[:80], f.short)))
    f = p.method("IncludeReverseFeaturesStrategy", "is_a_relevant_triple")
    src = ast.unparse(f.node)
    ok = "_S" in src and "_O" in src and "_is_relevant_instance" in src
    obs.append(Ob(clause, "R-TWIN", "R-TWIN|relevant-triple-both-ends", f.loc(), ok,
                  "a triple is relevant when its subject or its object is a tracked instance"))
    return obs


def serializer_family_arguments(ctx, clause):
    """All statement serializers of the factory are built from the same options; they differ in class and direction only."""
    p, r = ctx.p, ctx.r
    fac = p.find_class("StSerializerFactory")
    base = p.find_class("BaseStatementSerializer")
    sites = [cs for cs in r.callsites if cs.kind == "ctor" and base in cs.recv_types.mro() and cs.func.cls is fac]
    if len(sites) < 4:
        raise AnalysisError("StSerializerFactory: expected 4 statement-serializer constructions, found %d" % len(sites))
    obs = []
    ref = None
    combos = set()
    for cs in sites:
        kw = {k.arg: norm(k.value) for k in cs.node.keywords}
        if cs.node.args:
            kw["<positional>"] = ",".join(norm(a) for a in cs.node.args)
        inv = kw.pop("is_inverse", "<missing>")
        combos.add((cs.recv_types.name, inv))
        if ref is None:
            ref = (cs, kw)
            continue
        ok = kw == ref[1]
        obs.append(Ob(clause, "R-TWIN", "R-TWIN|serializer-family|%s|%s,%s" % (cs.func.short, cs.recv_types.name, inv), cs.func.loc(cs.node), ok,
                      "%s(is_inverse=%s) is built from the same options as its siblings" % (cs.recv_types.name, inv) if ok else
                      "%s(is_inverse=%s) is built with %s, its sibling with %s" % (cs.recv_types.name, inv, kw, ref[1])))
    want = {(c, i) for c in ("BaseStatementSerializer", "FixedPropChoiceStatementSerializer") for i in ("True", "False")}
    obs.append(Ob(clause, "R-TWIN", "R-TWIN|serializer-family|coverage", fac.methods["__init__"].loc(), combos >= want,
                  "the factory builds a direct and an inverse serializer of both kinds" if combos >= want else
                  "the factory builds only %s" % sorted(combos)))
    return obs


# ------------------------------------------------------------------------------------------------
DIRECTION_PARAMS = ("is_inverse", "inverse")

# callers that legitimately rely on the callee's default direction (False = direct): code that exists only for the
# direct-only configuration, confirmed by reading
DIRECT_ONLY_CLASSES = {
    "DirectFeaturesStrategy": "profiling strategy instantiated only when inverse_paths is off",
    "DirectShexingStrategy": "shexing strategy instantiated only when inverse_paths is off",
}
# and the counterpart: code that exists only when inverse_paths is on (constructed in the other arm of the same choices)
INVERSE_ONLY_CLASSES = {
    "IncludeReverseFeaturesStrategy": "profiling strategy instantiated only when inverse_paths is on",
    "DirectAndInverseShexingStrategy": "shexing strategy instantiated only when inverse_paths is on",
}
DIRECT_ONLY_SUFFIX = "_no_inverse"      # method slots bound when inverse_paths is off (ShexSerializer, ShapeExampleFeaturesDict)


def _direct_only(f):
    if f.cls is not None and f.cls.name in DIRECT_ONLY_CLASSES:
        return DIRECT_ONLY_CLASSES[f.cls.name]
    if f.name.endswith(DIRECT_ONLY_SUFFIX):
        return "variant bound to its slot only when inverse_paths is off"
    return None


def explicit_direction(ctx, clause):
    """R-PLUMB (direction): a callee that has a direction parameter (`is_inverse` / `inverse`) receives it explicitly at
    every call site.  A silent default makes an inverse constraint be built, keyed or printed as a direct one; the only
    callers allowed to rely on the default are the direct-only variants listed above."""
    from ..resolve import bind_args
    from ..core import parent_map
    r = ctx.r
    obs, n = [], 0
    seen = set()
    # the table of direct-only classes is what the code says: each is constructed only in the arm taken when the
    # inverse option is off
    from ..canon import _is_negated
    for table, want_on, label in ((DIRECT_ONLY_CLASSES, False, "direct-only"), (INVERSE_ONLY_CLASSES, True, "inverse-only")):
        for cname, why in table.items():
            sites = [cs for cs in r.callsites if cs.kind == "ctor" and cs.recv_types.name == cname]
            good = bool(sites)
            for cs in sites:
                pm = parent_map(cs.func.node)
                cur, arm_ok = cs.node, False
                while cur in pm:
                    par = pm[cur]
                    if isinstance(par, (ast.IfExp, ast.If)) and any(isinstance(x, ast.Name) and "inverse" in x.id for x in ast.walk(par.test)):
                        neg = _is_negated(par.test)
                        if isinstance(par, ast.IfExp):
                            in_true, in_false = cur is par.body, cur is par.orelse
                        else:
                            in_true, in_false = any(cur is s_ for s_ in par.body), any(cur is s_ for s_ in par.orelse)
                        if in_true or in_false:
                            on = in_true != neg            # the arm taken when the inverse option is on
                            arm_ok = on == want_on
                            break
                    cur = par
                good = good and arm_ok
            obs.append(Ob(clause, "R-CONST", "R-CONST|%s-class|%s" % (label, cname), sites[0].func.loc(sites[0].node) if sites else "shexer:0", good,
                          "%s is constructed only when the inverse option is %s (%d site(s))%s" % (
                              cname, "on" if want_on else "off", len(sites), "" if want_on else ": its callers may rely on the direct default") if good else
                          "%s is listed as %s but is constructed outside the arm taken when the inverse option is %s" % (
                              cname, label, "on" if want_on else "off")))
    for cs in r.callsites:
        if not ctx.reachable(cs.func):
            continue
        for t in cs.targets or []:
            ps = [x for x in list(t.bound_params) + list(t.kwonly) if x in DIRECTION_PARAMS]
            if not ps:
                continue
            b = bind_args(cs.node, t)
            if b.get("star"):
                continue
            for prm in ps:
                key = "R-PLUMB|direction-explicit|%s->%s|%s" % (cs.func.short, t.short, prm)
                if (key, id(cs.node)) in seen:
                    continue
                seen.add((key, id(cs.node)))
                n += 1
                passed = prm in b["bound"]
                why = _direct_only(cs.func)
                ok = passed or why is not None
                obs.append(Ob(clause, "R-PLUMB", key, cs.func.loc(cs.node), ok,
                              ("%s passes %s explicitly to %s" % (cs.func.short, prm, t.short) if passed else
                               "%s relies on the default direction of %s (%s)" % (cs.func.short, t.short, why))
                              if ok else
                              "%s calls %s without `%s`: the callee falls back to its default direction, so an inverse "
                              "constraint handled here is built / keyed / printed as a direct one (`%s`)" % (
                                  cs.func.short, t.short, prm, norm(cs.node)[:70])))
    return obs, n
