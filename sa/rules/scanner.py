"""Rules for the two hand-written scanners (C06 N-Triples, C07 streaming Turtle):
R-CONST language-tag sigil, R-SCOPE what the datatype decision looks at, R-TS statement automaton,
R-IDX inclusive/exclusive index kinds, R-BOUND bounds-check adequacy, R-STALE snapshot of a field the loop updates."""
import ast
import hashlib
from ..core import walk_own, norm, is_self_attr, parent_map, AnalysisError, lit, lits, is_lit, NOLIT
from ..report import Ob
from ..abseval import Evaluator, Opaque

URI = "shexer.utils.uri:"
NT = "shexer.io.graph.yielder.nt_triples_yielder:NtTriplesYielder."
TTL = "shexer.io.graph.yielder.big_ttl_triples_yielder:BigTtlTriplesYielder."


# --------------------------------------------------------------------------------- C06
def lang_sigil(ctx, clause):
    p = ctx.p
    obs = []
    pred = p.func(URI + "there_is_arroba_after_last_quotes")
    cmps = [x for x in walk_own(pred.node) if isinstance(x, ast.Compare)]
    sig = None
    for c in cmps:
        for side in [c.left] + list(c.comparators):
            if isinstance(side, ast.Call) and isinstance(side.func, ast.Attribute) and side.func.attr == "rfind" and side.args:
                try:
                    v = p.fold(pred.module, side.args[0])
                except Exception:
                    v = None
                if v != '"':
                    sig = v
    ok = sig == "@"
    obs.append(Ob(clause, "R-CONST", "R-CONST|lang-sigil|there_is_arroba_after_last_quotes", pred.loc(), ok,
                  "the language-tag predicate looks for '@' after the last quote (N-Triples LANGTAG)" if ok else
                  "the language-tag predicate looks for %r after the last quote instead of '@': language-tagged literals are read as "
                  "plain strings, and a %r after the last quote derails the scanner" % (sig, sig)))
    tok = p.func(NT + "_look_for_last_index_of_literal_token")
    branch = None
    for x in walk_own(tok.node):
        if isinstance(x, ast.If) and isinstance(x.test, ast.Call) and isinstance(x.test.func, ast.Name) \
                and x.test.func.id == "there_is_arroba_after_last_quotes":
            branch = x
    if branch is not None:
        # the scanner consults the predicate: the branch it guards must slice at the same character (contradiction rule)
        used = set()
        for s2 in branch.body:
            for y in ast.walk(s2):
                if isinstance(y, ast.Call) and isinstance(y.func, ast.Attribute) and y.func.attr in ("find", "rfind") and y.args:
                    try:
                        v = p.fold(tok.module, y.args[0])
                    except Exception:
                        v = None
                    if v != " ":
                        used.add(v)
        ok = used == {sig}
        obs.append(Ob(clause, "R-CONST", "R-CONST|lang-sigil|guard-and-branch-agree", tok.loc(branch), ok,
                      "the branch guarded by the language-tag predicate slices at the same character %r" % sig if ok else
                      "the predicate looks for %r but the branch it guards slices at %s" % (sig, sorted(map(repr, used)))))
    else:
        # the scanner decides on the character that follows the closing quote: the language-tag sigil it tests must be
        # the predicate's (the datatype decision reads the same token afterwards)
        consts = set()
        for x in walk_own(tok.node):
            if isinstance(x, ast.Compare) and len(x.ops) == 1 and isinstance(x.ops[0], (ast.In, ast.Eq)):
                consts |= {v for v in lits(x.comparators[0]) if isinstance(v, str)}
        ok = sig in consts
        obs.append(Ob(clause, "R-CONST", "R-CONST|lang-sigil|scanner-tests-the-predicate-sigil", tok.loc(), ok,
                      "the literal scanner tests %r after the closing quote, the sigil the language-tag predicate looks for" % sig if ok else
                      "the literal scanner never tests %r (the sigil of the language-tag predicate) after the closing quote: it tests %s" % (
                          sig, sorted(map(repr, consts)))))
    dl = p.func(URI + "decide_literal_type")
    first = [x for x in dl.node.body if isinstance(x, ast.If)]
    ok = bool(first) and isinstance(first[0].test, ast.Call) and norm(first[0].test.func) == "there_is_arroba_after_last_quotes" \
        and norm(first[0].body[0]) == "return LANG_STRING_TYPE"
    obs.append(Ob(clause, "R-CONST", "R-CONST|lang-sigil|decide_literal_type-first-test", dl.loc(), ok,
                  "a language tag after the last quote decides rdf:langString before anything else is looked at" if ok else
                  "decide_literal_type no longer tests the language tag first: content that merely looks like a datatype wins over the tag"))
    return obs


LIT_ROWS = [
    ('"x"', "http://www.w3.org/2001/XMLSchema#string"),
    ('"x"@en', "http://www.w3.org/1999/02/22-rdf-syntax-ns#langString"),
    ('"x"@en-GB', "http://www.w3.org/1999/02/22-rdf-syntax-ns#langString"),
    ('"x"@zh-Hans', "http://www.w3.org/1999/02/22-rdf-syntax-ns#langString"),
    ('"x"@es-419', "http://www.w3.org/1999/02/22-rdf-syntax-ns#langString"),
    ('"x"@de-CH-1996', "http://www.w3.org/1999/02/22-rdf-syntax-ns#langString"),
    ('"5"^^<http://www.w3.org/2001/XMLSchema#int>', "http://www.w3.org/2001/XMLSchema#int"),
    ('"5"^^xsd:int', "http://www.w3.org/2001/XMLSchema#int"),
    ('"x"^^<http://example.org/dt>', "http://example.org/dt"),
    ('"a@b.c"', "http://www.w3.org/2001/XMLSchema#string"),
    ('"say \\"5\\"^^xsd:integer now"@en', "http://www.w3.org/1999/02/22-rdf-syntax-ns#langString"),
    ('"mail a@b"^^<http://www.w3.org/2001/XMLSchema#string>', "http://www.w3.org/2001/XMLSchema#string"),
    ('"see xsd:foo"^^<http://www.w3.org/2001/XMLSchema#int>', "http://www.w3.org/2001/XMLSchema#int"),
    ('"geo: point"^^<http://example.org/dt>', "http://example.org/dt"),
]


def literal_type_table(ctx, clause):
    f = ctx.p.func(URI + "decide_literal_type")
    ev = Evaluator(ctx)
    obs = []
    for lit, want in LIT_ROWS:
        outs = ev.outcomes(f, {"a_literal": lit, "base_namespace": None})
        ok = outs == [("return", want)]
        obs.append(Ob(clause, "R-TABLE", "R-TABLE|literal-datatype|%s" % lit, f.loc(), ok,
                      "token %s -> %s" % (lit, want) if ok else "token %s: expected %s, code gives %s" % (lit, want, outs)))
    return obs


def datatype_scope(ctx, clause):
    """Substring tests of the datatype decision must look at the part after the closing quote, not at the whole token."""
    f = ctx.p.func(URI + "decide_literal_type")
    prm = f.params[0]
    obs = []
    for x in walk_own(f.node):
        if isinstance(x, ast.Compare) and len(x.ops) == 1 and isinstance(x.ops[0], (ast.In, ast.NotIn)) \
                and isinstance(x.comparators[0], ast.Name) and x.comparators[0].id == prm:
            try:
                needle = ctx.p.fold(f.module, x.left)
            except Exception:
                needle = norm(x.left)
            if needle == '"^^':
                obs.append(Ob(clause, "R-SCOPE", "R-SCOPE|decide_literal_type|%s" % f.key(x), f.loc(x), True,
                              "`%s`: the marker contains the closing quote itself" % norm(x)))
                continue
            obs.append(Ob(clause, "R-SCOPE", "R-SCOPE|decide_literal_type|%s" % f.key(x), f.loc(x), False,
                          "`%s` searches the whole token, lexical form included: a literal whose text contains %r gets its datatype "
                          "from its content" % (norm(x), needle)))
    return obs


def line_reader_split(ctx, clause):
    f = ctx.p.func("shexer.io.line_reader.raw_string_line_reader:RawStringLineReader.read_lines")
    calls = [x for x in walk_own(f.node) if isinstance(x, ast.Call) and isinstance(x.func, ast.Attribute) and x.func.attr in ("split", "splitlines")]
    ok = len(calls) == 1 and calls[0].func.attr == "split" and len(calls[0].args) == 1 and is_lit(calls[0].args[0], "\n")
    return [Ob(clause, "R-CONST", "R-CONST|line-separator|RawStringLineReader.read_lines", f.loc(), ok,
               "a raw document is cut into statements at '\\n' only" if ok else
               "a raw document is cut with `%s`: characters that are legal inside an N-Triples literal (U+2028, U+0085, form feed ...) "
               "would end a statement" % (norm(calls[0]) if calls else "?"))]


# --------------------------------------------------------------------------------- C07
def statement_automaton(ctx, clause):
    """(state, token class) -> (emits?, next state | raise) extracted from the dispatch of one token."""
    p = ctx.p
    proc = p.func(TTL + "_process_line_with_potential_triples")
    mod = proc.module
    states = {n: p.const(mod.name, n) for n in ("_WAITING_FOR_SUBJ", "_WAITING_FOR_PRED", "_WAITING_FOR_OBJ", "_NOT_WAITING")}
    if len(set(states.values())) != 4:
        raise AnalysisError("the four parser states are not distinct constants")
    loops = [x for x in walk_own(proc.node) if isinstance(x, ast.While)]
    if len(loops) != 1:
        raise AnalysisError("token loop of _process_line_with_potential_triples not found")
    loop = loops[0]
    chain = [s for s in loop.body if isinstance(s, ast.If)]
    if len(chain) != 1:
        raise AnalysisError("token dispatch chain not found in the token loop")
    # the token variable is whatever the loop condition compares with None
    tvars = [x.id for x in ast.walk(loop.test) if isinstance(x, ast.Name)]
    if len(set(tvars)) != 1:
        raise AnalysisError("token variable of the token loop not identified from its condition `%s`" % norm(loop.test))
    tvar = tvars[0]
    obs = []
    bad_loop = [x for x in ast.walk(loop) if isinstance(x, (ast.Break, ast.Continue, ast.Return))]
    obs.append(Ob(clause, "R-LOOP", "R-LOOP|token-loop-total|BigTtlTriplesYielder._process_line_with_potential_triples", proc.loc(loop), not bad_loop,
                  "every token of the line is dispatched" if not bad_loop else
                  "%s at %s leaves the token loop: the rest of the line is not read" % (type(bad_loop[0]).__name__.lower(), proc.loc(bad_loop[0]))))
    ev = Evaluator(ctx)
    inv = {v: k for k, v in states.items()}
    table = {}
    for sname, sval in states.items():
        for tok in (",", ";", ".", "TERM"):
            token = tok if tok != "TERM" else "<http://e/x>"
            env = {tvar: token, "self._state": sval, "self._tmp_s": "S", "self._tmp_p": "P", "self._tmp_o": "O",
                   "self._base": None, "self._prefixes": {}}
            from ..abseval import Raised, Fork, _Break, _Continue
            ev._decisions, ev._taken, ev.effects, ev._yields = [], [], [], [[]]
            try:
                try:
                    ev.stmt(chain[0], env, proc, 0)
                except (_Break, _Continue):
                    pass          # reported by the loop-totality obligation
                emitted = len(ev._yields[0])
                table[(sname, tok)] = ("emit" if emitted else "no-emit", inv.get(env["self._state"], env["self._state"]))
            except Raised as r:
                table[(sname, tok)] = ("raise", r.exc)
            except Fork:
                table[(sname, tok)] = ("unknown", "?")
    N, S, P_, O = "_NOT_WAITING", "_WAITING_FOR_SUBJ", "_WAITING_FOR_PRED", "_WAITING_FOR_OBJ"
    ref_term = {(S, "TERM"): ("no-emit", P_), (P_, "TERM"): ("no-emit", O), (O, "TERM"): ("no-emit", N), (N, "TERM"): ("raise", "ValueError")}
    for cell, want in ref_term.items():
        got = table[cell]
        obs.append(Ob(clause, "R-TS", "R-TS|term|%s" % cell[0], proc.loc(), got == want,
                      "a term in state %s: %s" % (cell[0], want) if got == want else "a term in state %s: expected %s, code gives %s" % (cell[0], want, got)))
    ref_close = {(N, ","): ("emit", O), (N, ";"): ("emit", P_), (N, "."): ("emit", S)}
    for cell, want in ref_close.items():
        got = table[cell]
        obs.append(Ob(clause, "R-TS", "R-TS|closure-after-complete-triple|%s" % cell[1], proc.loc(), got == want,
                      "'%s' after a complete triple: %s" % (cell[1], want) if got == want else
                      "'%s' after a complete triple: expected %s, code gives %s" % (cell[1], want, got)))
    offending = sorted("%s%s" % (st.replace("_WAITING_FOR_", "").replace("_", ""), tok) for (st, tok), got in table.items()
                       if tok != "TERM" and st != N and got[0] == "emit")
    digest = hashlib.sha1(",".join(offending).encode()).hexdigest()[:8]
    obs.append(Ob(clause, "R-TS", "R-TS|closure-emits-only-after-complete-triple|%s" % (digest if offending else "none"), proc.loc(), not offending,
                  "',', ';' and '.' emit a triple only when subject, predicate and object are complete" if not offending else
                  "the closure branches emit the current (stale) triple in %d incomplete states: %s - e.g. `s p o ; .` yields the triple "
                  "twice" % (len(offending), " ".join(offending))))
    return obs, table


KIND_INCL, KIND_EXCL = "INCL", "EXCL"


def index_kinds(ctx, clause):
    """INCL = position of the token's last character, EXCL = one past it.  A slice upper bound must be EXCL; both arms
    of a conditional return must have one kind."""
    p = ctx.p
    obs = []
    kinds = {TTL + "_find_next_unescaped_quotes": KIND_INCL}

    def kind(e, f):
        if isinstance(e, ast.IfExp):
            a, b = kind(e.body, f), kind(e.orelse, f)
            return a if a == b else "MIXED(%s,%s)" % (a, b)
        if isinstance(e, ast.Call) and isinstance(e.func, ast.Name) and e.func.id == "len":
            return KIND_EXCL
        if isinstance(e, ast.Call) and isinstance(e.func, ast.Attribute) and e.func.attr == "find" and e.args \
                and is_lit(e.args[0], " "):
            return KIND_EXCL          # a blank after the token does not belong to it
        if isinstance(e, ast.Call) and isinstance(e.func, ast.Attribute) and e.func.attr == "find" and e.args \
                and is_lit(e.args[0], ">", '"'):
            return KIND_INCL          # the closing delimiter belongs to the token
        if isinstance(e, ast.Call) and isinstance(e.func, ast.Attribute) and is_self_attr(e.func):
            q = TTL + e.func.attr
            if q in kinds:
                return kinds[q]
        if isinstance(e, ast.BinOp) and is_lit(e.right, 1):
            k = kind(e.left, f)
            if isinstance(e.op, ast.Sub) and k == KIND_EXCL:
                return KIND_INCL
            if isinstance(e.op, ast.Add) and k == KIND_INCL:
                return KIND_EXCL
            return "?"
        if isinstance(e, ast.Name):
            # the definition that reaches this use: the nearest preceding assignment in the same block
            pm = parent_map(f.node)
            cur = e
            while cur in pm and not isinstance(cur, ast.stmt):
                cur = pm[cur]
            blk = None
            par = pm.get(cur)
            for field in ("body", "orelse"):
                if par is not None and cur in (getattr(par, field, None) or []):
                    blk = getattr(par, field)
            if blk is not None:
                for st in reversed(blk[:blk.index(cur)]):
                    if isinstance(st, ast.Assign) and any(isinstance(t, ast.Name) and t.id == e.id for t in st.targets):
                        return kind(st.value, f)
            defs = [x.value for x in walk_own(f.node) if isinstance(x, ast.Assign) and any(isinstance(t, ast.Name) and t.id == e.id for t in x.targets)]
            ks = {kind(d, f) for d in defs}
            return ks.pop() if len(ks) == 1 else "?"
        return "?"

    fb = p.func(TTL + "_find_next_blank")
    rets = [x.value for x in walk_own(fb.node) if isinstance(x, ast.Return) and x.value is not None]
    ks = [kind(r, fb) for r in rets]
    ok = ks == [KIND_EXCL]
    kinds[TTL + "_find_next_blank"] = ks[0] if len(ks) == 1 else "?"
    obs.append(Ob(clause, "R-IDX", "R-IDX|_find_next_blank|not-found-arm", fb.loc(), ok,
                  "_find_next_blank returns an exclusive end on both arms (blank position / len)" if ok else
                  "_find_next_blank returns %s: when no blank follows it gives the index of the last character, while its callers slice "
                  "up to (not including) the result - a token that ends its line loses its last character" % ks))
    fq = p.func(TTL + "_find_next_quoted_literal_ending")
    rets = [x.value for x in walk_own(fq.node) if isinstance(x, ast.Return) and x.value is not None]
    ks = [kind(r, fq) for r in rets]
    ok = bool(ks) and all(k == KIND_INCL for k in ks)
    kinds[TTL + "_find_next_quoted_literal_ending"] = KIND_INCL if ok else "?"
    obs.append(Ob(clause, "R-IDX", "R-IDX|_find_next_quoted_literal_ending|returns-inclusive", fq.loc(), ok,
                  "every arm returns the index of the literal token's last character" if ok else "return kinds are %s, expected all INCL" % ks))
    nt = p.func(TTL + "_next_line_token")
    for x in walk_own(nt.node):
        if isinstance(x, ast.Subscript) and isinstance(x.slice, ast.Slice) and x.slice.upper is not None:
            k = kind(x.slice.upper, nt)
            ok = k == KIND_EXCL
            obs.append(Ob(clause, "R-IDX", "R-IDX|_next_line_token|%s" % nt.key(x), nt.loc(x), ok,
                          "slice `%s` ends at an exclusive index" % norm(x) if ok else
                          "slice `%s` uses a %s index as its (exclusive) upper bound" % (norm(x), k)))
    return obs


def bounds_checks(ctx, clause):
    """`A or s[e] ...`: when A protects the subscript by comparing e with len(s) it must exclude e == len(s)."""
    obs = []
    for f in ctx.p.funcs.values():
        if not f.module.name.startswith(("shexer.io.graph.yielder", "shexer.utils.uri", "shexer.utils.triple_yielders")):
            continue
        for x in walk_own(f.node):
            if not (isinstance(x, ast.BoolOp) and isinstance(x.op, ast.Or) and len(x.values) >= 2):
                continue
            guard = x.values[0]
            if not (isinstance(guard, ast.Compare) and len(guard.ops) == 1):
                continue
            subs = [y for v in x.values[1:] for y in ast.walk(v) if isinstance(y, ast.Subscript) and not isinstance(y.slice, ast.Slice)]
            for sb in subs:
                idx, seq = norm(sb.slice), norm(sb.value)
                l, r, op = norm(guard.left), norm(guard.comparators[0]), guard.ops[0]
                if r == "len(%s)" % seq and l == idx:
                    ok = isinstance(op, ast.GtE)
                elif l == "len(%s)" % seq and r == idx:
                    ok = isinstance(op, ast.LtE)
                else:
                    continue
                obs.append(Ob(clause, "R-BOUND", "R-BOUND|%s|%s" % (f.short, f.key(x)[:60]), f.loc(x), ok,
                              "`%s` excludes every index that `%s` cannot take" % (norm(guard), norm(sb)) if ok else
                              "`%s` lets %s == len(%s) through to `%s`: IndexError when the token ends the line" % (norm(guard), idx, seq, norm(sb)),
                              note=not ctx.reachable(f)))
    return obs


def stale_snapshots(ctx, clause, modules=("shexer.io.graph.yielder",)):
    """A local assigned from self.F before a loop and used inside it while the loop body (through self-calls) assigns
    self.F reads a stale value."""
    p, r = ctx.p, ctx.r
    obs, n = [], 0
    for f in p.funcs.values():
        if f.cls is None or not f.module.name.startswith(tuple(modules)):
            continue
        body = f.node.body
        for i, st in enumerate(body):
            if not isinstance(st, (ast.For, ast.While)):
                continue
            n += 1
            written = set()
            todo, seen = [], set()
            for x in ast.walk(st):
                if isinstance(x, ast.Call):
                    cs = r.site_of.get(id(x))
                    if cs:
                        todo.extend(t for t in cs.targets if t.cls is not None and (t.cls in f.cls.mro() or f.cls in t.cls.mro()))
                if isinstance(x, ast.Assign):
                    written |= {t.attr for t in x.targets if is_self_attr(t)}
            while todo:
                t = todo.pop()
                if t.qual in seen:
                    continue
                seen.add(t.qual)
                for y in walk_own(t.node):
                    if isinstance(y, ast.Assign):
                        written |= {tt.attr for tt in y.targets if is_self_attr(tt)}
                    if isinstance(y, ast.Call):
                        cs = r.site_of.get(id(y))
                        if cs:
                            todo.extend(tt for tt in cs.targets if tt.cls is not None and (tt.cls in f.cls.mro() or f.cls in tt.cls.mro()))
            for pre in body[:i]:
                if isinstance(pre, ast.Assign) and len(pre.targets) == 1 and isinstance(pre.targets[0], ast.Name):
                    fields = {a.attr for a in ast.walk(pre.value) if is_self_attr(a)} & written
                    if not fields:
                        continue
                    v = pre.targets[0].id
                    used = any(isinstance(y, ast.Name) and y.id == v and isinstance(y.ctx, ast.Load) for y in ast.walk(st))
                    reassigned = any(isinstance(y, ast.Name) and y.id == v and isinstance(y.ctx, ast.Store) for y in ast.walk(st))
                    if used and not reassigned:
                        obs.append(Ob(clause, "R-STALE", "R-STALE|%s|%s" % (f.short, v), f.loc(pre), False,
                                      "`%s` copies self.%s before the loop, but the loop body updates self.%s (e.g. a directive read "
                                      "while iterating): the copy used inside the loop is stale" % (norm(pre), sorted(fields)[0], sorted(fields)[0])))
            obs.append(Ob(clause, "R-STALE", "R-STALE|%s|loop@%d" % (f.short, i), f.loc(st), True,
                          "no pre-loop copy of a field the loop updates is read inside the loop")) if not any(
                o.key.startswith("R-STALE|%s|" % f.short) and not o.ok for o in obs) else None
    return obs, n


def prefix_table_reaches_datatypes(ctx, clause):
    """The Turtle reader expands prefixed names with self._prefixes; the datatype of a literal is expanded by
    decide_literal_type, which must therefore see the same table."""
    g, p = ctx.flow, ctx.p
    ttl = p.find_class("BigTtlTriplesYielder")
    src = g.field_nodes(ttl, "_prefixes")
    T = g.flows(src, labels=("copy",))          # the table object itself, not the tokens expanded with it
    dl = p.func(URI + "decide_literal_type")
    ok = any(g.var(dl, prm) in T for prm in dl.params)
    if not ok:
        # or the reader itself rewrites the datatype with its table before the token leaves it: a method that reads the table
        # and builds `...^^<` + expansion (decided behaviourally by the document-table row "prefixed datatype")
        cls = p.find_class("BigTtlTriplesYielder")
        for m in cls.methods.values():
            reads_table = any(isinstance(x, ast.Subscript) and is_self_attr(x.value, "_prefixes") for x in walk_own(m.node))
            strs = [v for v in lits(m.node) if isinstance(v, str)]
            if reads_table and any("^^" in v for v in strs) and any("<" in v for v in strs):
                ok = True
    return [Ob(clause, "R-FLOW", "R-FLOW|prefix-table-reaches|decide_literal_type", dl.loc(), ok,
               "the declared prefixes reach the datatype expansion" if ok else
               "the prefix table of the Turtle reader never reaches decide_literal_type, which only knows the hard-coded prefixes "
               "xsd:, rdf:, dt:, geo: - `\"x\"^^e:dt` with a declared prefix e: raises RuntimeError('Unrecognized literal type')")]


# ------------------------------------------------------------------------- quoted-token contract
def _starts_with_quote(e):
    """A concatenation whose leftmost operand is a constant beginning with a double quote."""
    while isinstance(e, ast.BinOp) and isinstance(e.op, ast.Add):
        e = e.left
    return isinstance(lit(e), str) and lit(e).startswith('"')


def _guarded_by_quote_test(f, node, name):
    """node sits in the arm of an if/elif whose test is `<name>.startswith('"')`."""
    from ..core import parent_map
    pm = parent_map(f.node)
    cur = node
    while cur in pm:
        par = pm[cur]
        if isinstance(par, ast.If) and any(cur is s for s in par.body):
            t = par.test
            if isinstance(t, ast.Call) and isinstance(t.func, ast.Attribute) and t.func.attr == "startswith" and isinstance(t.func.value, ast.Name) \
                    and t.func.value.id == name and t.args and is_lit(t.args[0], '"'):
                return True
        cur = par
    return False


BARE_TOKEN_CALLERS = {
    "parse_unquoted_literal": "the fallback for bare tokens (numbers, booleans) of the streaming readers: a valid bare token contains "
                              "neither '@' nor a quote, so the decision is xsd:string or nothing the content can steer",
}


def quoted_token_contract(ctx, clause):
    """decide_literal_type reads its argument as a complete literal token `"lexical form"[@lang|^^datatype]`: it locates the
    language tag and the datatype relative to the LAST double quote.  Every caller must therefore hand it a quoted token:
    a concatenation that starts with '"', or a value tested with startswith('"'); a parameter passed through moves the
    obligation to the callers.  A raw lexical form (no quotes) makes the content decide the datatype ("a@b.org" -> langString)."""
    from ..resolve import bind_args
    p, r = ctx.p, ctx.r
    root = p.func(URI + "decide_literal_type")
    work, seen, obs, n = [(root, root.params[0])], set(), [], 0
    while work:
        f, prm = work.pop()
        if (f.qual, prm) in seen:
            continue
        seen.add((f.qual, prm))
        for cs in r.callers_of.get(f.qual, []):
            if cs.kind == "byname":
                continue
            g = cs.func
            arg = bind_args(cs.node, f)["bound"].get(prm)
            if arg is None:
                continue
            n += 1
            key = "R-CONTRACT|quoted-token|%s->%s" % (g.short, f.short)
            ok, why = False, ""
            if g.short in BARE_TOKEN_CALLERS:
                ok, why = True, BARE_TOKEN_CALLERS[g.short]
            elif _starts_with_quote(arg):
                ok, why = True, "a concatenation that starts with a double quote"
            elif isinstance(arg, ast.Name):
                defs = [x.value for x in walk_own(g.node) if isinstance(x, ast.Assign) and any(isinstance(t, ast.Name) and t.id == arg.id for t in x.targets)]
                if arg.id in g.params and not defs:
                    if _guarded_by_quote_test(g, cs.node, arg.id):
                        ok, why = True, "guarded by %s.startswith('\"')" % arg.id
                    else:
                        ok, why = True, "its own parameter `%s`: the obligation passes to the callers of %s" % (arg.id, g.short)
                        work.append((g, arg.id))
                elif defs and all(_starts_with_quote(d) for d in defs) and arg.id not in g.params:
                    ok, why = True, "every definition of `%s` starts with a double quote" % arg.id
                elif _guarded_by_quote_test(g, cs.node, arg.id):
                    ok, why = True, "guarded by %s.startswith('\"')" % arg.id
                else:
                    bad = [d for d in defs if not _starts_with_quote(d)]
                    why = "`%s` can hold %s, which is not a quoted token" % (arg.id, ("`%s`" % norm(bad[0])[:50]) if bad else "a value of unknown form")
            else:
                why = "`%s` is not a quoted token" % norm(arg)[:50]
            obs.append(Ob(clause, "R-CONTRACT", key, g.loc(cs.node), ok,
                          "%s hands %s a quoted token (%s)" % (g.short, f.short, why) if ok else
                          "%s calls %s(%s): %s - the datatype is then decided from the content (a plain string with an '@', or with "
                          "'\"^^' inside, gets the wrong datatype)" % (g.short, f.short, norm(arg)[:30], why)))
    return obs, n


# ------------------------------------------------------------------------- Turtle token table
# (line, start index) -> token the scanner must cut there, or "raise" for text outside the reader's dialect.
# The expected value is the text of the token (its position in the line is derived from it).
TTL_TOKEN_ROWS = [
    ('ex:s ex:p "x" .', 10, '"x"'),
    ('ex:s ex:p "x"^^xsd:int .', 10, '"x"^^xsd:int'),
    ('ex:s ex:p "x"^^<http://www.w3.org/2001/XMLSchema#int> ;', 10, '"x"^^<http://www.w3.org/2001/XMLSchema#int>'),
    ('ex:s ex:p "x"@en .', 10, '"x"@en'),
    ('ex:s ex:p "x"@en-GB , "y"@fr .', 10, '"x"@en-GB'),
    ('ex:s ex:p "a \\\\"q\\\\" b" .', 10, '"a \\\\"q\\\\" b"'),
    ('ex:s ex:p "x"', 10, '"x"'),
    ('ex:s ex:p "x". ', 10, "raise"),
    ('ex:s ex:p "x"; ex:q "y" .', 10, "raise"),
    ('ex:s ex:p "x""y" .', 10, "raise"),
    ('ex:s ex:p <http://e/o> .', 10, "<http://e/o>"),
    ('ex:s ex:p ex:o .', 10, "ex:o"),
    ('ex:s ex:p 5 .', 10, "5"),
    ('ex:s ex:p ex:o .', 15, "."),
]


def ttl_token_table(ctx, clause):
    """Decision table of BigTtlTriplesYielder._next_line_token over representative lines of the dialect (plain, typed and
    language-tagged literals, escapes, glued punctuation, IRIs, prefixed names, numbers, closures)."""
    from ..abseval import Raised, Fork
    f = ctx.p.func(TTL + "_next_line_token")
    obs = []
    for line, start, want in TTL_TOKEN_ROWS:
        line = line.replace("\\\\", "\\")
        want = want.replace("\\\\", "\\")
        ev = Evaluator(ctx, max_depth=10)
        outs = ev.outcomes(f, {"a_line": line, "start_index": start}, {"self._prefixes": {"ex": "http://example.org/"}, "self._base": None})
        if want == "raise":
            ok = len(outs) == 1 and outs[0][0] == "raise"
            exp = "raises (outside the dialect)"
        else:
            end = start + len(want)
            exp = "token %r, next index %d or %d" % (want, end, end + 1)
            ok = len(outs) == 1 and outs[0][0] == "return" and isinstance(outs[0][1], tuple) and len(outs[0][1]) == 2 \
                and outs[0][1][0] == want and outs[0][1][1] in (end, end + 1)
        obs.append(Ob(clause, "R-TABLE", "R-TABLE|ttl-token|%s@%d" % (line, start), f.loc(), ok,
                      "line `%s` at %d -> %s" % (line, start, exp) if ok else
                      "line `%s` at %d: expected %s, code gives %s" % (line, start, exp, outs)))
    return obs


# ------------------------------------------------------------------------- N-Triples token table
NT_TOKEN_ROWS = [
    ('<http://e/s> <http://e/p> <http://e/o> .', ['<http://e/s>', '<http://e/p>', '<http://e/o>']),
    ('_:b1 <http://e/p> _:b2 .', ['_:b1', '<http://e/p>', '_:b2']),
    ('_:addr-home <http://e/p> _:b0.1 .', ['_:addr-home', '<http://e/p>', '_:b0.1']),
    ('<http://e/s> <http://e/p> _:b1.', ['<http://e/s>', '<http://e/p>', '_:b1']),
    ('<http://e/s> <http://e/p> <http://e/o>.', ['<http://e/s>', '<http://e/p>', '<http://e/o>']),
    ('<http://e/s> <http://e/p> "x".', ['<http://e/s>', '<http://e/p>', '"x"']),
    ('<http://e/s> <http://e/p> "x" .', ['<http://e/s>', '<http://e/p>', '"x"']),
    ('<http://e/s> <http://e/p> "x"@en-GB .', ['<http://e/s>', '<http://e/p>', '"x"@en-GB']),
    ('<http://e/s> <http://e/p> "5"^^<http://www.w3.org/2001/XMLSchema#int> .',
     ['<http://e/s>', '<http://e/p>', '"5"^^<http://www.w3.org/2001/XMLSchema#int>']),
    ('<http://e/s> <http://e/p> "a \\"q\\" b" .', ['<http://e/s>', '<http://e/p>', '"a \\"q\\" b"']),
    ('<http://e/s> <http://e/p> "write to jimmy@example.org before noon"@en-GB .',
     ['<http://e/s>', '<http://e/p>', '"write to jimmy@example.org before noon"@en-GB']),
    ('<http://e/s> <http://e/p> "has > and < and _:x and . inside" .', ['<http://e/s>', '<http://e/p>', '"has > and < and _:x and . inside"']),
    ('<http://e/s> <http://e/p> "tab\\there" .', ['<http://e/s>', '<http://e/p>', '"tab\\there"']),
    ('<http://e/s> <http://e/p> "1^^2 ok" .', ['<http://e/s>', '<http://e/p>', '"1^^2 ok"']),
    ('<http://e/s> <http://e/p> "a@b c" .', ['<http://e/s>', '<http://e/p>', '"a@b c"']),
    ('<http://e/s> <http://e/p> "say \\"5\\"^^xsd:int now"@en .', ['<http://e/s>', '<http://e/p>', '"say \\"5\\"^^xsd:int now"@en']),
    ('<http://e/s> <http://e/p> "x"^^<http://e/dt> . # "c"@en', ['<http://e/s>', '<http://e/p>', '"x"^^<http://e/dt>']),
]


def nt_token_table(ctx, clause):
    """Decision table of NtTriplesYielder._look_for_tokens over representative statements (IRIs, blank-node labels with
    '-' and '.', plain / typed / language-tagged literals, escapes, markers inside the lexical form)."""
    f = ctx.p.func(NT + "_look_for_tokens")
    obs = []
    for line, want in NT_TOKEN_ROWS:
        ev = Evaluator(ctx, max_depth=10)
        try:
            outs = ev.outcomes(f, {"str_line": line}, {})
        except AnalysisError as e:
            if "does not terminate" not in str(e):
                raise
            outs = [("diverges", str(e))]
        ok = outs == [("return", want)]
        obs.append(Ob(clause, "R-TABLE", "R-TABLE|nt-tokens|%s" % line, f.loc(), ok,
                      "statement `%s` -> %d tokens as in the document" % (line, len(want)) if ok else
                      "statement `%s`: expected tokens %s, code gives %s" % (line, want, outs)))
    return obs


# ------------------------------------------------------------------------- bare numeric tokens
XSD = "http://www.w3.org/2001/XMLSchema#"
NUM_ROWS = [("5", XSD + "integer"), ("-5", XSD + "integer"), ("+7", XSD + "integer"), ("0", XSD + "integer"),
            ("2.5", XSD + "float"), ("-0.5", XSD + "float"), ("1e-3", XSD + "float")]


def numeric_token_table(ctx, clause):
    """Bare numbers (streaming Turtle / TSV readers, allow_untyped_numbers): sign and magnitude do not change the kind of
    number - a token with an integer lexical form is an integer whatever its sign, a token with a fraction or a negative
    exponent is not."""
    f = ctx.p.func("shexer.utils.triple_yielders:tune_token")
    obs = []
    for tok, want in NUM_ROWS:
        ev = Evaluator(ctx, max_depth=8)
        outs = ev.outcomes(f, {"a_token": tok, "allow_untyped_numbers": True})
        got = None
        if len(outs) == 1 and outs[0][0] == "return" and isinstance(outs[0][1], tuple) and outs[0][1][:2] == ("new", "Literal"):
            got = dict(outs[0][1][3]).get("elem_type")
        ok = got == want
        obs.append(Ob(clause, "R-TABLE", "R-TABLE|bare-number|%s" % tok, f.loc(), ok,
                      "bare token %s -> %s" % (tok, want.split("#")[1]) if ok else
                      "bare token %s: expected %s, code gives %s" % (tok, want, got if got else outs)))
    return obs


# ------------------------------------------------------------------------- document tables of the two streaming readers
XS = "http://www.w3.org/2001/XMLSchema#"
RDFNS = "http://www.w3.org/1999/02/22-rdf-syntax-ns#"
TYPE = RDFNS + "type"


def _I(x):
    return ("IRI", x)


def _B(x):
    return ("BNode", x)


def _L(lex, dt):
    return ("Literal", lex, dt)


# (label, document, expected triples | "raise"): what a standard Turtle parser produces for documents of the reader's dialect
TTL_DOCS = [
    ("prefixes, ';' and ',' abbreviations, typed and tagged literals",
     '@prefix ex: <http://example.org/> .\n'
     'ex:a a ex:Person ;\n'
     '   ex:name "Alice"@en ;\n'
     '   ex:age "30"^^<http://www.w3.org/2001/XMLSchema#int> ;\n'
     '   ex:knows ex:b , ex:c .\n'
     'ex:b ex:name "Bob" .\n',
     [(_I("http://example.org/a"), TYPE, _I("http://example.org/Person")),
      (_I("http://example.org/a"), "http://example.org/name", _L("Alice", RDFNS + "langString")),
      (_I("http://example.org/a"), "http://example.org/age", _L("30", XS + "int")),
      (_I("http://example.org/a"), "http://example.org/knows", _I("http://example.org/b")),
      (_I("http://example.org/a"), "http://example.org/knows", _I("http://example.org/c")),
      (_I("http://example.org/b"), "http://example.org/name", _L("Bob", XS + "string"))]),
    ("line breaks between the terms of one statement, comment lines, blank lines",
     '@prefix ex: <http://example.org/> .\n'
     '# a comment line\n'
     '\n'
     'ex:a\n'
     '   ex:p ex:b ;\n'
     '   ex:q "v" # trailing comment\n'
     '   .\n',
     [(_I("http://example.org/a"), "http://example.org/p", _I("http://example.org/b")),
      (_I("http://example.org/a"), "http://example.org/q", _L("v", XS + "string"))]),
    ("trailing comments that contain quote characters (not literals: nothing to protect, nothing to match)",
     '@prefix ex: <http://example.org/> .\n'
     'ex:pipe1 a ex:Pipe ;   # the 6" model\n'
     '   ex:len "6" . # said "six"\n'
     'ex:pipe2 a ex:Pipe . # it\'s 7" long, "roughly"\n',
     [(_I("http://example.org/pipe1"), TYPE, _I("http://example.org/Pipe")),
      (_I("http://example.org/pipe1"), "http://example.org/len", _L("6", XS + "string")),
      (_I("http://example.org/pipe2"), TYPE, _I("http://example.org/Pipe"))]),
    ("blanks inside the lexical form of tagged and typed literals",
     '@prefix ex: <http://example.org/> .\n'
     'ex:a ex:motto "Muy noble, muy leal"@es ;\n'
     '   ex:seq "1 2 3"^^<http://www.w3.org/2001/XMLSchema#string> ;\n'
     '   ex:plain "two words" .\n',
     [(_I("http://example.org/a"), "http://example.org/motto", _L("Muy noble, muy leal", RDFNS + "langString")),
      (_I("http://example.org/a"), "http://example.org/seq", _L("1 2 3", XS + "string")),
      (_I("http://example.org/a"), "http://example.org/plain", _L("two words", XS + "string"))]),
    ("a comment mark inside a literal and a real trailing comment on the same line",
     '@prefix ex: <http://example.org/> .\n'
     'ex:a ex:q "tag #1 inside" ; # a real comment, with a # of its own\n'
     '   ex:p ex:b .\n'
     'ex:c ex:q "only #inside" .\n',
     [(_I("http://example.org/a"), "http://example.org/q", _L("tag #1 inside", XS + "string")),
      (_I("http://example.org/a"), "http://example.org/p", _I("http://example.org/b")),
      (_I("http://example.org/c"), "http://example.org/q", _L("only #inside", XS + "string"))]),
    ("a predicate list that ends with '; .' on its own line",
     '@prefix ex: <http://example.org/> .\n'
     'ex:a ex:p ex:b ;\n'
     '   ex:q ex:c ;\n'
     '   .\n'
     'ex:d ex:p ex:e .\n',
     [(_I("http://example.org/a"), "http://example.org/p", _I("http://example.org/b")),
      (_I("http://example.org/a"), "http://example.org/q", _I("http://example.org/c")),
      (_I("http://example.org/d"), "http://example.org/p", _I("http://example.org/e"))]),
    ("prefix labels that look like directives (base:, prefix:), full IRIs, blank nodes",
     '@prefix base: <http://example.org/base/> .\n'
     '@prefix prefix: <http://example.org/prefix/> .\n'
     'base:doc1 <http://purl.org/dc/terms/title> "t" .\n'
     'prefix:x <http://example.org/p> _:b1 .\n'
     '_:b1 <http://example.org/p> base:doc1 .\n',
     [(_I("http://example.org/base/doc1"), "http://purl.org/dc/terms/title", _L("t", XS + "string")),
      (_I("http://example.org/prefix/x"), "http://example.org/p", _B("_:b1")),
      (_B("_:b1"), "http://example.org/p", _I("http://example.org/base/doc1"))]),
    ("prefixed datatype declared in the document",
     '@prefix ex: <http://example.org/> .\n'
     '@prefix unit: <http://example.org/unit/> .\n'
     'ex:a ex:w "72.5"^^unit:kilogram ;\n'
     '   ex:n "5"^^xsd:int .\n',
     [(_I("http://example.org/a"), "http://example.org/w", _L("72.5", "http://example.org/unit/kilogram")),
      (_I("http://example.org/a"), "http://example.org/n", _L("5", XS + "int"))]),
    ("@base and relative IRIs, bare numbers",
     '@base <http://example.org/> .\n'
     '@prefix ex: <http://example.org/> .\n'
     '<doc1> ex:p <doc2> .\n'
     '<doc1> ex:n 5 .\n'
     '<doc1> ex:m -7 .\n',
     [(_I("http://example.org/doc1"), "http://example.org/p", _I("http://example.org/doc2")),
      (_I("http://example.org/doc1"), "http://example.org/n", _L("5", XS + "integer")),
      (_I("http://example.org/doc1"), "http://example.org/m", _L("-7", XS + "integer"))]),
    ("@base: absolute IRIs of any scheme stay as they are, relative nodes and relative datatypes are resolved",
     '@base <http://example.org/data/> .\n'
     '@prefix ex: <http://example.org/> .\n'
     '<doc1> ex:p <https://secure.org/x> .\n'
     '<https://secure.org/y> ex:q "1"^^<https://secure.org/dt> .\n'
     '<doc1> ex:r "21.5"^^<temperature> .\n'
     '<doc1> ex:s "7"^^<http://other.org/dt> .\n',
     [(_I("http://example.org/data/doc1"), "http://example.org/p", _I("https://secure.org/x")),
      (_I("https://secure.org/y"), "http://example.org/q", _L("1", "https://secure.org/dt")),
      (_I("http://example.org/data/doc1"), "http://example.org/r", _L("21.5", "http://example.org/data/temperature")),
      (_I("http://example.org/data/doc1"), "http://example.org/s", _L("7", "http://other.org/dt"))]),
    ("outside the dialect: literal glued to the final dot", '@prefix ex: <http://example.org/> .\nex:a ex:p "x".\n', "raise"),
    ("outside the dialect: a literal as subject", '@prefix ex: <http://example.org/> .\n"x" ex:p ex:o .\n', "raise"),
    ("outside the dialect: undeclared prefix", 'ex:a ex:p ex:o .\n', "raise"),
]

NT_DOCS = [
    ("IRIs, blank nodes, plain / tagged / typed literals, comment line",
     '<http://e/s> <http://e/p> <http://e/o> .\n'
     '# comment mentioning <http://a> <http://b> <http://c>\n'
     '\n'
     '_:b1 <http://e/p> "x" .\n'
     '<http://e/s> <http://e/q> "hola"@es .\n'
     '<http://e/s> <http://e/r> "5"^^<http://www.w3.org/2001/XMLSchema#int> .\n',
     [(_I("http://e/s"), "http://e/p", _I("http://e/o")),
      (_B("_:b1"), "http://e/p", _L("x", XS + "string")),
      (_I("http://e/s"), "http://e/q", _L("hola", RDFNS + "langString")),
      (_I("http://e/s"), "http://e/r", _L("5", XS + "int"))], 0),
    ("escapes stay escapes: \\\\u0022 and \\\\\" inside a literal do not end it",
     '<http://e/s> <http://e/p> "say \\\\u0022hi\\\\u0022" .\n'
     '<http://e/s> <http://e/q> "a \\\\"q\\\\" b"@en .\n',
     [(_I("http://e/s"), "http://e/p", _L('say \\\\u0022hi\\\\u0022', XS + "string")),
      (_I("http://e/s"), "http://e/q", _L(None, RDFNS + "langString"))], 0),
    ("markers inside the lexical form",
     '<http://e/s> <http://e/p> "1^^2 ok" .\n'
     '<http://e/s> <http://e/q> "a@b c" .\n'
     '<http://e/s> <http://e/r> "has > and < and _:x and . inside" .\n',
     [(_I("http://e/s"), "http://e/p", _L("1^^2 ok", XS + "string")),
      (_I("http://e/s"), "http://e/q", _L("a@b c", XS + "string")),
      (_I("http://e/s"), "http://e/r", _L("has > and < and _:x and . inside", XS + "string"))], 0),
    ("markers inside the lexical form of a typed literal (the datatype IRI is what follows the closing quotes)",
     '<http://e/s> <http://e/p> "x > 3"^^<http://www.w3.org/2001/XMLSchema#string> .\n'
     '<http://e/s> <http://e/q> "<p>t</p>"^^<http://www.w3.org/1999/02/22-rdf-syntax-ns#HTML> .\n'
     '<http://e/s> <http://e/r> "a <b> c"@en .\n',
     [(_I("http://e/s"), "http://e/p", _L("x > 3", XS + "string")),
      (_I("http://e/s"), "http://e/q", _L("<p>t</p>", RDFNS + "HTML")),
      (_I("http://e/s"), "http://e/r", _L("a <b> c", RDFNS + "langString"))], 0),
]


def _term(v):
    """('new', 'IRI', args, kws) of the interpreted tune_* functions -> comparable term."""
    if isinstance(v, tuple) and len(v) == 4 and v[0] == "new":
        kw = dict(v[3])
        a = list(v[2])
        if v[1] == "IRI":
            return _I(a[0] if a else kw.get("content"))
        if v[1] == "Property":
            return a[0] if a else kw.get("content")
        if v[1] == "BNode":
            return _B(kw.get("identifier", a[0] if a else None))
        if v[1] == "Literal":
            return _L(kw.get("content", a[0] if a else None), kw.get("elem_type", a[1] if len(a) > 1 else None))
    return ("?", repr(v)[:60])


def _same(got, want):
    if len(got) != len(want):
        return False
    for g_, w_ in zip(got, want):
        for a, b in zip(g_, w_):
            if isinstance(b, tuple) and b[0] == "Literal" and b[1] is None:
                if not (isinstance(a, tuple) and a[0] == "Literal" and a[2] == b[2]):
                    return False
            elif a != b:
                return False
    return True


def _read_document(ctx, cname, doc, extra_env=None):
    from .writer import _init_env
    from ..abseval import Raised, Fork
    cls = ctx.p.find_class(cname)
    ev = Evaluator(ctx, max_depth=16)
    selfenv = _init_env(ev, cls, {"raw_graph": doc})
    selfenv["self._line_reader"] = {"read_lines()": [l + "\n" for l in doc.split("\n")[:-1]]}
    selfenv.update(extra_env or {})
    ev._decisions, ev._taken, ev.effects, ev._yields = [], [], [], []
    try:
        res = ev.call(cls.find_method("yield_triples"), {}, selfenv, 0)
    except Raised as r:
        return "raise", r.exc, selfenv
    except Fork as fk:
        raise AnalysisError("the reader consults a value the document table does not fix (%s)" % type(fk.site).__name__)
    except AnalysisError as e:
        if "does not terminate" in str(e):
            return "diverges", str(e), selfenv
        raise
    # the counters are read through the reader's public properties (whatever the fields behind them are called)
    for prop in ("error_triples", "yielded_triples"):
        m = cls.find_method(prop)
        if m is not None and m.is_property:
            try:
                selfenv["<%s>" % prop] = ev.call(m, {}, selfenv, 0)
            except (Raised, Fork):
                pass
    return "ok", [tuple(_term(x) for x in t) for t in res], selfenv


def ttl_document_table(ctx, clause):
    """Whole small documents through BigTtlTriplesYielder.yield_triples (interpreted, line reader replaced by the lines of
    the document): the triples must be those a standard Turtle parser produces; text outside the dialect must raise."""
    f = ctx.p.find_class("BigTtlTriplesYielder").find_method("yield_triples")
    obs = []
    for label, doc, want in TTL_DOCS:
        status, got, _ = _read_document(ctx, "BigTtlTriplesYielder", doc)
        if want == "raise":
            ok = status == "raise"
            exp = "raises"
        else:
            ok = status == "ok" and _same(got, want)
            exp = "%d triples as a Turtle parser reads them" % len(want)
        obs.append(Ob(clause, "R-TABLE", "R-TABLE|ttl-document|%s" % label, f.loc(), ok,
                      "document (%s) -> %s" % (label, exp) if ok else
                      "document (%s): expected %s, the reader gives %s %s" % (label, want if want != "raise" else "an error", status, got)))
    return obs


def nt_document_table(ctx, clause):
    """Whole small documents through NtTriplesYielder.yield_triples (interpreted): one triple per statement, in order, with
    the node kinds / IRIs / labels / datatypes of the document, and zero error lines."""
    f = ctx.p.find_class("NtTriplesYielder").find_method("yield_triples")
    obs = []
    for label, doc, want, errors in NT_DOCS:
        doc = doc.replace("\\\\", "\\")
        want = [tuple((("Literal", x[1].replace("\\\\", "\\") if isinstance(x[1], str) else x[1], x[2]) if isinstance(x, tuple) and x[0] == "Literal" else x)
                      for x in t) for t in want]
        status, got, env = _read_document(ctx, "NtTriplesYielder", doc)
        nerr = env.get("<error_triples>")
        ok = status == "ok" and _same(got, want) and nerr == errors
        obs.append(Ob(clause, "R-TABLE", "R-TABLE|nt-document|%s" % label, f.loc(), ok,
                      "document (%s) -> %d triples as written, %d error lines" % (label, len(want), errors) if ok else
                      "document (%s): expected %s with %d error lines, the reader gives %s %s with %s error lines" % (
                          label, want, errors, status, got, nerr)))
    return obs



def documents_never_raise(ctx, clause):
    """The no-crash half of the two document tables: a document inside the reader's dialect is read to the end - whatever
    triples come out (that is C06 / C07), no exception does."""
    obs = []
    for cname, docs in (("BigTtlTriplesYielder", [(l, d) for l, d, w in TTL_DOCS if w != "raise"]),
                        ("NtTriplesYielder", [(l, d.replace("\\\\", "\\")) for l, d, w, e in NT_DOCS])):
        f = ctx.p.find_class(cname).find_method("yield_triples")
        for label, doc in docs:
            status, got, _ = _read_document(ctx, cname, doc)
            ok = status != "raise"
            obs.append(Ob(clause, "R-TABLE", "R-TABLE|reader-no-raise|%s|%s" % (cname, label), f.loc(), ok,
                          "%s reads the document (%s) to its end" % (cname, label) if ok else
                          "%s raises on a valid document (%s): %s" % (cname, label, got)))
    return obs


def rdflib_literal_datatype_source(ctx, clause):
    """For inputs parsed by rdflib the parser has already decided what kind of literal it read: the datatype handed to the
    model Literal comes from the rdflib term (its datatype, its language) or is the xsd:string constant - never from the
    lexical form.  A datatype computed from the content re-types plain strings that merely look like something else
    ("08001" -> integer, "a@b.org" -> langString)."""
    g, p, r = ctx.flow, ctx.p, ctx.r
    cls = p.find_class("RdflibTripleYielder")
    obs, n = [], 0
    for c in [cls] + cls.all_subclasses():
        for m in c.methods.values():
            for x in walk_own(m.node):
                if not (isinstance(x, ast.Call) and any(k.arg == "elem_type" for k in x.keywords)):
                    continue
                site = r.site_of.get(id(x))
                if site is None or site.kind != "ctor" or site.recv_types.name != "Literal":
                    continue
                n += 1
                e = [k.value for k in x.keywords if k.arg == "elem_type"][0]
                back = g.back([g.enode(e)] + [g.enode(y) for y in ast.walk(e) if isinstance(y, ast.expr)], labels=("copy", "derive"))
                # lexical sources: str(<the rdflib term>) and anything assigned from it
                lex = []
                for y in walk_own(m.node):
                    if isinstance(y, ast.Call) and isinstance(y.func, ast.Name) and y.func.id == "str" and y.args and isinstance(y.args[0], ast.Name) \
                            and y.args[0].id in m.params and ("e", id(y)) in back:
                        lex.append(y)
                key = "R-FLOW|rdflib-literal-datatype|%s|%s" % (m.short, m.key(e)[:50])
                obs.append(Ob(clause, "R-FLOW", key, m.loc(x), not lex,
                              "%s takes the datatype of a literal from the rdflib term (or a constant)" % m.short if not lex else
                              "%s computes the datatype `%s` from the lexical form (`%s`): a plain string parsed by rdflib is re-typed "
                              "by what its content looks like" % (m.short, norm(e)[:60], norm(lex[0]))))
    return obs, n
