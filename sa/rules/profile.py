"""R-TABLE (profile): the profiling stage, interpreted end to end on small graphs.

ClassProfiler(...).profile_classes() is run by the abstract evaluator in object mode - the profiler, both feature
strategies and the model terms (IRI, BNode, Literal, Property) are the package's own classes, the triples yielder is a
record that hands out the triples of the table - and what comes out (the class profile and the instance counts) is held
against what the properties say, in three ways that need no frozen output:

  reference     the profile equals the one a transcription of the property statements computes from the same triples:
                per class, property and value kind, how many instances have exactly k such values (and, for every
                property but the instantiation one, how many have at least one); value kinds are the datatype of a
                literal, IRI / BNode, and one shape label per class of a value that is itself an instance       (C01, C03)
  permutation   the profile does not depend on the order of the triples                                          (C09)
  mirror        with inverse paths the direct half is the profile without them, and the inverse half is the direct
                profile of the graph with every non-literal triple reversed                                      (C14)
  closed        no shape label is ever a value kind of the instantiation property (its values are a value set
                of class IRIs, `rdf:type [@<Shape>]` is not ShExC)                                               (C05)

Nothing here names a helper, a local or a counter of the profiler: only its constructor, profile_classes() and the
triples-yielder protocol are used, so the rule survives any reorganisation behind them."""
import itertools
from ..abseval import Evaluator, Raised, Fork, AbsObj
from ..core import AnalysisError
from ..report import Ob

RDF_TYPE = "http://www.w3.org/1999/02/22-rdf-syntax-ns#type"
XSD = "http://www.w3.org/2001/XMLSchema#"
E = "http://e/"
CONCRETE = {"ClassProfiler", "DirectFeaturesStrategy", "IncludeReverseFeaturesStrategy", "AbstractFeatureDirectionStrategy",
            "IRI", "BNode", "Literal", "Property", "ShapeExampleFeaturesDict"}


def I(x):
    return ("I", E + x)


def B(x):
    return ("B", "_:" + x)


def L(v, dt="string"):
    return ("L", v, XSD + dt)


# (label, instantiation property, instances -> classes, triples)
GRAPHS = [
    ("two classes, repeated values, literals, blank nodes, a multi-typed instance", RDF_TYPE,
     {E + "a": [E + "C"], E + "b": [E + "C", E + "D"], E + "c": [E + "D"], "_:k": [E + "K"]},
     [(I("a"), RDF_TYPE, I("C")), (I("b"), RDF_TYPE, I("C")), (I("b"), RDF_TYPE, I("D")), (I("c"), RDF_TYPE, I("D")), (B("k"), RDF_TYPE, I("K")),
      (I("a"), E + "p", I("b")), (I("a"), E + "p", I("x")), (I("a"), E + "n", L("5", "integer")), (I("a"), E + "n", L("five")),
      (I("b"), E + "p", I("c")), (I("b"), E + "q", B("k")), (I("b"), E + "q", B("z")), (I("c"), E + "p", I("a")), (I("c"), E + "p", I("b")),
      (I("c"), E + "p", I("y")), (B("k"), E + "r", I("a")), (I("x"), E + "p", I("a")), (I("y"), E + "s", I("c")), (I("y"), E + "s", I("b")),
      (I("c"), E + "n", L("7", "integer"))]),
    ("a custom instantiation property: rdf:type is an ordinary property", E + "kind",
     {E + "a": [E + "C"], E + "b": [E + "C"], E + "c": [E + "D"]},
     [(I("a"), E + "kind", I("C")), (I("b"), E + "kind", I("C")), (I("c"), E + "kind", I("D")),
      (I("a"), RDF_TYPE, I("T1")), (I("a"), RDF_TYPE, I("T2")), (I("b"), RDF_TYPE, I("T1")), (I("c"), RDF_TYPE, I("c")),
      (I("a"), E + "p", I("c")), (I("b"), E + "p", L("v"))]),
    ("a class that is itself an instance of a shaped class", RDF_TYPE,
     {E + "a": [E + "Person"], E + "b": [E + "Person"], E + "Person": [E + "Class"]},
     [(I("a"), RDF_TYPE, I("Person")), (I("b"), RDF_TYPE, I("Person")), (I("Person"), RDF_TYPE, I("Class")),
      (I("a"), E + "knows", I("b")), (I("Person"), E + "label", L("person"))]),
]


class Run:
    def __init__(self, ctx):
        self.ctx = ctx
        self.p = ctx.p
        self.cls = {n: self.p.find_class(n) for n in ("ClassProfiler", "IRI", "BNode", "Literal", "Property")}
        self.names = self.p.func("shexer.utils.shapes:build_shapes_name_for_class_uri")

    def label(self, class_uri):
        ns = self.p.const("shexer.consts", "SHAPES_DEFAULT_NAMESPACE")
        outs = Evaluator(self.ctx, max_depth=6).outcomes(self.names, {"class_uri": class_uri, "shapes_namespace": ns})
        if len(outs) != 1 or outs[0][0] != "return" or not isinstance(outs[0][1], str):
            raise AnalysisError("shape label of %s is not computable: %s" % (class_uri, outs))
        return outs[0][1]

    def profile(self, triples, insts, inverse, inst_prop, remove_empty=False, detect_minimal_iri=False, examples_mode=None, want_ev=False):
        ev = Evaluator(self.ctx, max_depth=30)
        ev.concrete_classes = set(CONCRETE)
        ev._yields = []

        def term(x):
            if x[0] == "I":
                return ev.new(self.cls["IRI"], content=x[1])
            if x[0] == "B":
                return ev.new(self.cls["BNode"], identifier=x[1])
            return ev.new(self.cls["Literal"], content=x[1], elem_type=x[2])
        ts = [(term(s), ev.new(self.cls["Property"], content=pr), term(o)) for s, pr, o in triples]

        def yield_triples(rec, args, kws):
            return list(ts)
        yield_triples.wants_args = True
        init = self.cls["ClassProfiler"].find_method("__init__")
        kws = {"triples_yielder": {"yield_triples()": yield_triples}, "instances_dict": {k: list(v) for k, v in insts.items()},
               "instantiation_property_str": inst_prop, "remove_empty_shapes": remove_empty, "inverse_paths": inverse}
        if detect_minimal_iri or examples_mode is not None:
            kws.update({"detect_minimal_iri": detect_minimal_iri, "examples_mode": examples_mode})
        missing = [k for k in kws if k not in init.params]
        if missing:
            raise AnalysisError("ClassProfiler.__init__ no longer takes %s" % missing)
        try:
            prof = ev.new(self.cls["ClassProfiler"], **kws)
            ev._decisions, ev._taken, ev.effects = [], [], []
            res = ev.invoke(prof, "profile_classes", [], {"verbose": False}, 0)
        except Raised as r:
            return ("raises", r.exc)
        except Fork as fk:
            raise AnalysisError("the profiler consults a value the table does not fix (%s)" % type(fk.site).__name__)
        if not (isinstance(res, tuple) and len(res) >= 2 and isinstance(res[0], dict) and isinstance(res[1], dict)):
            return ("shape", repr(res)[:120])
        if want_ev:
            return ("ok", _plain(res[0]), dict(res[1]), res[2] if len(res) > 2 else None, ev)
        return ("ok", _plain(res[0]), dict(res[1]))


def _plain(v):
    if isinstance(v, dict):
        return {k: _plain(x) for k, x in v.items()}
    if isinstance(v, (tuple, list)):
        return tuple(_plain(x) for x in v)
    return v


def reference(run, triples, insts, inst_prop, inverse_half=False):
    """The profile the property statements describe (one direction)."""
    counts = {}
    for i, cs in insts.items():
        for c in cs:
            counts[c] = counts.get(c, 0) + 1
    key = lambda t: t[1]
    feats = {i: {} for i in insts}
    for s, pr, o in triples:
        a, b = (o, s) if inverse_half else (s, o)        # a: the instance the feature belongs to, b: the value
        if a[0] == "L" or key(a) not in insts:
            continue
        if inverse_half and b[0] == "L":
            continue
        kinds = []
        if pr == inst_prop and b[0] != "L":
            kinds.append(key(b))
        else:
            kinds.append(b[2] if b[0] == "L" else ("IRI" if b[0] == "I" else "BNode"))
            # a value that is itself an instance adds one shape label per class; for incoming links only IRI subjects do
            # (blank-node subjects of incoming links are classified by kind only - C14's quantifier)
            if b[0] == "I" or (b[0] == "B" and not inverse_half):
                kinds += [run.label(c) for c in insts.get(key(b), [])]
        for k in kinds:
            d = feats[key(a)].setdefault(pr, {})
            d[k] = d.get(k, 0) + 1
    prof = {c: {} for c in counts}
    for i, cs in insts.items():
        for c in cs:
            for pr, kinds in feats[i].items():
                for k, n in kinds.items():
                    slot = prof[c].setdefault(pr, {}).setdefault(k, {})
                    if pr == inst_prop:
                        slot[1] = slot.get(1, 0) + 1
                    else:
                        slot[n] = slot.get(n, 0) + 1
                        slot["+"] = slot.get("+", 0) + 1
    return prof, counts


def _reverse(triples):
    """The non-literal triples, reversed (the literal ones stay outgoing features and are not part of the comparison)."""
    return [(o, pr, s) for s, pr, o in triples if o[0] != "L"]


def _without_bnode_instance_subjects(triples, insts):
    """Links from a blank node that is itself an instance: compared on kind only (C14's quantifier), left out of the mirror."""
    return [t for t in triples if not (t[0][0] == "B" and t[0][1] in insts and t[2][0] != "L")]


def _direct(profile, inverse):
    return {c: (v[0] if inverse else v) for c, v in profile.items()}


def _diff(got, want):
    """First difference between two nested dictionaries, as text."""
    if isinstance(got, dict) and isinstance(want, dict):
        for k in sorted(set(got) | set(want), key=str):
            if k not in got:
                return "%r is missing (expected %r)" % (k, want[k])
            if k not in want:
                return "unexpected %r: %r" % (k, got[k])
            d = _diff(got[k], want[k])
            if d:
                return "%r -> %s" % (k, d)
        return None
    return None if got == want else "%r, expected %r" % (got, want)


def tables(ctx, clause, which):
    run = Run(ctx)
    loc = run.cls["ClassProfiler"].find_method("profile_classes").loc()
    fails = {k: None for k in ("reference", "permutation", "mirror", "closed", "no-crash")}
    rows = {k: 0 for k in fails}
    plus = ctx.p.const("shexer.core.profiling.consts", "_ONE_TO_MANY")
    for label, inst_prop, insts, triples in GRAPHS:
        base = {}
        for inverse in (False, True):
            out = run.profile(triples, insts, inverse, inst_prop)
            rows["no-crash"] += 1
            if out[0] != "ok":
                fails["no-crash"] = fails["no-crash"] or "graph (%s), inverse_paths=%s: profile_classes %s %s" % (label, inverse, out[0], out[1])
                continue
            base[inverse] = out
            got_prof, got_counts = out[1], out[2]
            # ---- reference
            want_d, want_counts = reference(run, triples, insts, inst_prop)
            if plus != "+":
                want_d = _plain({c: {p_: {k: {(plus if x == "+" else x): n for x, n in cd.items()} for k, cd in kd.items()} for p_, kd in pd.items()}
                                 for c, pd in want_d.items()})
            rows["reference"] += 1
            d = _diff(got_counts, want_counts) or _diff(_direct(got_prof, inverse), want_d)
            if d:
                fails["reference"] = fails["reference"] or "graph (%s), inverse_paths=%s, outgoing features: %s" % (label, inverse, d)
            if inverse:
                want_i, _ = reference(run, triples, insts, inst_prop, inverse_half=True)
                if "itself an instance" not in label:        # incoming instantiation triples of a class node: not stated by any property
                    rows["reference"] += 1
                    d = _diff({c: v[1] for c, v in got_prof.items()}, want_i)
                    if d:
                        fails["reference"] = fails["reference"] or "graph (%s), incoming features: %s" % (label, d)
            # ---- closed
            rows["closed"] += 1
            for c, v in got_prof.items():
                for half in (v if inverse else (v,)):
                    for k in half.get(inst_prop, {}):
                        if any(k == run.label(x) for cs in insts.values() for x in cs):
                            fails["closed"] = fails["closed"] or (
                                "graph (%s), inverse_paths=%s: shape %s has the shape label %s among the values of the instantiation "
                                "property - it is printed as `%s [@<...>]`, which is not ShExC" % (label, inverse, c, k, inst_prop.split("#")[-1]))
        # ---- permutation
        if which is None or "permutation" in which:
            for inverse in (False, True):
                if inverse not in base:
                    continue
                for perm in (list(reversed(triples)), triples[1::2] + triples[0::2]):
                    # the instance tracker lists instances and their classes in the order of the instantiation triples
                    insts_p = {k: list(reversed(v)) for k, v in reversed(list(insts.items()))}
                    out = run.profile(perm, insts_p, inverse, inst_prop)
                    rows["permutation"] += 1
                    if out[0] != "ok":
                        fails["permutation"] = fails["permutation"] or "graph (%s) permuted: %s %s" % (label, out[0], out[1])
                    else:
                        d = _diff(out[2], base[inverse][2]) or _diff(out[1], base[inverse][1])
                        if d:
                            fails["permutation"] = fails["permutation"] or (
                                "graph (%s), inverse_paths=%s: the same triples in another order give a different profile: %s" % (label, inverse, d))
        # ---- mirror
        if (which is None or "mirror" in which) and False in base and True in base:
            rows["mirror"] += 1
            d = _diff(_direct(base[True][1], True), base[False][1]) or _diff(base[True][2], base[False][2])
            if d:
                fails["mirror"] = fails["mirror"] or "graph (%s): enabling inverse_paths changes the outgoing half: %s" % (label, d)
            if "itself an instance" not in label:
                mt = _without_bnode_instance_subjects(triples, insts)
                rev = run.profile(_reverse(mt), insts, False, "http://none/")       # reversed graph: no triple is an instantiation
                two = base[True] if len(mt) == len(triples) else run.profile(mt, insts, True, inst_prop)
                rows["mirror"] += 1
                if two[0] != "ok":
                    fails["mirror"] = fails["mirror"] or "graph (%s): %s %s" % (label, two[0], two[1])
                    continue
                fwd = {c: {p_: kd for p_, kd in v[1].items()} for c, v in two[1].items()}
                if rev[0] != "ok":
                    fails["mirror"] = fails["mirror"] or "graph (%s) reversed: %s %s" % (label, rev[0], rev[1])
                else:
                    # the instantiation triples of the original graph are ordinary ones in the reversed graph: compare the others
                    want = {c: {p_: kd for p_, kd in pd.items() if p_ != inst_prop} for c, pd in rev[1].items()}
                    got = {c: {p_: kd for p_, kd in pd.items() if p_ != inst_prop} for c, pd in fwd.items()}
                    d = _diff(got, want)
                    if d:
                        fails["mirror"] = fails["mirror"] or (
                            "graph (%s): the incoming half is not the outgoing profile of the reversed graph: %s" % (label, d))
    texts = {"reference": "class profile and instance counts are those the property statements describe",
             "permutation": "the profile does not depend on the order of the triples",
             "mirror": "inverse_paths leaves the outgoing half alone and adds the outgoing profile of the reversed graph",
             "closed": "no shape label among the values of the instantiation property",
             "no-crash": "profile_classes returns a profile for every graph of the table"}
    obs = []
    for k, why in fails.items():
        if which is not None and k not in which:
            continue
        obs.append(Ob(clause, "R-TABLE", "R-TABLE|profile|%s" % k, loc, why is None,
                      "%s (%d interpreted runs of the profiler)" % (texts[k], rows[k]) if why is None else
                      "profiling stage, '%s' (%s) fails: %s" % (k, texts[k], why)))
    return obs, sum(rows.values())


def examples_table(ctx, clause):
    """detect_minimal_iri / examples_mode, end to end through the profiler: the stem folded for a class is the common prefix
    of the IRIs of all its instances; the example of a shape is one of its instances; the example of a constraint is a value
    one of the shape's instances really has for that property, in that direction.  Every combination of the two options."""
    import os
    run = Run(ctx)
    p = ctx.p
    loc = run.cls["ClassProfiler"].find_method("profile_classes").loc()
    SHAPE, CONS, ALL = (p.const("shexer.consts", n) for n in ("SHAPE_EXAMPLES", "CONSTRAINT_EXAMPLES", "ALL_EXAMPLES"))
    insts = {E + "people/a": [E + "C"], E + "people/b": [E + "C", E + "D"], E + "places/c": [E + "D"], E + "people/ab": [E + "C"],
             E + "people": [E + "C"]}          # an IRI that is a proper prefix of the stem folded so far
    T = lambda x: ("I", E + x)
    triples = [(T("people/a"), RDF_TYPE, I("C")), (T("people/b"), RDF_TYPE, I("C")), (T("people/b"), RDF_TYPE, I("D")),
               (T("places/c"), RDF_TYPE, I("D")), (T("people/ab"), RDF_TYPE, I("C")), (T("people"), RDF_TYPE, I("C")),
               (T("people/a"), E + "p", T("people/b")), (T("people/b"), E + "p", T("places/c")), (T("people/a"), E + "n", L("5", "integer")),
               (T("places/c"), E + "q", T("people/a")), (T("people/ab"), E + "n", L("6", "integer")), (I("x"), E + "p", T("people/ab"))]
    of_class = {}
    for i, cs in insts.items():
        for c in cs:
            of_class.setdefault(c, []).append(i)
    obs, rows = [], 0
    for inverse in (False, True):
        for min_iri in (False, True):
            for mode in (None, SHAPE, CONS, ALL):
                if not min_iri and mode is None:
                    continue
                out = run.profile(triples, insts, inverse, RDF_TYPE, detect_minimal_iri=min_iri, examples_mode=mode, want_ev=True)
                rows += 1
                desc = "inverse_paths=%s, detect_minimal_iri=%s, examples_mode=%s" % (inverse, min_iri, mode)
                bad = None
                if out[0] != "ok":
                    bad = "profile_classes %s %s" % (out[0], out[1])
                elif not isinstance(out[3], AbsObj):
                    bad = "no examples structure is returned (%r)" % (out[3],)
                else:
                    store, ev = out[3], out[4]

                    def ask(name, **kw):
                        ev._decisions, ev._taken, ev.effects = [], [], []
                        try:
                            return ev.invoke(store, name, [], kw, 0)
                        except Raised as r_:
                            return ("raises", r_.exc)
                    for c, members in of_class.items():
                        if bad:
                            break
                        if min_iri:
                            got = ask("shape_min_iri", shape_id=c)
                            want = os.path.commonprefix(members)
                            if got != want:
                                bad = "class %s with instances %s: the folded stem is %r, their common prefix is %r" % (c, members, got, want)
                        if mode in (SHAPE, ALL) and not bad:
                            got = ask("shape_example", shape_id=c)
                            if got not in members:
                                bad = "class %s: the shape example is %r, which is none of its instances %s" % (c, got, members)
                        if mode in (CONS, ALL) and not bad:
                            for direction in ((False, True) if inverse else (False,)):
                                for s_, pr, o in triples:
                                    a, b = (o, s_) if direction else (s_, o)
                                    if a[0] == "L" or a[1] not in members or (direction and b[0] == "L"):
                                        continue
                                    kw = {"shape_id": c, "prop_id": pr}
                                    if inverse:
                                        kw["inverse"] = direction
                                    has = ask("has_constraint_example", **kw)
                                    kw2 = {"shape_id": c, "prop": pr}
                                    if inverse:
                                        kw2["inverse"] = direction
                                    got = ask("get_constraint_example", **kw2) if has is True else None
                                    values = {x[1] for s2, p2, o2 in triples for y, x in [((o2, s2) if direction else (s2, o2))]
                                              if p2 == pr and y[0] != "L" and y[1] in members and not (direction and x[0] == "L")}
                                    if has is not True or got not in values:
                                        bad = "class %s, %s%s: the constraint example is %r, the values its instances have are %s" % (
                                            c, "^" if direction else "", pr, got if has is True else has, sorted(values))
                                        break
                                if bad:
                                    break
                obs.append(Ob(clause, "R-TABLE", "R-TABLE|examples|%s" % desc, loc, bad is None,
                              "%s: stems, shape examples and constraint examples are those of the instances" % desc if bad is None else
                              "%s: %s" % (desc, bad)))
    return obs, rows


# ------------------------------------------------------------------------------------------------------ the shexing stage
SHEXING = set("ClassShexer DirectAndInverseShexingStrategy AnnotateMinIriStrategy IgnoreMinIriStrategy AbstractMinIriStrategy "
              "AbstractShexingStrategy MergeableConstraints DirectShexingStrategy MixedFrequencyStrategy AbsFreqSerializer "
              "BaseFrequencyStrategy RatioFreqSerializer FixedPropChoiceStatementSerializer BaseStatementSerializer StSerializerFactory "
              "FixedPropChoiceStatement Shape Statement".split())


def shex(run, prof, counts, inverse, inst_prop, threshold, **opts):
    """ClassShexer(...).shex_classes(threshold), interpreted on a class profile -> {class: (n_instances, {key: figures})} with
    key = (direction, property, value kind(s)) and figures = (cardinality, instances, ratio)."""
    ctx, p = run.ctx, run.p
    if inverse:
        prof = {c: [_thaw(v[0]), _thaw(v[1])] for c, v in prof.items()}
    else:
        prof = {c: _thaw(v) for c, v in prof.items()}
    ev = Evaluator(ctx, max_depth=40)
    ev._yields = []
    ev.concrete_classes = {n for n in SHEXING if p.find_class(n) is not None}
    cls = p.find_class("ClassShexer")
    init = cls.find_method("__init__")
    kws = dict(class_counts_dict=dict(counts), class_profile_dict=prof, remove_empty_shapes=False, inverse_paths=inverse,
               instantiation_property=inst_prop, disable_comments=False)
    kws.update(opts)
    missing = [k for k in kws if k not in init.params]
    if missing:
        raise AnalysisError("ClassShexer.__init__ no longer takes %s" % missing)
    try:
        sh = ev.new(cls, **kws)
        ev._decisions, ev._taken, ev.effects = [], [], []
        shapes = ev.invoke(sh, "shex_classes", [], {"acceptance_threshold": threshold, "verbose": False}, 0)
    except Raised as r:
        return ("raises", r.exc)
    except Fork as fk:
        raise AnalysisError("the shexing stage consults a value the table does not fix (%s)" % type(fk.site).__name__)
    out = {}
    for s in shapes or []:
        if not isinstance(s, AbsObj):
            return ("shape", repr(s)[:80])
        f = s.fields
        sts = {}
        for st in f.get("_statements") or []:
            g = st.fields
            kind = tuple(sorted(g["_st_types"])) if "_st_types" in g else g.get("_st_type")
            pr = g.get("_probability")
            sts[(bool(g.get("_is_inverse")), g.get("_st_property"), kind)] = (
                g.get("_cardinality"), g.get("_n_occurences"), round(pr, 9) if isinstance(pr, float) else pr)
        out[f.get("_class_uri")] = (f.get("_n_instances"), sts)
    return ("ok", out)


def _thaw(v):
    if isinstance(v, dict):
        return {k: _thaw(x) for k, x in v.items()}
    if isinstance(v, tuple):
        return [_thaw(x) for x in v]
    return v


def shapes_tables(ctx, clause, which=None):
    """The shexing stage on the profiles of the graphs above, for several thresholds, with and without inverse paths:
      mirror     (C14) the outgoing constraints are the same with and without inverse_paths, and the incoming ones are the
                 outgoing constraints obtained from the reversed graph - same keys, cardinalities and figures;
      monotone   (C12, C02) raising the threshold only removes constraint keys and shapes; a key that survives keeps its figures
                 when nothing competing with it was removed."""
    run = Run(ctx)
    loc = run.p.find_class("ClassShexer").find_method("shex_classes").loc()
    fails = {"mirror": None, "monotone": None, "no-crash": None}
    rows = {k: 0 for k in fails}
    THRESHOLDS = (0, 0.4, 0.6, 1.0)
    for label, inst_prop, insts, triples in GRAPHS[:2]:
        mt = _without_bnode_instance_subjects(triples, insts)
        profs = {}
        for inverse in (False, True):
            o = run.profile(mt, insts, inverse, inst_prop)
            if o[0] != "ok":
                raise AnalysisError("profile of graph (%s) is not computable: %s" % (label, o[1]))
            profs[inverse] = o
        rev = run.profile(_reverse(mt), insts, False, "http://none/")
        if rev[0] != "ok":
            raise AnalysisError("profile of the reversed graph (%s) is not computable: %s" % (label, rev[1]))
        res = {}
        for t in THRESHOLDS:
            for inverse in (False, True):
                o = shex(run, profs[inverse][1], profs[inverse][2], inverse, inst_prop, t)
                rows["no-crash"] += 1
                if o[0] != "ok":
                    fails["no-crash"] = fails["no-crash"] or "graph (%s), threshold %s, inverse_paths=%s: shex_classes %s %s" % (label, t, inverse, o[0], o[1])
                    continue
                res[(t, inverse)] = o[1]
            if (t, False) not in res or (t, True) not in res:
                continue
            # ---- mirror
            one, two = res[(t, False)], res[(t, True)]
            rows["mirror"] += 1
            out_two = {c: (n, {k: v for k, v in sts.items() if not k[0]}) for c, (n, sts) in two.items()}
            d = _diff(out_two, one)
            if d:
                fails["mirror"] = fails["mirror"] or "graph (%s), threshold %s: inverse_paths changes the outgoing constraints: %s" % (label, t, d)
            r = shex(run, rev[1], rev[2], False, "http://none/", t)
            rows["mirror"] += 1
            if r[0] != "ok":
                fails["mirror"] = fails["mirror"] or "graph (%s) reversed, threshold %s: %s %s" % (label, t, r[0], r[1])
            else:
                want = {c: {(True,) + k[1:]: v for k, v in sts.items()} for c, (n, sts) in r[1].items()}
                got = {c: {k: v for k, v in sts.items() if k[0] and k[1] != inst_prop} for c, (n, sts) in two.items()}
                want = {c: {k: v for k, v in sts.items() if k[1] != inst_prop} for c, sts in want.items()}
                d = _diff(got, want)
                if d:
                    fails["mirror"] = fails["mirror"] or (
                        "graph (%s), threshold %s: the incoming constraints are not the outgoing constraints of the reversed graph: %s" % (label, t, d))
        # ---- monotone
        for inverse in (False, True):
            for t1, t2 in zip(THRESHOLDS, THRESHOLDS[1:]):
                if (t1, inverse) not in res or (t2, inverse) not in res:
                    continue
                rows["monotone"] += 1
                lo, hi = res[(t1, inverse)], res[(t2, inverse)]
                for c, (n, sts) in hi.items():
                    if c not in lo:
                        fails["monotone"] = fails["monotone"] or "graph (%s), inverse_paths=%s: shape %s exists at threshold %s but not at %s" % (label, inverse, c, t2, t1)
                        continue
                    for k in sts:
                        if k not in lo[c][1]:
                            fails["monotone"] = fails["monotone"] or (
                                "graph (%s), inverse_paths=%s, shape %s: the constraint %s%s %s is present at threshold %s but not at %s"
                                % (label, inverse, c, "^" if k[0] else "", k[1], k[2], t2, t1))
    texts = {"mirror": "outgoing constraints unchanged by inverse_paths; incoming constraints = outgoing constraints of the reversed graph",
             "monotone": "a higher threshold only removes shapes and constraint keys",
             "no-crash": "shex_classes returns shapes for every profile, threshold and direction of the table"}
    obs = []
    for k, why in fails.items():
        if which is not None and k not in which:
            continue
        obs.append(Ob(clause, "R-TABLE", "R-TABLE|shapes|%s" % k, loc, why is None,
                      "%s (%d interpreted runs / comparisons)" % (texts[k], rows[k]) if why is None else
                      "shexing stage, '%s' (%s) fails: %s" % (k, texts[k], why)))
    return obs, sum(rows.values())
