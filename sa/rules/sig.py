"""R-SIG: call / attribute conformance (DESIGN section 3).

* every resolved intra-package call binds against the callee signature;
* every `self.x` read names a field assigned somewhere in the hierarchy, a method,
  a property or a class constant;
* a method called on a receiver whose type is a package class exists on that class;
* attribute reads on caught builtin exceptions exist on BaseException."""
import ast
from ..core import walk_own, norm, is_self_attr
from ..resolve import bind_args
from ..report import Ob

_EXC_ATTRS = {"args", "with_traceback", "add_note", "__traceback__", "__cause__", "__context__", "__class__",
              "__str__", "__repr__"}
_BUILTIN_EXC = {"ValueError", "TypeError", "KeyError", "IndexError", "Exception", "BaseException", "RuntimeError",
                "AttributeError", "ResourceWarning", "StopIteration"}
_OBJECT_ATTRS = {"__class__", "__dict__", "__doc__", "__module__", "__name__"}


def is_abstract_stub(f):
    body = [s for s in f.node.body if not (isinstance(s, ast.Expr) and isinstance(s.value, ast.Constant))]
    return len(body) == 1 and isinstance(body[0], ast.Raise) and "NotImplementedError" in ast.unparse(body[0])


def check_calls(ctx, clause="D-b"):
    obs = []
    r = ctx.r
    for cs in r.callsites:
        if not cs.targets:
            if cs.kind == "missing":
                reach = ctx.reachable(cs.func)
                names = sorted(k.split(":")[1] for k in (cs.recv_types or []) if k.startswith("missing:"))
                obs.append(Ob(clause, "R-SIG", "R-SIG|missing-method|%s|%s" % (cs.func.short, cs.func.key(cs.node.func)),
                              cs.func.loc(cs.node), False,
                              "method %s() does not exist on %s (receiver %s)" % (cs.node.func.attr, "/".join(names),
                                                                                norm(cs.node.func.value)),
                              note=not reach))
            continue
        live = r.live_targets(cs, r.instantiated) or cs.targets
        cands = [t for t in live if not is_abstract_stub(t)] or live
        results = [(t, bind_args(cs.node, t)) for t in cands]
        def _variant_family(ts):
            kinds = {("no_inverse" if t.name.endswith("_no_inverse") else ("inverse" if t.name.endswith("_inverse") else None)) for t in ts}
            return {"no_inverse", "inverse"} <= kinds and len({t.cls for t in ts}) == 1
        if (cs.kind == "slot" or (cs.kind == "byname" and _variant_family([t for t, _ in results]))) \
                and any(b["errors"] for _, b in results) and not all(b["errors"] for _, b in results):
            # the slot holds one of several variants chosen by the configuration; a call that binds only some of them is
            # fine when the caller itself exists for the same configuration (the repo's naming: *_no_inverse / *_inverse
            # variants, or a direct-only strategy class), otherwise the other configuration crashes here
            def variant(name):
                return "no_inverse" if name.endswith("_no_inverse") else ("inverse" if name.endswith("_inverse") or name.endswith("_inverse_paths") else None)
            from .direction import DIRECT_ONLY_CLASSES, INVERSE_ONLY_CLASSES
            cv = variant(cs.func.name) or ("no_inverse" if cs.func.cls is not None and cs.func.cls.name in DIRECT_ONLY_CLASSES else None) \
                or ("inverse" if cs.func.cls is not None and cs.func.cls.name in INVERSE_ONLY_CLASSES else None)
            binding = {variant(t.name) for t, b in results if not b["errors"]}
            bad = not (cv is not None and binding == {cv})
        elif cs.kind in ("slot", "byname"):
            bad = all(b["errors"] for _, b in results)
        else:
            bad = any(b["errors"] for _, b in results)
        key = "R-SIG|call|%s|%s" % (cs.func.short, cs.func.key(cs.node.func) + "(" + ",".join(
            [("*" if isinstance(a, ast.Starred) else "_") for a in cs.node.args] +
            [str(k.arg) for k in cs.node.keywords]) + ")")
        if bad:
            errs = sorted({"%s: %s" % (t.short, e) for t, b in results for e in b["errors"]})
            obs.append(Ob(clause, "R-SIG", key, cs.func.loc(cs.node), False,
                          "call %s does not match the callee signature: %s" % (norm(cs.node)[:80], "; ".join(errs)),
                          note=not ctx.reachable(cs.func)))
        else:
            obs.append(Ob(clause, "R-SIG", key, cs.func.loc(cs.node), True,
                          "binds against %s" % ", ".join(t.short for t in cands[:3])))
    return obs


def check_self_attrs(ctx, clause="D-b"):
    obs = []
    p, r = ctx.p, ctx.r
    for c in p.classes.values():
        known = set(r.fields_of(c))
        for k in c.mro() + c.all_subclasses():
            known |= set(k.methods) | set(k.setters) | set(k.class_consts)
        if any(k.ext_bases and set(k.ext_bases) - {"object", "BaseException", "Exception"} for k in c.mro()):
            continue   # inherits from an external class: cannot enumerate its attributes
        for f in list(c.methods.values()) + list(c.setters.values()):
            if f.is_static:
                continue
            seen = set()
            for n in walk_own(f.node):
                if is_self_attr(n) and isinstance(n.ctx, ast.Load) and n.attr not in known and n.attr not in _OBJECT_ATTRS:
                    if n.attr in seen:
                        continue
                    seen.add(n.attr)
                    obs.append(Ob(clause, "R-SIG", "R-SIG|self-attr|%s|%s" % (f.short, n.attr), f.loc(n), False,
                                  "self.%s is read but never assigned in %s or its hierarchy" % (n.attr, c.name),
                                  note=not ctx.reachable(f)))
            obs.append(Ob(clause, "R-SIG", "R-SIG|self-attrs|%s" % f.short, f.loc(), True,
                          "every self.<attr> read is defined in the hierarchy of %s" % c.name)) if not seen else None
    return obs


def check_exception_attrs(ctx, clause="D-b"):
    obs = []
    for f in ctx.p.funcs.values():
        for n in walk_own(f.node):
            if isinstance(n, ast.ExceptHandler) and n.name and n.type is not None:
                types = [n.type] if not isinstance(n.type, ast.Tuple) else n.type.elts
                names = [t.id for t in types if isinstance(t, ast.Name)]
                if not names or not all(x in _BUILTIN_EXC for x in names):
                    continue
                for m in ast.walk(n):
                    if isinstance(m, ast.Attribute) and isinstance(m.value, ast.Name) and m.value.id == n.name \
                            and isinstance(m.ctx, ast.Load):
                        ok = m.attr in _EXC_ATTRS
                        obs.append(Ob(clause, "R-SIG", "R-SIG|exc-attr|%s|%s.%s" % (f.short, "/".join(names), m.attr),
                                      f.loc(m), ok, "attribute .%s of a caught %s %s" % (
                                          m.attr, "/".join(names), "exists" if ok else "does not exist on builtin exceptions"),
                                      note=not ctx.reachable(f)))
    return obs


def check_typed_attr_reads(ctx, clause="D-b"):
    """obj.attr where every possible type of obj is a package class: attr must exist."""
    obs = []
    p, r = ctx.p, ctx.r
    for f in p.funcs.values():
        done = set()
        for n in walk_own(f.node):
            if isinstance(n, ast.Attribute) and isinstance(n.ctx, ast.Load) and not is_self_attr(n):
                ts = r.type_of(n.value, f)
                if not ts or not all(t[0] == "inst" for t in ts):
                    continue
                missing, present = [], False
                for t in ts:
                    c = p.classes[t[1]]
                    if any(k.ext_bases and set(k.ext_bases) - {"object"} for k in c.mro()):
                        present = True
                        break
                    known = set(r.fields_of(c))
                    for k in c.mro() + c.all_subclasses():
                        known |= set(k.methods) | set(k.class_consts)
                    if n.attr not in known and n.attr not in _OBJECT_ATTRS:
                        missing.append(c.name)
                    else:
                        present = True
                if present:      # some candidate type has it: a type test may select it (flow-insensitive types)
                    missing = []
                key = "R-SIG|attr|%s|%s" % (f.short, f.key(n))
                if key in done:
                    continue
                done.add(key)
                if missing:
                    obs.append(Ob(clause, "R-SIG", key, f.loc(n), False,
                                  "%s: attribute %s does not exist on %s" % (norm(n), n.attr, "/".join(sorted(set(missing)))),
                                  note=not ctx.reachable(f)))
                else:
                    obs.append(Ob(clause, "R-SIG", key, f.loc(n), True, "attribute exists on %s" % "/".join(
                        sorted(p.classes[t[1]].name for t in ts))))
    return obs


def check_abstract_coverage(ctx, clause="D-d"):
    """An abstract stub (body = raise NotImplementedError) must be overridden or
    slot-bound in every instantiated class that can reach it."""
    obs = []
    p, r = ctx.p, ctx.r
    for c in p.classes.values():
        if c.qual not in r.instantiated:
            continue
        seen = set()
        for k in c.mro():
            for name, m in k.methods.items():
                if name in seen:
                    continue
                seen.add(name)
                eff = c.find_method(name)
                if eff is not None and is_abstract_stub(eff):
                    slot = r.slot_targets(c, name)
                    called = bool(r.callers_of.get(eff.qual)) or any(
                        isinstance(n, ast.Attribute) and n.attr == name for ff in p.funcs.values() for n in ())
                    ok = bool(slot) and all(not is_abstract_stub(s) for s in slot)
                    if not ok and not r.callers_of.get(eff.qual):
                        # a stub nobody calls is dead, not a crash
                        obs.append(Ob(clause, "R-RAISE", "R-RAISE|abstract|%s.%s" % (c.name, name), eff.loc(), True,
                                      "abstract stub without callers (dead)"))
                        continue
                    obs.append(Ob(clause, "R-RAISE", "R-RAISE|abstract|%s.%s" % (c.name, name), eff.loc(), ok,
                                  "instantiated class %s %s abstract method %s" % (
                                      c.name, "binds a slot over" if ok else "does not override", eff.short),
                                  note=False))
    return obs
