"""R-DOMAIN: a loop that initialises per-key state which is later read unconditionally must iterate a container that
never loses keys.  Concretely: ClassProfiler initialises the per-class example / minimal-IRI entry for every key of
the container it iterates in _init_class_features_dict, and _annotate_min_iris* then reads the entry of every class of
every instance without a presence test; the iterated container therefore has to hold every class of every instance
at that point - it must not be one from which empty shapes were deleted."""
import ast
from ..core import walk_own, norm, is_self_attr
from ..report import Ob


def check(ctx, clause):
    p, g = ctx.p, ctx.flow
    f = p.method("ClassProfiler", "_init_class_features_dict")
    loops = [x for x in walk_own(f.node) if isinstance(x, ast.For)]
    obs = []
    if len(loops) != 1 or not is_self_attr(loops[0].iter):
        obs.append(Ob(clause, "R-DOMAIN", "R-DOMAIN|ClassProfiler._init_class_features_dict", f.loc(), False,
                      "the initialisation loop does not iterate a field of the profiler: %s" % (norm(loops[0].iter) if loops else "no loop")))
        return obs
    field = loops[0].iter.attr
    aliases = {n for n in g.flows(g.field_nodes(f.cls, field), labels=("copy",)) | g.back(g.field_nodes(f.cls, field), labels=("copy",)) if n[0] == "f"}
    alias_names = {n[2] for n in aliases} | {field}
    deleters = []
    for ff in p.funcs.values():
        for x in walk_own(ff.node):
            if isinstance(x, ast.Delete):
                for t in x.targets:
                    if isinstance(t, ast.Subscript) and isinstance(t.value, ast.Attribute) and t.value.attr in alias_names:
                        deleters.append((ff, x))
            if isinstance(x, ast.Call) and isinstance(x.func, ast.Attribute) and x.func.attr in ("pop", "popitem", "clear") \
                    and isinstance(x.func.value, ast.Attribute) and x.func.value.attr in alias_names:
                deleters.append((ff, x))
    ok = not deleters
    obs.append(Ob(clause, "R-DOMAIN", "R-DOMAIN|ClassProfiler._init_class_features_dict|%s" % field, f.loc(loops[0]), ok,
                  "per-class example state is initialised for every key of self.%s, from which nothing is ever deleted" % field if ok else
                  "per-class example state is initialised only for the keys of self.%s, but %s deletes keys from it (`%s`): a class that "
                  "has instances and lost its empty shape is later read without an entry (KeyError)" % (
                      field, deleters[0][0].short, norm(deleters[0][1])[:60])))
    return obs
