"""R-MEMO (generic): completeness of memo keys.

A dictionary is used as a memo inside a function when the same key expression K occurs in a
presence test (`K in d`, `K not in d`, `d.get(K)`) and in a store `d[K] = V`.  Every input the stored
value V is computed from (parameters, loop variables and their access paths, expanded through local
assignments) must also be an input of K; otherwise two different computations share one entry and the
first one wins - an order / history dependence."""
import ast
from ..core import walk_own, norm, is_self_attr
from ..report import Ob


def _paths(expr, defs, f, depth=0, seen=None):
    """Access-path inputs of an expression: 'param', 'param[IDX]', 'param.attr', 'call(param...)'."""
    seen = seen or set()
    out = set()
    if expr is None or depth > 6:
        return out
    if isinstance(expr, ast.Name):
        if expr.id in defs and expr.id not in seen:
            for d in defs[expr.id]:
                out |= _paths(d, defs, f, depth + 1, seen | {expr.id})
            return out
        if expr.id in f.params or expr.id in f.kwonly or expr.id in defs:
            return {expr.id}
        return out
    if isinstance(expr, (ast.Attribute, ast.Subscript)):
        base = expr
        while isinstance(base, (ast.Attribute, ast.Subscript)):
            base = base.value
        if isinstance(base, ast.Name) and base.id == "self":
            return out           # state of the object, not an input of this call
        if isinstance(base, ast.Name) and base.id not in defs and (base.id in f.params or base.id in f.kwonly):
            out.add(norm(expr))
            if isinstance(expr, ast.Subscript):
                out |= {p for p in _paths(expr.slice, defs, f, depth + 1, seen) if p not in f.params}
            return out
        if isinstance(base, ast.Name) and base.id in defs and base.id not in seen:
            # expand the local the path starts from, keep the suffix as a refinement
            for d in defs[base.id]:
                out |= _paths(d, defs, f, depth + 1, seen | {base.id})
            return out
    if isinstance(expr, ast.Call) and isinstance(expr.func, ast.Name) and expr.func.id in ("str", "len", "int", "float", "repr", "bool") \
            and len(expr.args) == 1:
        inner = _paths(expr.args[0], defs, f, depth + 1, seen)
        # a conversion of a value is an input of its own: str(x) says nothing about x.other_attribute
        return {"%s(%s)" % (expr.func.id, p) for p in inner}
    if isinstance(expr, ast.Call):
        for a in list(expr.args) + [k.value for k in expr.keywords]:
            out |= _paths(a, defs, f, depth + 1, seen)
        if isinstance(expr.func, ast.Attribute):
            out |= _paths(expr.func.value, defs, f, depth + 1, seen)
        return out
    for c in ast.iter_child_nodes(expr):
        if isinstance(c, ast.expr):
            out |= _paths(c, defs, f, depth + 1, seen)
    return out


def _covers(kpaths, p):
    """An input path p of the value is covered when the key uses it, a prefix of it (the whole object) or an extension."""
    if p == "self":
        return True
    for k in kpaths:
        if p == k or p.startswith(k + ".") or p.startswith(k + "["):
            return True
        if k.startswith(p + ".") or k.startswith(p + "["):
            return True      # the key is derived from the stored object itself (index of objects by one of their attributes)
    return False


def check(ctx, clause):
    obs, n = [], 0
    for f in ctx.p.funcs.values():
        stores = []
        tests = []
        for x in walk_own(f.node):
            if isinstance(x, ast.Assign) and len(x.targets) == 1 and isinstance(x.targets[0], ast.Subscript) \
                    and not isinstance(x.targets[0].value, ast.Subscript):
                stores.append((x.targets[0].value, x.targets[0].slice, x.value, x))
            if isinstance(x, ast.Compare) and len(x.ops) == 1 and isinstance(x.ops[0], (ast.In, ast.NotIn)):
                tests.append((x.comparators[0], x.left))
            if isinstance(x, ast.Call) and isinstance(x.func, ast.Attribute) and x.func.attr == "get" and x.args:
                tests.append((x.func.value, x.args[0]))
        if not stores or not tests:
            continue
        defs = {}
        for x in walk_own(f.node):
            if isinstance(x, ast.Assign):
                for t in x.targets:
                    if isinstance(t, ast.Name):
                        defs.setdefault(t.id, []).append(x.value)
            elif isinstance(x, ast.For) and isinstance(x.target, ast.Name):
                defs.setdefault(x.target.id, [])      # loop variable: an input of its own
        for d, k, v, st in stores:
            if not any(norm(d) == norm(td) and norm(k) == norm(tk) for td, tk in tests):
                continue
            if isinstance(v, (ast.Constant, ast.List, ast.Dict, ast.Set, ast.Tuple)) and not any(
                    isinstance(y, ast.Name) and (y.id in f.params or y.id in defs) for y in ast.walk(v)):
                continue         # absence initialisation with a constant
            n += 1
            kp = _paths(k, defs, f)
            vp = _paths(v, defs, f)
            missing = sorted(p for p in vp if not _covers(kp, p))
            key = "R-MEMO|key-completeness|%s|%s[%s]" % (f.short, f.key(d), f.key(k)[:30])
            obs.append(Ob(clause, "R-MEMO", key, f.loc(st), not missing,
                          "memo %s[%s]: every input of the stored value is part of the key" % (norm(d), norm(k)[:30]) if not missing else
                          "memo %s[%s] in %s stores a value computed from %s, which the key does not contain: the first "
                          "computation wins for every later input that shares the key" % (norm(d), norm(k)[:30], f.short, ", ".join(missing)),
                          note=not ctx.reachable(f)))
    o2, n2 = lazy_slots(ctx, clause)
    o3, n3 = field_memos(ctx, clause)
    return obs + o2 + o3, n + n2 + n3


def _none_test(test):
    """self.X when the test is `self.X is None` / `self.X == None` / `not self.X`."""
    if isinstance(test, ast.Compare) and len(test.ops) == 1 and isinstance(test.ops[0], (ast.Is, ast.Eq)) \
            and isinstance(test.comparators[0], ast.Constant) and test.comparators[0].value is None and is_self_attr(test.left):
        return test.left.attr
    if isinstance(test, ast.UnaryOp) and isinstance(test.op, ast.Not) and is_self_attr(test.operand):
        return test.operand.attr
    return None


def lazy_slots(ctx, clause):
    """Single-slot lazy memo: `if self.X is None: self.X = V`.  The slot has no key, so V must not depend on a parameter of
    the function: the first caller's argument would be baked in for every later caller."""
    obs, n = [], 0
    for f in ctx.p.funcs.values():
        if f.cls is None or f.name == "__init__":
            continue
        prms = [x for x in list(f.bound_params) + list(f.kwonly)]
        if not prms:
            continue
        defs = {}
        for x in walk_own(f.node):
            if isinstance(x, ast.Assign):
                for t in x.targets:
                    if isinstance(t, ast.Name):
                        defs.setdefault(t.id, []).append(x.value)
        for x in walk_own(f.node):
            if not isinstance(x, ast.If):
                continue
            slot = _none_test(x.test)
            if slot is None:
                continue
            for st in x.body:
                if isinstance(st, ast.Assign) and any(is_self_attr(t, slot) for t in st.targets):
                    n += 1
                    vp = sorted(p for p in _paths(st.value, defs, f) if p.split(".")[0].split("[")[0] in prms)
                    key = "R-MEMO|lazy-slot|%s|self.%s" % (f.short, slot)
                    obs.append(Ob(clause, "R-MEMO", key, f.loc(st), not vp,
                                  "lazy slot self.%s in %s is filled from the object's own state only" % (slot, f.short) if not vp else
                                  "lazy slot self.%s in %s is filled once from the argument(s) %s and returned to every later caller "
                                  "whatever they pass: the first call decides for all" % (slot, f.short, ", ".join(vp)),
                                  note=not ctx.reachable(f)))
    return obs, n


def _class_family(f, t):
    return t.cls is not None and f.cls is not None and (t.cls in f.cls.mro() or f.cls in t.cls.mro())


def _fields_read(ctx, f, exprs, depth=4):
    """self fields read by the expressions, following calls to methods of the same object."""
    r = ctx.r
    out, seen, todo = set(), set(), []
    for e in exprs:
        for n in ast.walk(e):
            if is_self_attr(n) and isinstance(n.ctx, ast.Load):
                out.add(n.attr)
            if isinstance(n, ast.Call):
                cs = r.site_of.get(id(n))
                if cs:
                    todo.extend((t, 1) for t in cs.targets if _class_family(f, t))
    while todo:
        t, d = todo.pop()
        if t.qual in seen or d > depth:
            continue
        seen.add(t.qual)
        for n in walk_own(t.node):
            if is_self_attr(n) and isinstance(n.ctx, ast.Load):
                out.add(n.attr)
            if isinstance(n, ast.Call):
                cs = r.site_of.get(id(n))
                if cs:
                    todo.extend((tt, d + 1) for tt in cs.targets if _class_family(f, tt))
    return out


def field_memos(ctx, clause):
    """A memo kept in a field of the object (`self.M[k] = V` next to a presence test on self.M) caches values computed
    from other fields of the same object.  Every method that changes one of those fields afterwards must invalidate the
    memo, otherwise entries computed under the old state keep being served."""
    obs, n = [], 0
    for f in ctx.p.funcs.values():
        if f.cls is None or not ctx.reachable(f):
            continue
        stores, tests = [], set()
        for x in walk_own(f.node):
            if isinstance(x, ast.Assign) and len(x.targets) == 1 and isinstance(x.targets[0], ast.Subscript) and is_self_attr(x.targets[0].value):
                stores.append((x.targets[0].value.attr, x.targets[0].slice, x.value, x))
            if isinstance(x, ast.Compare) and len(x.ops) == 1 and isinstance(x.ops[0], (ast.In, ast.NotIn)) and is_self_attr(x.comparators[0]):
                tests.add(x.comparators[0].attr)
            if isinstance(x, ast.Call) and isinstance(x.func, ast.Attribute) and x.func.attr == "get" and is_self_attr(x.func.value):
                tests.add(x.func.value.attr)
        for M, k, v, st in stores:
            if M not in tests:
                continue
            defs = {}
            for x in walk_own(f.node):
                if isinstance(x, ast.Assign):
                    for t in x.targets:
                        if isinstance(t, ast.Name):
                            defs.setdefault(t.id, []).append(x.value)
            exprs = [v]
            if isinstance(v, ast.Name):
                exprs = defs.get(v.id, [])
            reads = _fields_read(ctx, f, exprs) - {M}
            if not reads:
                continue
            n += 1
            fam = [c for c in ctx.p.classes.values() if c in f.cls.mro() or f.cls in c.mro()]
            bad = []
            for c in fam:
                for w in c.methods.values():
                    if w.name == "__init__" or w is f or not ctx.reachable(w):
                        continue
                    wrote = set()
                    for y in walk_own(w.node):
                        if isinstance(y, (ast.Assign, ast.AugAssign)):
                            for t in (y.targets if isinstance(y, ast.Assign) else [y.target]):
                                if is_self_attr(t) and t.attr in reads:
                                    wrote.add(t.attr)
                                if isinstance(t, ast.Subscript) and is_self_attr(t.value) and t.value.attr in reads:
                                    wrote.add(t.value.attr)
                    if not wrote:
                        continue
                    resets = any(
                        (isinstance(y, ast.Assign) and any(is_self_attr(t, M) for t in y.targets)) or
                        (isinstance(y, ast.Call) and isinstance(y.func, ast.Attribute) and y.func.attr in ("clear", "pop") and is_self_attr(y.func.value, M))
                        for y in walk_own(w.node))
                    if not resets:
                        bad.append((w, sorted(wrote)))
            key = "R-MEMO|field-memo|%s|self.%s" % (f.short, M)
            obs.append(Ob(clause, "R-MEMO", key, f.loc(st), not bad,
                          "memo self.%s in %s: every method that changes the state its values are computed from (%s) also resets it" % (
                              M, f.short, ", ".join(sorted(reads))[:80]) if not bad else
                          "memo self.%s in %s caches values computed from self.%s, which %s changes without invalidating the memo: "
                          "entries computed under the old state keep being served" % (M, f.short, bad[0][1][0], bad[0][0].short)))
    return obs, n
