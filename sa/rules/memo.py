"""R-MEMO (generic): completeness of memo keys.

A dictionary is used as a memo inside a function when the same key expression K occurs in a
presence test (`K in d`, `K not in d`, `d.get(K)`) and in a store `d[K] = V`.  Every input the stored
value V is computed from (parameters, loop variables and their access paths, expanded through local
assignments) must also be an input of K; otherwise two different computations share one entry and the
first one wins - an order / history dependence."""
import ast
from ..core import walk_own, norm, is_self_attr
from ..report import Ob


def _paths(expr, defs, f, depth=0, seen=None):
    """Access-path inputs of an expression: 'param', 'param[IDX]', 'param.attr', 'call(param...)'."""
    seen = seen or set()
    out = set()
    if expr is None or depth > 6:
        return out
    if isinstance(expr, ast.Name):
        if expr.id in defs and expr.id not in seen:
            for d in defs[expr.id]:
                out |= _paths(d, defs, f, depth + 1, seen | {expr.id})
            return out
        if expr.id in f.params or expr.id in f.kwonly or expr.id in defs:
            return {expr.id}
        return out
    if isinstance(expr, (ast.Attribute, ast.Subscript)):
        base = expr
        while isinstance(base, (ast.Attribute, ast.Subscript)):
            base = base.value
        if isinstance(base, ast.Name) and base.id == "self":
            return out           # state of the object, not an input of this call
        if isinstance(base, ast.Name) and base.id not in defs and (base.id in f.params or base.id in f.kwonly):
            out.add(norm(expr))
            if isinstance(expr, ast.Subscript):
                out |= {p for p in _paths(expr.slice, defs, f, depth + 1, seen) if p not in f.params}
            return out
        if isinstance(base, ast.Name) and base.id in defs and base.id not in seen:
            # expand the local the path starts from, keep the suffix as a refinement
            for d in defs[base.id]:
                out |= _paths(d, defs, f, depth + 1, seen | {base.id})
            return out
    if isinstance(expr, ast.Call) and isinstance(expr.func, ast.Name) and expr.func.id in ("str", "len", "int", "float", "repr", "bool") \
            and len(expr.args) == 1:
        inner = _paths(expr.args[0], defs, f, depth + 1, seen)
        # a conversion of a value is an input of its own: str(x) says nothing about x.other_attribute
        return {"%s(%s)" % (expr.func.id, p) for p in inner}
    if isinstance(expr, ast.Call):
        for a in list(expr.args) + [k.value for k in expr.keywords]:
            out |= _paths(a, defs, f, depth + 1, seen)
        if isinstance(expr.func, ast.Attribute):
            out |= _paths(expr.func.value, defs, f, depth + 1, seen)
        return out
    for c in ast.iter_child_nodes(expr):
        if isinstance(c, ast.expr):
            out |= _paths(c, defs, f, depth + 1, seen)
    return out


def _covers(kpaths, p):
    """An input path p of the value is covered when the key uses it, a prefix of it (the whole object) or an extension."""
    if p == "self":
        return True
    for k in kpaths:
        if p == k or p.startswith(k + ".") or p.startswith(k + "["):
            return True
        if k.startswith(p + ".") or k.startswith(p + "["):
            return True      # the key is derived from the stored object itself (index of objects by one of their attributes)
    return False


def check(ctx, clause):
    obs, n = [], 0
    for f in ctx.p.funcs.values():
        stores = []
        tests = []
        for x in walk_own(f.node):
            if isinstance(x, ast.Assign) and len(x.targets) == 1 and isinstance(x.targets[0], ast.Subscript) \
                    and not isinstance(x.targets[0].value, ast.Subscript):
                stores.append((x.targets[0].value, x.targets[0].slice, x.value, x))
            if isinstance(x, ast.Compare) and len(x.ops) == 1 and isinstance(x.ops[0], (ast.In, ast.NotIn)):
                tests.append((x.comparators[0], x.left))
            if isinstance(x, ast.Call) and isinstance(x.func, ast.Attribute) and x.func.attr == "get" and x.args:
                tests.append((x.func.value, x.args[0]))
        if not stores or not tests:
            continue
        defs = {}
        for x in walk_own(f.node):
            if isinstance(x, ast.Assign):
                for t in x.targets:
                    if isinstance(t, ast.Name):
                        defs.setdefault(t.id, []).append(x.value)
            elif isinstance(x, ast.For) and isinstance(x.target, ast.Name):
                defs.setdefault(x.target.id, [])      # loop variable: an input of its own
        for d, k, v, st in stores:
            if not any(norm(d) == norm(td) and norm(k) == norm(tk) for td, tk in tests):
                continue
            if isinstance(v, (ast.Constant, ast.List, ast.Dict, ast.Set, ast.Tuple)) and not any(
                    isinstance(y, ast.Name) and (y.id in f.params or y.id in defs) for y in ast.walk(v)):
                continue         # absence initialisation with a constant
            n += 1
            kp = _paths(k, defs, f)
            vp = _paths(v, defs, f)
            missing = sorted(p for p in vp if not _covers(kp, p))
            key = "R-MEMO|key-completeness|%s|%s[%s]" % (f.short, f.key(d), f.key(k)[:30])
            obs.append(Ob(clause, "R-MEMO", key, f.loc(st), not missing,
                          "memo %s[%s]: every input of the stored value is part of the key" % (norm(d), norm(k)[:30]) if not missing else
                          "memo %s[%s] in %s stores a value computed from %s, which the key does not contain: the first "
                          "computation wins for every later input that shares the key" % (norm(d), norm(k)[:30], f.short, ", ".join(missing)),
                          note=not ctx.reachable(f)))
    o2, n2 = lazy_slots(ctx, clause)
    return obs + o2, n + n2


def _none_test(test):
    """self.X when the test is `self.X is None` / `self.X == None` / `not self.X`."""
    if isinstance(test, ast.Compare) and len(test.ops) == 1 and isinstance(test.ops[0], (ast.Is, ast.Eq)) \
            and isinstance(test.comparators[0], ast.Constant) and test.comparators[0].value is None and is_self_attr(test.left):
        return test.left.attr
    if isinstance(test, ast.UnaryOp) and isinstance(test.op, ast.Not) and is_self_attr(test.operand):
        return test.operand.attr
    return None


def lazy_slots(ctx, clause):
    """Single-slot lazy memo: `if self.X is None: self.X = V`.  The slot has no key, so V must not depend on a parameter of
    the function: the first caller's argument would be baked in for every later caller."""
    obs, n = [], 0
    for f in ctx.p.funcs.values():
        if f.cls is None or f.name == "__init__":
            continue
        prms = [x for x in list(f.bound_params) + list(f.kwonly)]
        if not prms:
            continue
        defs = {}
        for x in walk_own(f.node):
            if isinstance(x, ast.Assign):
                for t in x.targets:
                    if isinstance(t, ast.Name):
                        defs.setdefault(t.id, []).append(x.value)
        for x in walk_own(f.node):
            if not isinstance(x, ast.If):
                continue
            slot = _none_test(x.test)
            if slot is None:
                continue
            for st in x.body:
                if isinstance(st, ast.Assign) and any(is_self_attr(t, slot) for t in st.targets):
                    n += 1
                    vp = sorted(p for p in _paths(st.value, defs, f) if p.split(".")[0].split("[")[0] in prms)
                    key = "R-MEMO|lazy-slot|%s|self.%s" % (f.short, slot)
                    obs.append(Ob(clause, "R-MEMO", key, f.loc(st), not vp,
                                  "lazy slot self.%s in %s is filled from the object's own state only" % (slot, f.short) if not vp else
                                  "lazy slot self.%s in %s is filled once from the argument(s) %s and returned to every later caller "
                                  "whatever they pass: the first call decides for all" % (slot, f.short, ", ".join(vp)),
                                  note=not ctx.reachable(f)))
    return obs, n
