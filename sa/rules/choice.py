"""R-TS (statement kind typestate): FixedPropChoiceStatement.st_type raises TypeError.

Choice statements come into existence when MergeableConstraints.merge_group returns
(disable_or_statements=False).  Every read of `.st_type` in a function reachable from the
post-merge stages (tuning, empty-shape removal, the serialisers) must therefore be unable to
see a choice statement.  The only accepted discharge is serializer dispatch: the read sits in
a BaseStatementSerializer method that FixedPropChoiceStatementSerializer overrides, and the
single construction site of choice statements binds get_choice_serializer()."""
import ast
from ..core import walk_own, norm, AnalysisError
from ..report import Ob

POST_MERGE_ROOTS = [
    "shexer.core.shexing.strategy.abstract_shexing_strategy:AbstractShexingStrategy._tune_list_of_valid_statements",
    "shexer.core.shexing.class_shexer:ClassShexer._clean_empty_shapes",
    "shexer.io.shex.formater.shex_serializer:ShexSerializer.serialize_shapes",
    "shexer.io.shacl.formater.shacl_serializer:ShaclSerializer.serialize_shapes",
    "shexer.io.uml.uml_serializer:UMLSerializer.serialize_shapes",
]


def check(ctx, clause):
    p, r = ctx.p, ctx.r
    choice = p.find_class("FixedPropChoiceStatement")
    getter = choice.methods.get("st_type")
    raises = getter is not None and any(isinstance(n, ast.Raise) for n in walk_own(getter.node))
    obs, n = [], 0
    if not raises:
        return [Ob(clause, "R-TS", "R-TS|choice|st_type-does-not-raise", choice.module.relpath + ":1", True,
                   "FixedPropChoiceStatement.st_type no longer raises: nothing to protect")], 1
    for q in POST_MERGE_ROOTS:
        if q not in p.funcs:
            raise AnalysisError("post-merge stage anchor vanished: " + q)
    reach = r.reach_from(POST_MERGE_ROOTS)
    base_ser = p.find_class("BaseStatementSerializer")
    choice_ser = p.find_class("FixedPropChoiceStatementSerializer")
    # construction sites of choice statements must bind the choice serializer
    ctor_ok, ctor_sites = True, 0
    for cs in r.callsites:
        if cs.kind == "ctor" and cs.recv_types is choice:
            ctor_sites += 1
            kw = {k.arg: k.value for k in cs.node.keywords}
            so = kw.get("serializer_object")
            good = isinstance(so, ast.Call) and isinstance(so.func, ast.Attribute) and so.func.attr == "get_choice_serializer"
            ctor_ok = ctor_ok and good
            obs.append(Ob(clause, "R-TS", "R-TS|choice-ctor|%s" % cs.func.short, cs.func.loc(cs.node), good,
                          "choice statement is constructed with get_choice_serializer()" if good else
                          "choice statement constructed without the choice serializer: base serializer methods would read st_type"))
    gcs = p.method("StSerializerFactory", "get_choice_serializer")
    rt = r.return_types(gcs)
    only_choice = bool(rt) and all(t == ("inst", choice_ser.qual) for t in rt)
    obs.append(Ob(clause, "R-TS", "R-TS|get_choice_serializer-returns", gcs.loc(), only_choice,
                  "get_choice_serializer returns only FixedPropChoiceStatementSerializer instances" if only_choice
                  else "get_choice_serializer may return %s" % sorted(rt)))
    for q in sorted(reach):
        f = p.funcs[q]
        if f.cls is choice:
            continue
        for x in walk_own(f.node):
            if isinstance(x, ast.Attribute) and x.attr == "st_type" and isinstance(x.ctx, ast.Load):
                ts = r.type_of(x.value, f)
                if ts and all(t[0] == "inst" and not (p.classes[t[1]] is choice or choice in p.classes[t[1]].all_subclasses())
                              for t in ts):
                    continue     # typed receiver that cannot be a choice statement
                n += 1
                key = "R-TS|choice-read|%s|%s" % (f.short, f.key(x))
                if any(o.key == key for o in obs):
                    continue
                dispatch = f.cls is not None and base_ser in f.cls.mro() and f.cls is not choice_ser \
                    and f.name in choice_ser.methods and ctor_ok and only_choice
                if not dispatch and isinstance(x.value, ast.Name) and x in _guarded_reads(f, x.value.id, choice.name):
                    obs.append(Ob(clause, "R-TS", key, f.loc(x), True,
                                  "read of .st_type is dominated by a type test excluding FixedPropChoiceStatement"))
                    continue
                obs.append(Ob(clause, "R-TS", key, f.loc(x), dispatch,
                              ("read of .st_type in %s is never reached with a choice statement: choice statements carry "
                               "FixedPropChoiceStatementSerializer, which overrides %s" % (f.short, f.name)) if dispatch else
                              "%s reads `%s` in a post-merge stage: with disable_or_statements=False the statement can be a "
                              "FixedPropChoiceStatement, whose st_type raises TypeError" % (f.short, f.key(x)),
                              note=not ctx.reachable(f)))
    return obs, n + ctor_sites


def _is_choice_test(test, name, clsname):
    """+1: test true means `name` IS a choice statement; -1: true means it is NOT; 0: unrelated."""
    if isinstance(test, ast.UnaryOp) and isinstance(test.op, ast.Not):
        return -_is_choice_test(test.operand, name, clsname)
    if isinstance(test, ast.Compare) and len(test.ops) == 1 and isinstance(test.left, ast.Call) \
            and isinstance(test.left.func, ast.Name) and test.left.func.id == "type" and test.left.args \
            and isinstance(test.left.args[0], ast.Name) and test.left.args[0].id == name \
            and isinstance(test.comparators[0], ast.Name) and test.comparators[0].id == clsname:
        if isinstance(test.ops[0], (ast.Eq, ast.Is)):
            return 1
        if isinstance(test.ops[0], (ast.NotEq, ast.IsNot)):
            return -1
    if isinstance(test, ast.Call) and isinstance(test.func, ast.Name) and test.func.id == "isinstance" and len(test.args) == 2 \
            and isinstance(test.args[0], ast.Name) and test.args[0].id == name \
            and isinstance(test.args[1], ast.Name) and test.args[1].id == clsname:
        return 1
    return 0


def _guarded_reads(f, name, clsname):
    """Attribute nodes `name.st_type` that only execute when `name` is known not to be a choice statement."""
    from .raises import terminates
    out = set()

    def collect(stmts):
        for st in stmts:
            for n in ast.walk(st):
                if isinstance(n, ast.Attribute) and n.attr == "st_type" and isinstance(n.value, ast.Name) and n.value.id == name:
                    out.add(n)

    def walk(stmts, safe):
        for i, st in enumerate(stmts):
            if isinstance(st, ast.If):
                k = _is_choice_test(st.test, name, clsname)
                if k == 1:
                    walk(st.body, False)
                    walk(st.orelse, True)
                    if terminates(st.body):
                        collect(stmts[i + 1:])
                        return
                elif k == -1:
                    collect(st.body)
                    walk(st.orelse, False)
                else:
                    walk(st.body, safe)
                    walk(st.orelse, safe)
            elif safe:
                collect([st])
            elif isinstance(st, (ast.For, ast.While, ast.With, ast.Try)):
                for blk in ("body", "orelse", "finalbody"):
                    walk(getattr(st, blk, []) or [], safe)
    walk(f.node.body, False)
    return out
