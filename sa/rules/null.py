"""R-NULL: every dereference of an optional slot is dominated by a non-None fact.

A slot is `self.f` of a class in whose hierarchy some assignment gives f the value
None (or `X if c else None`), or a local variable explicitly assigned None.
The walk is syntax-directed and carries a set of *must* facts (intersection at
joins, loop bodies analysed against the loop-head intersection)."""
import ast
from ..core import walk_own, norm, is_self_attr
from ..report import Ob


def path_of(e):
    if isinstance(e, ast.Name):
        return e.id
    if is_self_attr(e):
        return "self." + e.attr
    return None


def _none_const(e):
    return isinstance(e, ast.Constant) and e.value is None


def _may_be_none_syntactic(e):
    if _none_const(e):
        return True
    if isinstance(e, ast.IfExp):
        return _may_be_none_syntactic(e.body) or _may_be_none_syntactic(e.orelse)
    return False


class ClassNull:
    def __init__(self, ctx, cls):
        self.ctx, self.cls = ctx, cls
        self.r = ctx.r
        self.hier = cls.mro()
        self.optional = set()
        self.corr = {}          # flag path -> set(slot paths) non-None when flag truthy
        for c in self.hier:
            for field, assigns in self.r.field_assigns.get(c.qual, {}).items():
                for f, expr in assigns:
                    if not isinstance(expr, tuple) and _may_be_none_syntactic(expr):
                        self.optional.add("self." + field)
        self._find_correlations()
        self.methods = {}
        for c in reversed(self.hier):
            for m in list(c.methods.values()) + list(c.setters.values()):
                if not m.is_static:
                    self.methods[m.name if not m.is_setter else m.name + ".setter"] = m
        self.props_nonnull = {}   # property name -> slot path it proves non-None when truthy
        for name, m in self.methods.items():
            if m.is_property:
                body = [s for s in m.node.body if not (isinstance(s, ast.Expr) and isinstance(s.value, ast.Constant))]
                if len(body) == 1 and isinstance(body[0], ast.Return) and isinstance(body[0].value, ast.Compare):
                    cmp = body[0].value
                    if len(cmp.ops) == 1 and isinstance(cmp.ops[0], ast.IsNot) and _none_const(cmp.comparators[0]):
                        p = path_of(cmp.left)
                        if p:
                            self.props_nonnull["self." + name] = p
        self.entry = {}
        self.sites = []          # (func, node, path, ok)
        self._summ_cache = {}

    def _find_correlations(self):
        for c in self.hier:
            init = c.methods.get("__init__")
            if init is None:
                continue
            flags, slots = {}, {}
            for n in walk_own(init.node):
                if isinstance(n, ast.Assign) and len(n.targets) == 1 and is_self_attr(n.targets[0]):
                    t = "self." + n.targets[0].attr
                    if isinstance(n.value, ast.Name):
                        flags.setdefault(n.value.id, []).append(t)
                    elif isinstance(n.value, ast.IfExp) and isinstance(n.value.test, ast.Name) \
                            and _none_const(n.value.orelse) and not _may_be_none_syntactic(n.value.body):
                        slots.setdefault(n.value.test.id, []).append(t)
            # the statement form of the same: if flag: self.a = <value> ... else: self.a = None ...
            for n in walk_own(init.node):
                if isinstance(n, ast.If) and n.orelse:
                    test, on_true, on_false = n.test, n.body, n.orelse
                    if isinstance(test, ast.UnaryOp) and isinstance(test.op, ast.Not):
                        test, on_true, on_false = test.operand, n.orelse, n.body
                    if not isinstance(test, ast.Name):
                        continue
                    def assigned(block):
                        out = {}
                        for st in block:
                            if isinstance(st, ast.Assign) and len(st.targets) == 1 and is_self_attr(st.targets[0]):
                                out["self." + st.targets[0].attr] = st.value
                        return out
                    a_t, a_f = assigned(on_true), assigned(on_false)
                    for t, v in a_t.items():
                        if t in a_f and _none_const(a_f[t]) and not _may_be_none_syntactic(v):
                            slots.setdefault(test.id, []).append(t)
            for cond, fl in flags.items():
                if cond in slots:
                    for flag in fl:
                        # the flag must not be reassigned elsewhere
                        assigns = [a for k in self.hier for a in self.r.field_assigns.get(k.qual, {}).get(flag[5:], [])]
                        if len(assigns) == 1:
                            self.corr.setdefault(flag, set()).update(slots[cond])

    # ------------------------------------------------------------------ facts
    def cond(self, test, truth):
        """Facts learned when `test` evaluates to `truth`."""
        out = set()
        if isinstance(test, ast.UnaryOp) and isinstance(test.op, ast.Not):
            return self.cond(test.operand, not truth)
        if isinstance(test, ast.BoolOp):
            if (isinstance(test.op, ast.And) and truth) or (isinstance(test.op, ast.Or) and not truth):
                for v in test.values:
                    out |= self.cond(v, truth)
            return out
        if isinstance(test, ast.Compare) and len(test.ops) == 1:
            op, l, rgt = test.ops[0], test.left, test.comparators[0]
            if _none_const(rgt) and path_of(l):
                if (isinstance(op, (ast.IsNot, ast.NotEq)) and truth) or (isinstance(op, (ast.Is, ast.Eq)) and not truth):
                    out.add(path_of(l))
            return out
        p = path_of(test)
        if p is not None:
            if truth:
                out.add(p)
                out.add("T:" + p)
                out |= self.corr.get(p, set())
                if p in self.props_nonnull:
                    out.add(self.props_nonnull[p])
            else:
                out.add("F:" + p)
            return out
        if isinstance(test, ast.Call) and isinstance(test.func, ast.Name) and test.func.id == "isinstance" and truth \
                and test.args and path_of(test.args[0]):
            out.add(path_of(test.args[0]))
        return out

    def nonnull(self, e, facts, f, local_opt):
        if isinstance(e, ast.Constant):
            return e.value is not None
        if isinstance(e, (ast.List, ast.Dict, ast.Set, ast.Tuple, ast.ListComp, ast.DictComp, ast.SetComp,
                          ast.JoinedStr, ast.BinOp, ast.Compare, ast.Lambda)):
            return True
        if isinstance(e, ast.IfExp):
            return self.nonnull(e.body, facts | self.cond(e.test, True), f, local_opt) and \
                self.nonnull(e.orelse, facts | self.cond(e.test, False), f, local_opt)
        if isinstance(e, ast.BoolOp) and isinstance(e.op, ast.Or):
            return self.nonnull(e.values[-1], facts, f, local_opt)
        p = path_of(e)
        if p is not None:
            if p in self.optional or p in local_opt:
                return p in facts
            return True
        ts = self.r.type_of(e, f, self.cls)
        return bool(ts) and ("none",) not in ts and ("unknown",) not in ts

    # ------------------------------------------------------------ summaries
    def summary(self, m, stack=()):
        """(may_null, must_set): fields possibly set to None / facts definitely holding at exit."""
        if m.qual in self._summ_cache:
            return self._summ_cache[m.qual]
        if m.qual in stack:
            return set(), set()
        may = set()
        for n in walk_own(m.node):
            if isinstance(n, ast.Assign):
                for t in n.targets:
                    if is_self_attr(t) and "self." + t.attr in self.optional and not self._rhs_nonnull_static(n.value, m):
                        may.add("self." + t.attr)
            elif isinstance(n, ast.Call) and isinstance(n.func, ast.Attribute) and isinstance(n.func.value, ast.Name) \
                    and n.func.value.id == "self" and n.func.attr in self.methods:
                may |= self.summary(self.methods[n.func.attr], stack + (m.qual,))[0]
        w = Walker(self, m, record=False, stack=stack + (m.qual,))
        exitf = w.run(set())
        must = {x for x in (exitf or set()) if x in self.optional}
        self._summ_cache[m.qual] = (may, must)
        return may, must

    def _rhs_nonnull_static(self, e, m):
        return self.nonnull(e, set(), m, set())

    # ------------------------------------------------------------------- run
    def analyse(self):
        if not self.optional:
            return []
        TOP = None
        names = list(self.methods)
        intra_callers = {n: [] for n in names}
        for n, m in self.methods.items():
            for x in walk_own(m.node):
                if isinstance(x, ast.Call) and isinstance(x.func, ast.Attribute) and isinstance(x.func.value, ast.Name) \
                        and x.func.value.id == "self" and x.func.attr in self.methods:
                    intra_callers[x.func.attr].append(n)
        ext_called = set()
        for n, m in self.methods.items():
            for cs in self.r.callers_of.get(m.qual, []):
                if cs.func.cls is None or cs.func.cls not in self.hier and self.cls not in cs.func.cls.mro():
                    ext_called.add(n)
                elif not (isinstance(cs.node.func, ast.Attribute) and isinstance(cs.node.func.value, ast.Name)
                          and cs.node.func.value.id == "self"):
                    ext_called.add(n)
        self.entry = {}
        cand = set()
        for n, m in self.methods.items():
            private = n.startswith("_") and not n.startswith("__")
            if private and intra_callers[n] and n not in ext_called and not m.is_property:
                self.entry[n] = TOP
                cand.add(n)
            else:
                self.entry[n] = set()
        for _ in range(12):
            at_sites = {}
            for n, m in self.methods.items():
                if self.entry[n] is TOP:
                    continue
                w = Walker(self, m, record=False)
                w.run(set(self.entry[n]))
                for callee, facts in w.call_facts:
                    at_sites.setdefault(callee, []).append(facts)
            changed = False
            for n in cand:
                callers = set(intra_callers[n]) - {n}
                if any(self.entry[c] is TOP for c in callers):
                    continue
                new = set.intersection(*[set(x) for x in at_sites[n]]) if at_sites.get(n) else set()
                if self.entry[n] is TOP or new != self.entry[n]:
                    self.entry[n] = new
                    changed = True
            if not changed:
                rest = [n for n in cand if self.entry[n] is TOP]
                if not rest:
                    break
                for n in rest:          # mutually recursive private methods: no entry facts
                    self.entry[n] = set()
        obs = []
        for n, m in self.methods.items():
            if m.cls is not self.cls:
                continue     # inherited methods are reported by the class that defines them
            e = self.entry[n]
            w = Walker(self, m, record=True)
            w.run(set(e) if e else set())
            obs.extend(w.obs)
        return obs


class Walker:
    def __init__(self, cn, func, record, stack=()):
        self.cn, self.f, self.record, self.stack = cn, func, record, stack
        self.obs = []
        self.call_facts = []
        self.local_opt = set()
        for n in walk_own(func.node):
            if isinstance(n, ast.Assign) and _none_const(n.value):
                for t in n.targets:
                    if isinstance(t, ast.Name):
                        self.local_opt.add(t.id)
        self.exit_facts = []

    def run(self, entry):
        out = self.block(self.f.node.body, set(entry))
        if out is not None:
            self.exit_facts.append(out)
        if not self.exit_facts:
            return None
        return set.intersection(*[set(x) for x in self.exit_facts])

    def is_opt(self, p):
        return p in self.cn.optional or p in self.local_opt

    def deref(self, node, target, facts, how):
        p = path_of(target)
        if p is None or not self.is_opt(p):
            return
        ok = p in facts
        if self.record:
            f = self.f
            key = "R-NULL|%s|%s|%s" % (f.short, "<local>" if p in f.local_names else p, f.key(node)[:70])
            self.obs.append(Ob("D-a", "R-NULL", key, f.loc(node), ok,
                               "%s of optional slot %s %s" % (how, p, "is dominated by a non-None fact" if ok else
                                                            "is not dominated by any non-None test or assignment"),
                               note=not self.cn.ctx.reachable(f)))

    # ------------------------------------------------------------ expressions
    def expr(self, e, facts):
        if e is None:
            return
        if isinstance(e, ast.BoolOp):
            cur = set(facts)
            for v in e.values:
                self.expr(v, cur)
                cur |= self.cn.cond(v, isinstance(e.op, ast.And))
            return
        if isinstance(e, ast.IfExp):
            self.expr(e.test, facts)
            self.expr(e.body, facts | self.cn.cond(e.test, True))
            self.expr(e.orelse, facts | self.cn.cond(e.test, False))
            return
        if isinstance(e, ast.Attribute):
            if not is_self_attr(e):
                self.deref(e, e.value, facts, "attribute access")
            self.expr(e.value, facts)
            return
        if isinstance(e, ast.Subscript):
            self.deref(e, e.value, facts, "subscript")
            self.expr(e.value, facts)
            self.expr(e.slice, facts)
            return
        if isinstance(e, ast.Call):
            if isinstance(e.func, ast.Name) and e.func.id in ("len", "iter", "list", "sorted", "tuple", "set") and e.args:
                self.deref(e, e.args[0], facts, e.func.id + "()")
            if path_of(e.func) and not (isinstance(e.func, ast.Name)):
                self.deref(e, e.func, facts, "call")
            if isinstance(e.func, ast.Attribute) and isinstance(e.func.value, ast.Name) and e.func.value.id == "self" \
                    and e.func.attr in self.cn.methods:
                self.call_facts.append((e.func.attr, frozenset(facts)))
            self.expr(e.func, facts)
            for a in e.args:
                self.expr(a.value if isinstance(a, ast.Starred) else a, facts)
            for k in e.keywords:
                self.expr(k.value, facts)
            return
        if isinstance(e, ast.Compare):
            self.expr(e.left, facts)
            for op, c in zip(e.ops, e.comparators):
                if isinstance(op, (ast.In, ast.NotIn)):
                    self.deref(e, c, facts, "membership test")
                self.expr(c, facts)
            return
        if isinstance(e, ast.BinOp):
            if not isinstance(e.op, (ast.Mod,)):
                self.deref(e, e.left, facts, "arithmetic")
                self.deref(e, e.right, facts, "arithmetic")
            self.expr(e.left, facts)
            self.expr(e.right, facts)
            return
        if isinstance(e, (ast.ListComp, ast.SetComp, ast.GeneratorExp, ast.DictComp)):
            for g in e.generators:
                self.deref(e, g.iter, facts, "iteration")
                self.expr(g.iter, facts)
                for c in g.ifs:
                    self.expr(c, facts)
            if isinstance(e, ast.DictComp):
                self.expr(e.key, facts)
                self.expr(e.value, facts)
            else:
                self.expr(e.elt, facts)
            return
        if isinstance(e, ast.Lambda):
            return
        for c in ast.iter_child_nodes(e):
            if isinstance(c, ast.expr):
                self.expr(c, facts)

    # ------------------------------------------------------------- statements
    def after_self_call(self, stmt_value, facts):
        """Effect of self.m(...) calls inside an expression statement on the facts."""
        for n in ast.walk(stmt_value):
            if isinstance(n, ast.Call) and isinstance(n.func, ast.Attribute) and isinstance(n.func.value, ast.Name) \
                    and n.func.value.id == "self" and n.func.attr in self.cn.methods:
                m = self.cn.methods[n.func.attr]
                if m.qual in self.stack:
                    continue
                may, must = self.cn.summary(m, self.stack)
                facts -= may
                facts |= must
        return facts

    def assign(self, target, value, facts):
        p = path_of(target)
        if p is not None and self.is_opt(p):
            if self.cn.nonnull(value, facts, self.f, self.local_opt):
                facts.add(p)
            else:
                facts.discard(p)
        elif isinstance(target, (ast.Tuple, ast.List)):
            for t in target.elts:
                q = path_of(t)
                if q is not None and self.is_opt(q):
                    facts.add(q)    # unpacked values: trusted non-None (tuple results of package functions)
        elif isinstance(target, ast.Subscript):
            self.deref(target, target.value, facts, "subscript store")
            self.expr(target.value, facts)
            self.expr(target.slice, facts)
        elif isinstance(target, ast.Attribute) and not is_self_attr(target):
            self.deref(target, target.value, facts, "attribute store")
            self.expr(target.value, facts)

    def block(self, stmts, facts):
        for st in stmts:
            facts = self.stmt(st, facts)
            if facts is None:
                return None
        return facts

    def stmt(self, st, facts):
        if isinstance(st, ast.Assign):
            self.expr(st.value, facts)
            facts = self.after_self_call(st.value, facts)
            for t in st.targets:
                self.assign(t, st.value, facts)
            return facts
        if isinstance(st, ast.AugAssign):
            self.expr(st.value, facts)
            self.deref(st, st.target, facts, "augmented assignment")
            if isinstance(st.target, (ast.Subscript, ast.Attribute)):
                self.assign(st.target, st.value, facts)
            return facts
        if isinstance(st, ast.AnnAssign):
            if st.value is not None:
                self.expr(st.value, facts)
                self.assign(st.target, st.value, facts)
            return facts
        if isinstance(st, ast.Expr):
            self.expr(st.value, facts)
            return self.after_self_call(st.value, facts)
        if isinstance(st, ast.Return):
            self.expr(st.value, facts)
            if st.value is not None:
                facts = self.after_self_call(st.value, facts)
            self.exit_facts.append(set(facts))
            return None
        if isinstance(st, ast.Raise):
            self.expr(st.exc, facts)
            return None
        if isinstance(st, (ast.Continue, ast.Break)):
            return None
        if isinstance(st, ast.If):
            self.expr(st.test, facts)
            base = self.after_self_call(st.test, set(facts))
            a = self.block(st.body, base | self.cn.cond(st.test, True))
            b = self.block(st.orelse, base | self.cn.cond(st.test, False))
            if a is None:
                return b
            if b is None:
                return a
            return a & b
        if isinstance(st, ast.While):
            head = set(facts)
            for _ in range(2):
                self_rec, self.record = self.record, False
                body_out = self.block(st.body, head | self.cn.cond(st.test, True))
                self.record = self_rec
                if body_out is not None:
                    head &= body_out
            self.expr(st.test, head)
            self.block(st.body, head | self.cn.cond(st.test, True))
            return head | self.cn.cond(st.test, False)
        if isinstance(st, ast.For):
            self.expr(st.iter, facts)
            self.deref(st, st.iter, facts, "iteration")
            facts = self.after_self_call(st.iter, facts)
            head = set(facts)
            for _ in range(2):
                self_rec, self.record = self.record, False
                exits = len(self.exit_facts)
                body_out = self.block(st.body, set(head))
                del self.exit_facts[exits:]
                self.record = self_rec
                if body_out is not None:
                    head &= body_out
            self.block(st.body, set(head))
            out = self.block(st.orelse, set(head)) if st.orelse else set(head)
            return out if out is not None else set(head)
        if isinstance(st, ast.With):
            for it in st.items:
                self.expr(it.context_expr, facts)
            return self.block(st.body, facts)
        if isinstance(st, ast.Try):
            before = set(facts)
            a = self.block(st.body, set(facts))
            outs = [a] if a is not None else []
            for h in st.handlers:
                b = self.block(h.body, set(before))
                if b is not None:
                    outs.append(b)
            if not outs:
                return None
            res = set.intersection(*[set(x) for x in outs])
            if st.orelse:
                r2 = self.block(st.orelse, res)
                res = r2 if r2 is not None else res
            if st.finalbody:
                r3 = self.block(st.finalbody, res)
                res = r3 if r3 is not None else res
            return res
        if isinstance(st, (ast.Pass, ast.Global, ast.Nonlocal, ast.Import, ast.ImportFrom, ast.Delete, ast.Assert)):
            return facts
        return facts


def check(ctx):
    obs, classes = [], 0
    for c in ctx.p.classes.values():
        cn = ClassNull(ctx, c)
        if not cn.optional:
            continue
        own = {"self." + f for f in ctx.r.field_assigns.get(c.qual, {})} & cn.optional
        if not own and not c.methods:
            continue
        classes += 1
        # analyse each method once, in the class that defines it, with self bound to that class
        obs.extend(cn.analyse())
    # local optional variables in module-level functions
    for f in ctx.p.funcs.values():
        if f.cls is None:
            dummy = _FuncOnly(ctx)
            w = Walker(dummy, f, record=True)
            if w.local_opt:
                w.run(set())
                obs.extend(w.obs)
    # de-duplicate by key keeping the worst verdict
    best = {}
    for o in obs:
        if o.key not in best or (best[o.key].ok and not o.ok):
            best[o.key] = o
    return list(best.values()), classes


class _FuncOnly:
    """Minimal ClassNull stand-in for plain functions (only local optional variables)."""
    def __init__(self, ctx):
        self.ctx, self.r, self.cls = ctx, ctx.r, None
        self.optional, self.corr, self.methods, self.props_nonnull = set(), {}, {}, {}

    cond = ClassNull.cond
    nonnull = ClassNull.nonnull

    def summary(self, m, stack=()):
        return set(), set()


# ---------------------------------------------------------------------------------------------------------------------
# R-GIVEN: "not given" is None, never "empty".
#
# Every optional argument of Shaper.__init__ (default None) is an input the user either gave or did not give; an empty
# rdflib.Graph(), "" as raw graph or [] as list of files is *given*.  The package decides given-ness by `is None` /
# `is not None` everywhere except at the sites frozen below (each read and confirmed).  A plain copy of such an argument
# that is tested by truthiness at a new site treats the empty input as absent: the dispatch falls through to another
# source (and crashes on its None), or the one-source validation miscounts.
LEGACY_TRUTHINESS = {
    # argument of Shaper.__init__ whose copies are tested by truthiness somewhere today -> why that is harmless
    "examples_mode": "None or one of three non-empty string constants",
    "file_target_classes": "a path; the empty path cannot be opened either way",
    "url_graph_input": "a URL; the empty URL cannot be fetched either way",
}


def _truth_operands(e):
    if isinstance(e, ast.BoolOp):
        for v in e.values:
            yield from _truth_operands(v)
    elif isinstance(e, ast.UnaryOp) and isinstance(e.op, ast.Not):
        yield from _truth_operands(e.operand)
    else:
        yield e


def _truth_positions(fn):
    for x in walk_own(fn.node):
        if isinstance(x, (ast.If, ast.While, ast.IfExp, ast.Assert)):
            yield from _truth_operands(x.test)
        elif isinstance(x, ast.comprehension):
            for c in x.ifs:
                yield from _truth_operands(c)
        elif isinstance(x, ast.Call) and isinstance(x.func, ast.Name) and x.func.id in ("bool", "any", "all") and len(x.args) == 1:
            a = x.args[0]
            if x.func.id == "bool":
                yield from _truth_operands(a)
            elif isinstance(a, (ast.List, ast.Tuple)):      # any((a, b)) tests each element's truth
                for el in a.elts:
                    yield from _truth_operands(el)
            elif isinstance(a, (ast.GeneratorExp, ast.ListComp)):
                yield from _truth_operands(a.elt)


def given_is_not_none(ctx, clause):
    from ..core import AnalysisError
    p, g = ctx.p, ctx.flow
    init = p.func("shexer.shaper:Shaper.__init__")
    a = init.node.args
    defaults = dict(zip([x.arg for x in a.args[len(a.args) - len(a.defaults):]], a.defaults))
    optional = [n for n, d in defaults.items() if isinstance(d, ast.Constant) and d.value is None]
    if len(optional) < 12:
        raise AnalysisError("Shaper.__init__ has %d optional (None) arguments, expected at least 12" % len(optional))
    closures = {n: g.flows([g.var(init, n)], labels=("copy",)) for n in optional}
    obs, seen_legacy, n_sites = [], set(), 0
    for f in p.funcs.values():
        for e in _truth_positions(f):
            n_sites += 1
            if not isinstance(e, (ast.Name, ast.Attribute, ast.Subscript)):
                continue
            sources = {n for n, t in closures.items() if g.expr_tainted(e, t, deep=False)}
            if not sources:
                continue
            if sources <= set(LEGACY_TRUTHINESS):
                seen_legacy |= sources          # wherever the test sits (the dispatch may be reorganised), it is about these arguments
                continue
            obs.append(Ob(clause, "R-GIVEN", "R-GIVEN|truthiness|%s|%s" % (f.short, f.key(e)), f.loc(e), False,
                          "`%s` is a plain copy of the optional argument %s of Shaper.__init__ and is tested by truthiness: an input that "
                          "is given but empty (an empty rdflib Graph, \"\" as raw graph, an empty list) is treated as not given - "
                          "everywhere else given-ness is `is not None`" % (norm(e), "/".join(sorted(sources - set(LEGACY_TRUTHINESS))))))
    obs.append(Ob(clause, "R-GIVEN", "R-GIVEN|truthiness|all-sites", init.loc(), True,
                  "no copy of the %d optional API arguments is tested by truthiness, except the %d arguments for which that is harmless "
                  "(%d truth-tested operands looked at)" % (len(optional), len(LEGACY_TRUTHINESS), n_sites)))
    return obs, n_sites
