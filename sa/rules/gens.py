"""R-GEN: a one-shot iterator is consumed once.

A local bound to a generator expression, to the result of a generator function of the package, or to map/filter/zip/
iter/reversed, can be iterated a single time; a second `for`, a second membership test, or any consumption inside a loop
that does not re-create it sees an exhausted (or half-consumed) iterator and silently drops elements."""
import ast
from ..core import walk_own, norm, parent_map
from ..report import Ob

ONE_SHOT_BUILTINS = {"map", "filter", "zip", "iter", "reversed"}
CONSUMERS = {"list", "set", "tuple", "sorted", "sum", "any", "all", "max", "min", "dict", "frozenset", "next", "enumerate"}


def _one_shot(ctx, f, value):
    if isinstance(value, ast.GeneratorExp):
        return "a generator expression"
    if isinstance(value, ast.Call):
        if isinstance(value.func, ast.Name) and value.func.id in ONE_SHOT_BUILTINS and ctx.p.resolve_name(f.module, value.func.id) is None:
            return "%s(...)" % value.func.id
        cs = ctx.r.site_of.get(id(value))
        if cs is not None and cs.targets and cs.kind in ("func", "self", "static", "typed", "super") and all(t.is_generator for t in cs.targets):
            return "the generator %s" % cs.targets[0].short
        # a function that hands out a generator expression (or map/filter/zip/...) it built: just as one-shot as a generator
        if cs is not None and cs.targets and cs.kind in ("func", "self", "static", "typed", "super"):
            for t in cs.targets:
                rets = [x.value for x in walk_own(t.node) if isinstance(x, ast.Return) and x.value is not None]
                if any(isinstance(v, ast.GeneratorExp) or (isinstance(v, ast.Call) and isinstance(v.func, ast.Name) and v.func.id in ONE_SHOT_BUILTINS
                                                            and ctx.p.resolve_name(t.module, v.func.id) is None) for v in rets):
                    return "what %s returns (a generator expression)" % t.short
    return None


_POSITIVE = """
def f(d, wanted):
    seen = (v for k, v in d.items() if k)
    for w in wanted:
        if w not in seen:
            return w
"""


class _Probe:
    """Minimal stand-in for a Func so that the rule can be exercised on a built-in positive example in every run."""
    def __init__(self, src):
        self.node = ast.parse(src).body[0]
        self.short = self.node.name
        self.local_names = {"seen", "w"}
        self.module = None

    def loc(self, n=None):
        return "<built-in example>:%d" % getattr(n, "lineno", 0)


def check(ctx, clause):
    obs, n = [], 0
    probe = _Probe(_POSITIVE)
    fired = _check_func(ctx, probe, clause, lambda f, v: "a generator expression" if isinstance(v, ast.GeneratorExp) else None)
    ok = len(fired) == 1 and not fired[0].ok
    obs.append(Ob(clause, "R-GEN", "R-GEN|built-in-positive-example", "sa/rules/gens.py:1", ok,
                  "the rule fires on its built-in positive example (a generator expression searched with `in` inside a loop)" if ok else
                  "the rule no longer fires on its built-in positive example"))
    for f in ctx.p.funcs.values():
        if not ctx.reachable(f):
            continue
        o = _check_func(ctx, f, clause, lambda f, v: _one_shot(ctx, f, v))
        obs += o
        n += len(o)
    return obs, n


def _check_func(ctx, f, clause, one_shot):
    obs, n = [], 0
    if True:
        assigns = {}
        for x in walk_own(f.node):
            if isinstance(x, ast.Assign) and len(x.targets) == 1 and isinstance(x.targets[0], ast.Name):
                assigns.setdefault(x.targets[0].id, []).append(x)
        cands = {}
        for name, sts in assigns.items():
            kinds = [one_shot(f, st.value) for st in sts]
            if kinds and all(kinds):
                cands[name] = (sts, kinds[0])
        if not cands:
            return obs
        pm = parent_map(f.node)
        for name, (sts, what) in cands.items():
            n += 1
            uses = []
            for x in walk_own(f.node):
                if isinstance(x, ast.Name) and x.id == name and isinstance(x.ctx, ast.Load):
                    par = pm.get(x)
                    how = None
                    if isinstance(par, (ast.For, ast.comprehension)) and par.iter is x:
                        how = "iterated"
                    elif isinstance(par, ast.Compare) and any(c is x for c in par.comparators) and any(isinstance(o, (ast.In, ast.NotIn)) for o in par.ops):
                        how = "searched with `in`"
                    elif isinstance(par, ast.Call) and x in par.args and isinstance(par.func, ast.Name) and par.func.id in CONSUMERS:
                        how = "consumed by %s()" % par.func.id
                    elif isinstance(par, ast.Call) and x in par.args and isinstance(par.func, ast.Attribute) and par.func.attr in ("join", "extend", "update"):
                        how = "consumed by .%s()" % par.func.attr
                    elif isinstance(par, ast.Starred):
                        how = "unpacked"
                    elif isinstance(par, (ast.Return, ast.Yield, ast.YieldFrom)):
                        how = None              # handed on: the receiver's problem
                    elif isinstance(par, ast.Call) and (x in par.args or any(k.value is x for k in par.keywords)):
                        how = "passed to %s" % norm(par.func)[:30]
                    if how:
                        uses.append((x, how))
            problem = None
            # consumption inside a loop that does not contain the (re-)creation
            for x, how in uses:
                cur = x
                while cur in pm:
                    par = pm[cur]
                    loop = isinstance(par, (ast.For, ast.While)) and not (isinstance(par, ast.For) and par.iter is cur) \
                        or isinstance(par, (ast.ListComp, ast.SetComp, ast.DictComp, ast.GeneratorExp)) and not any(
                            g.iter is cur and i == 0 for i, g in enumerate(par.generators))
                    if loop and not any(st in list(ast.walk(par)) for st in sts):
                        problem = (x, "it is %s inside a loop (%s) that does not re-create it" % (how, f.loc(par)))
                        break
                    cur = par
                if problem:
                    break
            if problem is None and len(uses) >= 2:
                # two consumption sites on one path (sites in exclusive arms of one if are fine)
                for i in range(len(uses)):
                    for j in range(i + 1, len(uses)):
                        if not _exclusive(pm, uses[i][0], uses[j][0]):
                            problem = (uses[j][0], "it is %s at %s and %s again at %s" % (uses[i][1], f.loc(uses[i][0]), uses[j][1], f.loc(uses[j][0])))
                            break
                    if problem:
                        break
            key = "R-GEN|%s|%s" % (f.short, name if name not in f.local_names else "$" + str(sorted(cands).index(name) + 1))
            obs.append(Ob(clause, "R-GEN", key, f.loc(sts[0]), problem is None,
                          "`%s` (%s) is consumed once" % (name, what) if problem is None else
                          "`%s` in %s is %s, which can be iterated only once, but %s: the later consumer sees an exhausted iterator and "
                          "silently misses elements" % (name, f.short, what, problem[1])))
    return obs


def _exclusive(pm, a, b):
    """a and b sit in different arms of the same if / conditional expression."""
    def chain(x):
        out = []
        cur = x
        while cur in pm:
            par = pm[cur]
            if isinstance(par, (ast.If, ast.IfExp)):
                body = par.body if isinstance(par.body, list) else [par.body]
                arm = "body" if any(cur is s for s in body) else ("test" if cur is par.test else "else")
                out.append((id(par), arm))
            cur = par
        return out
    ca, cb = dict(chain(a)), dict(chain(b))
    return any(k in cb and cb[k] != v and "test" not in (v, cb[k]) for k, v in ca.items())
